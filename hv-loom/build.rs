//! Reads the three `parallel.rs` files from /repo at build time and rewrites only paths, so that the pool code
//! compiled into this harness is the repository's text running on loom's synchronisation primitives:
//!   std::sync   -> crate::shim::vstd::sync      std::thread -> crate::shim::vstd::thread
//!   crossbeam_channel -> crate::shim::vchan      crate::     -> huginn_net_<x>::
use std::fs;
use std::path::Path;

fn main() {
    let out = Path::new("src/gen");
    fs::create_dir_all(out).expect("create src/gen");
    for (name, krate) in [("tcp", "huginn_net_tcp"), ("http", "huginn_net_http"), ("tls", "huginn_net_tls")] {
        let path = format!("/repo/huginn-net-{name}/src/parallel.rs");
        println!("cargo:rerun-if-changed={path}");
        let src = fs::read_to_string(&path).unwrap_or_else(|e| panic!("cannot read {path}: {e}"));
        let body: String = src
            .lines()
            .map(|l| if l.trim_start().starts_with("//!") { "" } else { l })
            .collect::<Vec<_>>()
            .join("\n");
        let body = body
            .replace("std::sync", "VSTD::sync")
            .replace("std::thread", "VSTD::thread")
            .replace("crossbeam_channel", "VCHAN")
            .replace("crate::", &format!("{krate}::"))
            .replace("VSTD", "crate::shim::vstd")
            .replace("VCHAN", "crate::shim::vchan");
        // a bare `use tracing::...` / `use ttl_cache::...` / `use huginn_net_db as db` resolve through this crate's deps
        fs::write(out.join(format!("{name}_parallel.rs")), body).expect("write generated module");
    }
    println!("cargo:rerun-if-changed=build.rs");
}
