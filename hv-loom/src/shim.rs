//! Shims: the std / crossbeam items the pools use, re-implemented on loom primitives.
//! `vchan` models the crossbeam-channel *specification* the pools rely on: bounded FIFO, `try_send` -> Full /
//! Disconnected, `recv_timeout` (its Timeout answer is an explored environment answer with a per-channel budget, see DESIGN.md), `try_recv`, `len`, messages still delivered after the senders are gone, rendezvous for capacity 0.
pub mod vstd {
    pub mod sync {
        pub use loom::sync::Mutex;
        pub use std::sync::Arc;
        pub mod atomic {
            pub use loom::sync::atomic::{AtomicBool, AtomicU64, Ordering};
        }
        pub mod mpsc {
            use loom::sync::{Condvar, Mutex};
            use std::collections::VecDeque;
            use std::sync::Arc;
            struct Inner<T> {
                q: Mutex<(VecDeque<T>, usize, bool)>,
                cv: Condvar,
            }
            pub struct Sender<T>(Arc<Inner<T>>);
            pub struct Receiver<T>(Arc<Inner<T>>);
            #[derive(Debug)]
            pub struct SendError<T>(pub T);
            pub fn channel<T>() -> (Sender<T>, Receiver<T>) {
                let i = Arc::new(Inner { q: Mutex::new((VecDeque::new(), 1, true)), cv: Condvar::new() });
                (Sender(i.clone()), Receiver(i))
            }
            impl<T> Clone for Sender<T> {
                fn clone(&self) -> Self {
                    self.0.q.lock().unwrap().1 += 1;
                    Sender(self.0.clone())
                }
            }
            impl<T> Drop for Sender<T> {
                fn drop(&mut self) {
                    let mut g = self.0.q.lock().unwrap();
                    g.1 -= 1;
                    if g.1 == 0 {
                        drop(g);
                        self.0.cv.notify_all();
                    }
                }
            }
            impl<T> Drop for Receiver<T> {
                fn drop(&mut self) {
                    self.0.q.lock().unwrap().2 = false;
                }
            }
            impl<T> Sender<T> {
                pub fn send(&self, t: T) -> Result<(), SendError<T>> {
                    let mut g = self.0.q.lock().unwrap();
                    if !g.2 {
                        return Err(SendError(t));
                    }
                    g.0.push_back(t);
                    drop(g);
                    self.0.cv.notify_all();
                    Ok(())
                }
            }
            impl<T> Receiver<T> {
                pub fn recv(&self) -> Result<T, ()> {
                    let mut g = self.0.q.lock().unwrap();
                    loop {
                        if let Some(t) = g.0.pop_front() {
                            return Ok(t);
                        }
                        if g.1 == 0 {
                            return Err(());
                        }
                        g = self.0.cv.wait(g).unwrap();
                    }
                }
            }
        }
    }
    pub mod thread {
        pub use loom::thread::*;
    }
}
pub mod vchan {
    use loom::sync::{Condvar, Mutex};
    use std::collections::VecDeque;
    use std::sync::Arc;
    use std::time::Duration;
    struct St<T> {
        q: VecDeque<T>,
        senders: usize,
        receivers: usize,
        waiting: usize,
        /// how many more times an empty-queue `recv_timeout` answers Timeout before it blocks
        timeouts_left: usize,
        /// set by `expire_all`: from now on an empty-queue `recv_timeout` answers Timeout (the real timeout always fires
        /// eventually; the harness says "eventually is now" once nothing more will be sent)
        expired: bool,
    }
    /// the channels of the current execution, so that the harness can let their timeouts fire without owning them
    /// (plain std mutex, never held across a loom scheduling point; cleared at both ends of every execution)
    static REGISTRY: std::sync::Mutex<Vec<Box<dyn Fn() + Send>>> = std::sync::Mutex::new(Vec::new());
    pub fn registry_clear() {
        REGISTRY.lock().unwrap().clear();
    }
    /// every blocked or future empty-queue `recv_timeout` of this execution answers Timeout. The flag is written under the
    /// channel's own (loom) mutex, so a worker that gets the answer also sees everything the caller wrote before -- which is
    /// what a real 10 ms timeout guarantees in practice for a Relaxed flag.
    pub fn expire_all() {
        let fs = std::mem::take(&mut *REGISTRY.lock().unwrap());
        for f in &fs {
            f();
        }
        *REGISTRY.lock().unwrap() = fs;
    }
    /// per-configuration budget of Timeout answers per channel (set before the model runs; plain std atomic, read once per
    /// channel creation, so it is the same in every explored execution)
    pub static TIMEOUT_BUDGET: std::sync::atomic::AtomicUsize = std::sync::atomic::AtomicUsize::new(0);
    struct Inner<T> {
        st: Mutex<St<T>>,
        cv: Condvar,
        cap: usize,
    }
    pub struct Sender<T>(Arc<Inner<T>>);
    pub struct Receiver<T>(Arc<Inner<T>>);
    #[derive(Debug)]
    pub enum TrySendError<T> {
        Full(T),
        Disconnected(T),
    }
    #[derive(Debug, PartialEq)]
    pub enum RecvTimeoutError {
        Timeout,
        Disconnected,
    }
    #[derive(Debug, PartialEq)]
    pub enum TryRecvError {
        Empty,
        Disconnected,
    }
    pub fn bounded<T: Send + 'static>(cap: usize) -> (Sender<T>, Receiver<T>) {
        let i = Arc::new(Inner { st: Mutex::new(St { q: VecDeque::new(), senders: 1, receivers: 1, waiting: 0, timeouts_left: TIMEOUT_BUDGET.load(std::sync::atomic::Ordering::Relaxed), expired: false }), cv: Condvar::new(), cap });
        let j = i.clone();
        REGISTRY.lock().unwrap().push(Box::new(move || {
            j.st.lock().unwrap().expired = true;
            j.cv.notify_all();
        }));
        (Sender(i.clone()), Receiver(i))
    }
    impl<T> Sender<T> {
        pub fn try_send(&self, t: T) -> Result<(), TrySendError<T>> {
            let mut g = self.0.st.lock().unwrap();
            if g.receivers == 0 {
                return Err(TrySendError::Disconnected(t));
            }
            // capacity 0 = rendezvous: succeeds only while a receiver is blocked waiting and no hand-off is pending
            let room = if self.0.cap == 0 { g.waiting > g.q.len() } else { g.q.len() < self.0.cap };
            if !room {
                return Err(TrySendError::Full(t));
            }
            g.q.push_back(t);
            drop(g);
            self.0.cv.notify_all();
            Ok(())
        }
        pub fn len(&self) -> usize {
            let g = self.0.st.lock().unwrap();
            if self.0.cap == 0 {
                0
            } else {
                g.q.len()
            }
        }
    }
    impl<T> Clone for Sender<T> {
        fn clone(&self) -> Self {
            self.0.st.lock().unwrap().senders += 1;
            Sender(self.0.clone())
        }
    }
    impl<T> Drop for Sender<T> {
        fn drop(&mut self) {
            let mut g = self.0.st.lock().unwrap();
            g.senders -= 1;
            if g.senders == 0 {
                drop(g);
                self.0.cv.notify_all();
            }
        }
    }
    impl<T> Drop for Receiver<T> {
        fn drop(&mut self) {
            self.0.st.lock().unwrap().receivers -= 1;
        }
    }
    impl<T> Receiver<T> {
        pub fn recv_timeout(&self, _d: Duration) -> Result<T, RecvTimeoutError> {
            let mut g = self.0.st.lock().unwrap();
            loop {
                if let Some(t) = g.q.pop_front() {
                    return Ok(t);
                }
                if g.senders == 0 {
                    return Err(RecvTimeoutError::Disconnected);
                }
                // the environment answer "nothing arrived in time": taken the first `budget` times this worker finds its
                // queue empty; which moment of the trace that is varies over the explored schedules
                if g.timeouts_left > 0 {
                    g.timeouts_left -= 1;
                    return Err(RecvTimeoutError::Timeout);
                }
                if g.expired {
                    return Err(RecvTimeoutError::Timeout);
                }
                g.waiting += 1;
                g = self.0.cv.wait(g).unwrap();
                g.waiting -= 1;
            }
        }
        pub fn try_recv(&self) -> Result<T, TryRecvError> {
            let mut g = self.0.st.lock().unwrap();
            if let Some(t) = g.q.pop_front() {
                return Ok(t);
            }
            if g.senders == 0 {
                Err(TryRecvError::Disconnected)
            } else {
                Err(TryRecvError::Empty)
            }
        }
    }
}
