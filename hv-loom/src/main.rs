//! hv-loom — engine E2: loom (DPOR, preemption-bounded) over the repository's real worker pools.
//! usage: hv-loom run <C10|C18> <quick|thorough> <out.json>     (parent: one subprocess per configuration)
//!        hv-loom one <config-string>                            (child: explores one configuration, prints one JSON line)
//!        hv-loom replay <ID> <replay.json>
#![allow(dead_code, unused_imports, clippy::all)]
mod shim;
mod gen {
    #[path = "../../../hv/src/gen/pkt.rs"]
    pub mod pkt;
}
#[path = "../../hv/src/drv.rs"]
mod drv;
#[path = "gen/http_parallel.rs"]
mod http_parallel;
#[path = "gen/tcp_parallel.rs"]
mod tcp_parallel;
#[path = "gen/tls_parallel.rs"]
mod tls_parallel;

use gen::pkt::{self, Spec, ACK, PSH, SYN};
use serde_json::{json, Value};
use std::collections::BTreeSet;
use std::sync::atomic::{AtomicUsize, Ordering as O};
use std::sync::Arc;

static RUNS: AtomicUsize = AtomicUsize::new(0);
const T0: u64 = 1_700_000_000_000;

fn model<F: Fn() + Sync + Send + 'static>(pb: Option<usize>, f: F) -> usize {
    RUNS.store(0, O::Relaxed);
    let mut b = loom::model::Builder::new();
    b.preemption_bound = pb;
    b.max_branches = 500_000;
    if let Ok(p) = std::env::var("HV_LOOM_CHECKPOINT") {
        b.checkpoint_file = Some(p.into());
        b.checkpoint_interval = 1;
    }
    b.check(move || {
        RUNS.fetch_add(1, O::Relaxed);
        f()
    });
    RUNS.load(O::Relaxed)
}

// ---------- packets ----------
fn tcp_index(frame: &[u8], workers: usize) -> usize {
    huginn_net_tcp::packet_hash::hash_source_ip(frame).checked_rem(workers).unwrap_or(0)
}
fn http_index(frame: &[u8], workers: usize) -> usize {
    huginn_net_http::packet_hash::hash_flow(frame, workers)
}
fn tls_index(frame: &[u8], workers: usize) -> usize {
    huginn_net_tls::packet_hash::hash_flow(frame, workers).unwrap_or(0)
}
fn syn(src: u8, sport: u16, dst: u8, dport: u16) -> Vec<u8> {
    pkt::build(&Spec { src, sport, dst, dport, flags: SYN, seq: 1000, opts: vec![2, 4, 5, 0xb4, 1, 3, 3, 7], ..Spec::default() })
}
fn data(src: u8, sport: u16, dst: u8, dport: u16, seq: u32, payload: &[u8]) -> Vec<u8> {
    pkt::build(&Spec { src, sport, dst, dport, flags: ACK | PSH, seq, ack: 1, payload: payload.to_vec(), ..Spec::default() })
}
fn hello(sni: &str) -> Vec<u8> {
    // minimal ClientHello with SNI
    let mut ext = vec![];
    let name = sni.as_bytes();
    ext.extend([0u8, 0]);
    ext.extend(((name.len() + 5) as u16).to_be_bytes());
    ext.extend(((name.len() + 3) as u16).to_be_bytes());
    ext.push(0);
    ext.extend((name.len() as u16).to_be_bytes());
    ext.extend(name);
    let mut b = vec![3u8, 3];
    b.extend([7u8; 32]);
    b.push(0);
    b.extend([0, 4, 0x13, 0x01, 0xc0, 0x2f]);
    b.extend([1, 0]);
    b.extend((ext.len() as u16).to_be_bytes());
    b.extend(ext);
    let mut hs = vec![1, 0, (b.len() >> 8) as u8, b.len() as u8];
    hs.extend(b);
    let mut r = vec![0x16, 3, 1];
    r.extend((hs.len() as u16).to_be_bytes());
    r.extend(hs);
    r
}
/// source ids (last address byte) whose frames the given index function sends to `want`
fn pick_sources(workers: usize, want: usize, n: usize, idx: &dyn Fn(u8) -> usize) -> Vec<u8> {
    let v: Vec<u8> = (1..=250u8).filter(|&s| idx(s) == want % workers).take(n).collect();
    assert!(v.len() == n, "no {n} sources for worker {want} of {workers}");
    v
}

#[derive(Clone, Debug)]
struct Cfg {
    prop: String,
    pool: String,
    workers: usize,
    cap: usize,
    batch: usize,
    pb: Option<usize>,
    /// Timeout answers per worker queue before `recv_timeout` blocks
    to: usize,
    /// the pool carries a packet filter that admits one of the two connections only
    flt: bool,
    /// the pool is ended the way `process_parallel` ends it: `shutdown()` right after the last dispatch, pool kept alive
    /// (TCP pool only; the other two are ended by dropping the pool, as their analyzers do). For C18 configurations the
    /// field means: the receiver of the results is dropped before the first dispatch
    term: bool,
}
impl Cfg {
    fn to_s(&self) -> String {
        format!("{}:{}:{}:{}:{}:{}:{}:{}:{}", self.prop, self.pool, self.workers, self.cap, self.batch, self.pb.map(|p| p.to_string()).unwrap_or("none".into()), self.to, self.flt as u8, self.term as u8)
    }
    fn parse(s: &str) -> Option<Cfg> {
        let p: Vec<&str> = s.split(':').collect();
        if p.len() != 8 && p.len() != 9 {
            return None;
        }
        Some(Cfg { prop: p[0].into(), pool: p[1].into(), workers: p[2].parse().ok()?, cap: p[3].parse().ok()?, batch: p[4].parse().ok()?, pb: p[5].parse().ok(), to: p[6].parse().ok()?, flt: p[7] == "1", term: p.get(8) == Some(&"1") })
    }
}

type Outcomes = Arc<std::sync::Mutex<BTreeSet<String>>>;

// ---------- C18(b): concurrent dispatchers, forced overflow, counters vs outcomes ----------
fn c18_one(c: &Cfg) -> (usize, Vec<String>) {
    huginn_net_tcp::uptime::verif_clock::set_global(T0);
    let outcomes: Outcomes = Arc::new(std::sync::Mutex::new(BTreeSet::new()));
    let oc = outcomes.clone();
    let (workers, cap, batch) = (c.workers, c.cap, c.batch);
    let pool_kind = c.pool.clone();
    // 2 dispatchers x 2 packets, every packet a different sender, all aimed at worker 0 so that they meet in one queue
    // with two workers the packets are spread: each dispatcher sends one packet to each queue, so both queues see
    // concurrent dispatchers
    let srcs: Vec<u8> = {
        let idx: Box<dyn Fn(u8) -> usize> = match pool_kind.as_str() {
            "tcp" => Box::new(move |s| tcp_index(&syn(s, 40000, 200, 80), workers)),
            "http" => Box::new(move |s| http_index(&syn(s, 40000, 200, 80), workers)),
            _ => Box::new(move |s| tls_index(&data(s, 40000, 200, 443, 1001, &hello("a.example")), workers)),
        };
        let w0 = pick_sources(workers, 0, 4, &*idx);
        if workers == 1 {
            w0
        } else {
            let w1 = pick_sources(workers, 1, 2, &*idx);
            vec![w0[0], w1[0], w0[1], w1[1]]
        }
    };
    let frames: Vec<Vec<u8>> = match pool_kind.as_str() {
        "tcp" | "http" => srcs.iter().map(|&s| syn(s, 40000, 200, 80)).collect(),
        _ => srcs.iter().map(|&s| data(s, 40000, 200, 443, 1001, &hello(&format!("h{s}.example")))).collect(),
    };
    // what each packet yields when analysed alone on a fresh analyzer (every packet is its own connection)
    let expected: Vec<String> = frames
        .iter()
        .map(|f| match pool_kind.as_str() {
            "tcp" => format!("{:?}", drv::TcpSeq::new(None, 8).feed(f)),
            "http" => format!("{:?}", drv::HttpSeq::new(None, 8).feed(f)),
            _ => format!("{:?}", drv::TlsSeq::new(8).feed(f)),
        })
        .collect();
    crate::shim::vchan::TIMEOUT_BUDGET.store(c.to, std::sync::atomic::Ordering::Relaxed);
    let rxdrop = c.term;
    let n = model(c.pb, move || {
        shim::vchan::registry_clear();
        let mut got: Vec<String> = vec![];
        let mut queued_flags: Vec<bool> = vec![];
        let counters: (u64, u64, u64);
        macro_rules! body {
            ($modname:ident, $newexpr:expr, $summ:expr) => {{
                let (tx, rx) = shim::vstd::sync::mpsc::channel();
                let pool = Arc::new($newexpr(tx));
                // rxdrop: the consumer of the results goes away first; a worker that cannot deliver a result stops, and
                // packets dispatched to it afterwards are refused (Disconnected) -- they must still be counted as dropped
                let rx = if rxdrop {
                    drop(rx);
                    None
                } else {
                    Some(rx)
                };
                let hs: Vec<_> = (0..2usize)
                    .map(|i| {
                        let p = pool.clone();
                        let mine: Vec<Vec<u8>> = vec![frames[2 * i].clone(), frames[2 * i + 1].clone()];
                        loom::thread::spawn(move || mine.into_iter().map(|f| p.dispatch(f) == $modname::DispatchResult::Queued).collect::<Vec<bool>>())
                    })
                    .collect();
                for h in hs {
                    queued_flags.extend(h.join().unwrap());
                }
                let st = pool.stats();
                counters = (st.total_dispatched, st.total_dropped, st.workers.iter().map(|w| w.dropped).sum::<u64>());
                drop(pool);
                if let Some(rx) = rx {
                    while let Ok(r) = rx.recv() {
                        got.push($summ(&r));
                    }
                }
            }};
        }
        match pool_kind.as_str() {
            "tcp" => body!(tcp_parallel, |tx| tcp_parallel::WorkerPool::new(workers, cap, batch, 10, tx, None, 8, None).unwrap(), |r: &huginn_net_tcp::TcpAnalysisResult| format!("{:?}", drv::tcp_res(r))),
            "http" => {
                let (tx, rx) = shim::vstd::sync::mpsc::channel();
                let pool = http_parallel::WorkerPool::new(workers, cap, batch, 10, tx, None, 8, None).unwrap();
                let rx = if rxdrop {
                    drop(rx);
                    None
                } else {
                    Some(rx)
                };
                let hs: Vec<_> = (0..2usize)
                    .map(|i| {
                        let p = pool.clone();
                        let mine: Vec<Vec<u8>> = vec![frames[2 * i].clone(), frames[2 * i + 1].clone()];
                        loom::thread::spawn(move || mine.into_iter().map(|f| p.dispatch(f) == http_parallel::DispatchResult::Queued).collect::<Vec<bool>>())
                    })
                    .collect();
                for h in hs {
                    queued_flags.extend(h.join().unwrap());
                }
                let st = pool.stats();
                counters = (st.total_dispatched, st.total_dropped, st.workers.iter().map(|w| w.dropped).sum::<u64>());
                drop(pool);
                if let Some(rx) = rx {
                    while let Ok(r) = rx.recv() {
                        got.push(format!("{:?}", drv::http_res(&r)));
                    }
                }
            }
            _ => body!(tls_parallel, |tx| tls_parallel::WorkerPool::new(workers, cap, batch, 10, tx, 8, None).unwrap(), |r: &huginn_net_tls::TlsClientOutput| format!("{:?}", drv::tls_out(r))),
        }
        let queued = queued_flags.iter().filter(|x| **x).count() as u64;
        let dropped = 4 - queued;
        // counters at quiescence, read per pool as its documented (and test-pinned) meaning
        let exp_dispatched = if pool_kind == "tcp" { queued } else { 4 };
        assert_eq!(counters.0, exp_dispatched, "total_dispatched does not agree with the dispatch outcomes ({queued} queued, {dropped} dropped)");
        assert_eq!(counters.1, dropped, "total_dropped does not agree with the dispatch outcomes ({queued} queued, {dropped} dropped)");
        assert_eq!(counters.2, dropped, "per-worker drop counters do not sum to the dropped outcomes");
        // every queued packet analysed exactly once, no dropped packet analysed
        let mut want: Vec<String> = queued_flags.iter().enumerate().filter(|(_, q)| **q).map(|(i, _)| expected[i].clone()).collect();
        want.sort();
        let mut g = got.clone();
        g.sort();
        if !rxdrop {
            assert_eq!(g, want, "results delivered differ from one result per queued packet");
        }
        oc.lock().unwrap().insert(format!("queued={queued}"));
    });
    let o = outcomes.lock().unwrap().iter().cloned().collect();
    (n, o)
}

// ---------- C10(a): pool == sequential on a trace of two connections, no overflow ----------
fn c10_one(c: &Cfg) -> (usize, Vec<String>) {
    huginn_net_tcp::uptime::verif_clock::set_global(T0);
    let outcomes: Outcomes = Arc::new(std::sync::Mutex::new(BTreeSet::new()));
    let oc = outcomes.clone();
    let (workers, cap, batch) = (c.workers, c.cap, c.batch);
    let pool_kind = c.pool.clone();
    // two connections whose packets go to different workers whenever there is more than one worker
    let req = b"GET / HTTP/1.1\r\nHost: l.example\r\nUser-Agent: curl/8.0\r\n\r\n";
    let resp = b"HTTP/1.1 200 OK\r\nServer: nginx/1.0\r\n\r\n";
    let trace: Vec<Vec<u8>> = match pool_kind.as_str() {
        "tcp" => {
            let a = pick_sources(workers, 0, 1, &|s| tcp_index(&syn(s, 40000, 200, 80), workers))[0];
            let b = pick_sources(workers, 1, 1, &|s| if s == a { usize::MAX } else { tcp_index(&syn(s, 40001, 200, 80), workers) })[0];
            vec![syn(a, 40000, 200, 80), syn(b, 40001, 200, 80), data(a, 40000, 200, 80, 1001, b"x"), data(b, 40001, 200, 80, 1001, b"y"), syn(a, 40002, 201, 443), syn(b, 40003, 201, 443)]
        }
        "http" => {
            let a = pick_sources(workers, 0, 1, &|s| http_index(&syn(s, 40000, 200, 80), workers))[0];
            let b = pick_sources(workers, 1, 1, &|s| if s == a { usize::MAX } else { http_index(&syn(s, 40001, 200, 80), workers) })[0];
            vec![syn(a, 40000, 200, 80), syn(b, 40001, 200, 80), data(a, 40000, 200, 80, 1001, req), data(200, 80, a, 40000, 5001, resp), data(b, 40001, 200, 80, 1001, req), data(200, 80, b, 40001, 5001, resp)]
        }
        _ => {
            let h1 = hello("one.example");
            let h2 = hello("two.example");
            let a = pick_sources(workers, 0, 1, &|s| tls_index(&data(s, 40000, 200, 443, 1001, &h1), workers))[0];
            let b = pick_sources(workers, 1, 1, &|s| if s == a { usize::MAX } else { tls_index(&data(s, 40001, 200, 443, 1001, &h2), workers) })[0];
            vec![data(a, 40000, 200, 443, 1001, &h1[..20]), data(b, 40001, 200, 443, 1001, &h2[..30]), data(a, 40000, 200, 443, 1021, &h1[20..50]), data(b, 40001, 200, 443, 1031, &h2[30..]), data(a, 40000, 200, 443, 1051, &h1[50..]), data(b, 40001, 200, 443, 9000, b"\x17\x03\x03\x00\x01x")]
        }
    };
    // the filter (when on) admits the first connection's client address only, in either direction
    let flt = c.flt;
    let addr_a = format!("{}.{}.{}.{}", trace[0][12], trace[0][13], trace[0][14], trace[0][15]);
    let f_tcp = huginn_net_tcp::FilterConfig::new().mode(huginn_net_tcp::FilterMode::Allow).with_ip_filter(huginn_net_tcp::IpFilter::new().allow(&addr_a).expect("address"));
    let f_http = huginn_net_http::FilterConfig::new().mode(huginn_net_http::FilterMode::Allow).with_ip_filter(huginn_net_http::IpFilter::new().allow(&addr_a).expect("address"));
    let f_tls = huginn_net_tls::FilterConfig::new().mode(huginn_net_tls::FilterMode::Allow).with_ip_filter(huginn_net_tls::IpFilter::new().allow(&addr_a).expect("address"));
    let full_trace = trace.clone();
    let trace: Vec<Vec<u8>> = if !flt {
        trace
    } else {
        trace
            .into_iter()
            .filter(|f| match pool_kind.as_str() {
                "tcp" => huginn_net_tcp::raw_filter::apply(f, &f_tcp),
                "http" => huginn_net_http::raw_filter::apply(f, &f_http),
                _ => huginn_net_tls::raw_filter::apply(f, &f_tls),
            })
            .collect()
    };
    assert!(!flt || (trace.len() < full_trace.len() && !trace.is_empty()), "the filter must admit some but not all packets of the trace");
    // sequential reference on the (admitted) trace; empty results are not results
    let seq: Vec<String> = match pool_kind.as_str() {
        "tcp" => {
            let mut a = drv::TcpSeq::new(None, 8);
            trace.iter().map(|f| a.feed(f)).filter(|r| !r.is_empty()).map(|r| format!("{r:?}")).collect()
        }
        "http" => {
            let mut a = drv::HttpSeq::new(None, 8);
            trace.iter().map(|f| a.feed(f)).filter(|r| !r.is_empty()).map(|r| format!("{r:?}")).collect()
        }
        _ => {
            let mut a = drv::TlsSeq::new(8);
            trace.iter().map(|f| a.feed(f)).filter(|r| !r.is_empty()).map(|r| format!("{r:?}")).collect()
        }
    };
    assert!(seq.len() >= if flt { 1 } else { 2 }, "sequential reference yields {} results; harness would be vacuous", seq.len());
    crate::shim::vchan::TIMEOUT_BUDGET.store(c.to, std::sync::atomic::Ordering::Relaxed);
    let trace = full_trace;
    let term = c.term;
    let n = model(c.pb, move || {
        shim::vchan::registry_clear();
        let mut got: Vec<String> = vec![];
        match pool_kind.as_str() {
            "tcp" => {
                let (tx, rx) = shim::vstd::sync::mpsc::channel();
                let pool = tcp_parallel::WorkerPool::new(workers, cap, batch, 10, tx, None, 8, if flt { Some(f_tcp.clone()) } else { None }).unwrap();
                for f in &trace {
                    assert!(pool.dispatch(f.clone()) == tcp_parallel::DispatchResult::Queued, "queue overflow in a no-overflow harness");
                }
                let keep = if term {
                    // HuginnNetTcp::process_parallel: shutdown straight after the last dispatch, the analyzer keeps the pool
                    pool.shutdown();
                    shim::vchan::expire_all();
                    Some(pool)
                } else {
                    drop(pool);
                    None
                };
                while let Ok(r) = rx.recv() {
                    let s = drv::tcp_res(&r);
                    if !s.is_empty() {
                        got.push(format!("{s:?}"));
                    }
                }
                drop(keep);
            }
            "http" => {
                let (tx, rx) = shim::vstd::sync::mpsc::channel();
                let pool = http_parallel::WorkerPool::new(workers, cap, batch, 10, tx, None, 8, if flt { Some(f_http.clone()) } else { None }).unwrap();
                for f in &trace {
                    assert!(pool.dispatch(f.clone()) == http_parallel::DispatchResult::Queued, "queue overflow in a no-overflow harness");
                }
                drop(pool);
                while let Ok(r) = rx.recv() {
                    let s = drv::http_res(&r);
                    if !s.is_empty() {
                        got.push(format!("{s:?}"));
                    }
                }
            }
            _ => {
                let (tx, rx) = shim::vstd::sync::mpsc::channel();
                let pool = tls_parallel::WorkerPool::new(workers, cap, batch, 10, tx, 8, if flt { Some(f_tls.clone()) } else { None }).unwrap();
                for f in &trace {
                    assert!(pool.dispatch(f.clone()) == tls_parallel::DispatchResult::Queued, "queue overflow in a no-overflow harness");
                }
                drop(pool);
                while let Ok(r) = rx.recv() {
                    got.push(format!("{:?}", drv::tls_out(&r)));
                }
            }
        }
        // multiset equality with the sequential analyzer
        let mut g = got.clone();
        g.sort();
        let mut s = seq.clone();
        s.sort();
        assert_eq!(g, s, "pool results differ from the sequential analyzer's results as a multiset");
        // per sender (TCP) / per connection order preserved: the subsequence of each source keeps the sequential order
        // TCP pool: per sending host; HTTP / TLS pools: per connection (unordered endpoint pair)
        let field = |x: &String, name: &str| x.split(&format!("{name}: Some(\"")).nth(1).or_else(|| x.split(&format!("{name}: \"")).nth(1)).map(|t| t.split('"').next().unwrap_or("").to_string()).unwrap_or_default();
        let per_host = pool_kind == "tcp";
        let key = move |x: &String| {
            let (s, d) = (field(x, "src"), field(x, "dst"));
            if per_host {
                s.rsplit_once(':').map(|p| p.0.to_string()).unwrap_or(s)
            } else if s <= d {
                format!("{s}<>{d}")
            } else {
                format!("{d}<>{s}")
            }
        };
        let mut keys: Vec<String> = seq.iter().map(key).collect();
        keys.sort();
        keys.dedup();
        for k in keys {
            let a: Vec<&String> = got.iter().filter(|x| key(x) == k).collect();
            let b: Vec<&String> = seq.iter().filter(|x| key(x) == k).collect();
            assert_eq!(a, b, "results of {k} arrive in another order than sequentially");
        }
        oc.lock().unwrap().insert(got.iter().map(key).collect::<Vec<_>>().join(">"));
        shim::vchan::registry_clear();
    });
    let o = outcomes.lock().unwrap().iter().cloned().collect();
    (n, o)
}

fn configs(prop: &str, thorough: bool) -> Vec<Cfg> {
    let mut v = vec![];
    for pool in ["tcp", "http", "tls"] {
        if prop == "C15" {
            // the filtered pool only: every packet of every batch goes through the filter, whatever the schedule
            for workers in [1usize, 2] {
                for batch in [1usize, 2, 32] {
                    v.push(Cfg { prop: prop.into(), pool: pool.into(), workers, cap: 8, batch, pb: Some(if thorough { 3 } else { 2 }), to: 0, flt: true, term: false });
                }
            }
            v.push(Cfg { prop: prop.into(), pool: pool.into(), workers: 1, cap: 8, batch: 32, pb: Some(2), to: 1, flt: true, term: false });
            continue;
        }
        if prop == "C18" {
            // one worker: every capacity and batch size; two workers (packets spread over both queues): capacity x batch 1
            for cap in [0usize, 1, 2] {
                for batch in [1usize, 32] {
                    v.push(Cfg { prop: prop.into(), pool: pool.into(), workers: 1, cap, batch, pb: Some(if thorough { 3 } else { 2 }), to: 0, flt: false, term: false });
                }
                v.push(Cfg { prop: prop.into(), pool: pool.into(), workers: 2, cap, batch: 1, pb: Some(if thorough { 2 } else { 1 }), to: 0, flt: false, term: false });
                // one Timeout answer per worker queue (the worker may run dry between the dispatchers' packets)
                if cap == 1 || thorough {
                    v.push(Cfg { prop: prop.into(), pool: pool.into(), workers: 1, cap, batch: 1, pb: Some(2), to: 1, flt: false, term: false });
                }
                // the result consumer is gone before the first dispatch: refused packets are still counted
                if cap >= 1 {
                    v.push(Cfg { prop: prop.into(), pool: pool.into(), workers: 1, cap, batch: 1, pb: Some(if thorough { 3 } else { 2 }), to: 0, flt: false, term: true });
                }
            }
        } else {
            for workers in [1usize, 2, 3] {
                for batch in [1usize, 2, 32] {
                    v.push(Cfg { prop: prop.into(), pool: pool.into(), workers, cap: 8, batch, pb: Some(if thorough { 3 } else { 2 }), to: 0, flt: false, term: false });
                    // the same with one (thorough: also two) Timeout answers per worker queue
                    if batch != 2 || thorough {
                        v.push(Cfg { prop: prop.into(), pool: pool.into(), workers, cap: 8, batch, pb: Some(2), to: 1, flt: false, term: false });
                    }
                    // with a packet filter on the pool (every packet of a batch must pass through it)
                    if workers <= 2 && batch != 1 {
                        v.push(Cfg { prop: prop.into(), pool: pool.into(), workers, cap: 8, batch, pb: Some(2), to: 0, flt: true, term: false });
                    }
                    if thorough && workers <= 2 {
                        v.push(Cfg { prop: prop.into(), pool: pool.into(), workers, cap: 8, batch, pb: Some(2), to: 2, flt: false, term: false });
                    }
                    // ended by shutdown() with packets still queued, as HuginnNetTcp::process_parallel ends it
                    if pool == "tcp" && workers <= 2 {
                        v.push(Cfg { prop: prop.into(), pool: pool.into(), workers, cap: 8, batch, pb: Some(if thorough { 3 } else { 2 }), to: 0, flt: false, term: true });
                        if batch != 2 || thorough {
                            v.push(Cfg { prop: prop.into(), pool: pool.into(), workers, cap: 8, batch, pb: Some(2), to: 1, flt: false, term: true });
                        }
                    }
                }
            }
        }
    }
    v
}

fn run_child(exe: &std::path::Path, c: &Cfg, checkpoint: Option<&std::path::Path>) -> Value {
    let t = std::time::Instant::now();
    let mut cmd = std::process::Command::new(exe);
    cmd.arg("one").arg(c.to_s());
    if let Some(p) = checkpoint {
        cmd.env("HV_LOOM_CHECKPOINT", p);
    }
    let out = cmd.output();
    let wall = t.elapsed().as_secs_f64();
    match out {
        Err(e) => json!({"config": c.to_s(), "machinery_error": format!("cannot spawn child: {e}")}),
        Ok(o) => {
            let stdout = String::from_utf8_lossy(&o.stdout).to_string();
            let stderr = String::from_utf8_lossy(&o.stderr).to_string();
            if o.status.success() {
                match stdout.lines().rev().find_map(|l| serde_json::from_str::<Value>(l).ok()) {
                    Some(mut v) => {
                        v["wall_s"] = json!(wall);
                        v
                    }
                    None => json!({"config": c.to_s(), "machinery_error": format!("child printed no result: {stdout} {stderr}")}),
                }
            } else {
                // a failed model check: loom panicked inside the child
                let msg: String = stderr.lines().filter(|l| l.contains("panicked") || l.contains("assertion") || l.contains("left") || l.contains("right") || l.contains("deadlock") || l.contains("differ") || l.contains("agree") || l.contains("overflow")).take(12).collect::<Vec<_>>().join(" | ");
                json!({"config": c.to_s(), "failed": true, "message": if msg.is_empty() { stderr.chars().rev().take(1500).collect::<String>().chars().rev().collect::<String>() } else { msg }, "wall_s": wall})
            }
        }
    }
}

fn classify(msg: &str) -> &'static str {
    if msg.contains("deadlock") {
        "deadlock-or-lost-packet"
    } else if msg.contains("total_dispatched") {
        "total_dispatched-disagrees-with-outcomes"
    } else if msg.contains("total_dropped") {
        "total_dropped-disagrees-with-outcomes"
    } else if msg.contains("per-worker") {
        "per-worker-drops-disagree-with-outcomes"
    } else if msg.contains("one result per queued packet") {
        "queued-packet-not-analysed-exactly-once"
    } else if msg.contains("multiset") {
        "pool-results-differ-from-sequential"
    } else if msg.contains("another order") {
        "per-connection-order-not-preserved"
    } else if msg.contains("queue overflow") {
        "unexpected-drop"
    } else {
        "model-check-failed"
    }
}

fn main() {
    let args: Vec<String> = std::env::args().collect();
    if args.len() < 3 {
        eprintln!("usage: hv-loom run <ID> <tier> <out.json> | one <config> | replay <ID> <file>");
        std::process::exit(2);
    }
    match args[1].as_str() {
        "one" => {
            let Some(c) = Cfg::parse(&args[2]) else { std::process::exit(2) };
            let (n, outcomes) = if c.prop == "C18" { c18_one(&c) } else { c10_one(&c) };
            println!("{}", json!({"config": c.to_s(), "executions": n, "outcomes": outcomes}));
        }
        "run" => {
            let id = args[2].clone();
            let tier = args.get(3).cloned().unwrap_or("quick".into());
            let out = args.get(4).cloned().unwrap_or("/dev/stdout".into());
            let exe = std::env::current_exe().expect("own path");
            let cfgs = configs(&id, tier == "thorough");
            let t0 = std::time::Instant::now();
            let scratch = std::path::PathBuf::from(std::env::var("HV_SCRATCH").unwrap_or_else(|_| "/verif/.target".into())).join(format!("loom-scratch-{}", std::process::id()));
            let _ = std::fs::create_dir_all(&scratch);
            // children in parallel, results kept in configuration order
            let results: Vec<Value> = {
                let chunks: Vec<Vec<(usize, Cfg)>> = {
                    let mut ch: Vec<Vec<(usize, Cfg)>> = (0..14).map(|_| vec![]).collect();
                    for (i, c) in cfgs.iter().cloned().enumerate() {
                        ch[i % 14].push((i, c));
                    }
                    ch
                };
                let mut all: Vec<(usize, Value)> = vec![];
                std::thread::scope(|s| {
                    let hs: Vec<_> = chunks
                        .into_iter()
                        .map(|ch| {
                            let exe = exe.clone();
                            let scratch = scratch.clone();
                            s.spawn(move || {
                                ch.into_iter()
                                    .map(|(i, c)| {
                                        // first pass without checkpointing (no file I/O per schedule); a failing configuration
                                        // is explored again with a checkpoint after every schedule, which leaves the failing
                                        // schedule on disk as the replay artefact
                                        let mut r = run_child(&exe, &c, None);
                                        if r.get("failed").is_some() {
                                            let again = run_child(&exe, &c, Some(&scratch.join(format!("{}.ckpt", c.to_s().replace(':', "_")))));
                                            if again.get("failed").is_none() {
                                                r = json!({"config": c.to_s(), "machinery_error": "a failing configuration did not fail when re-explored (nondeterminism)"});
                                            }
                                        }
                                        (i, r)
                                    })
                                    .collect::<Vec<_>>()
                            })
                        })
                        .collect();
                    for h in hs {
                        all.extend(h.join().unwrap_or_default());
                    }
                });
                all.sort_by_key(|x| x.0);
                all.into_iter().map(|x| x.1).collect()
            };
            let mut execs = 0u64;
            let mut devs: Vec<Value> = vec![];
            let mut merr: Vec<String> = vec![];
            let mut samples: Vec<Value> = vec![];
            let mut distinct: BTreeSet<String> = BTreeSet::new();
            for r in &results {
                if let Some(m) = r.get("machinery_error") {
                    merr.push(format!("{}: {}", r["config"], m));
                    continue;
                }
                if r.get("failed").is_some() {
                    let msg = r["message"].as_str().unwrap_or("").to_string();
                    let cfg = r["config"].as_str().unwrap_or("").to_string();
                    let pool = cfg.split(':').nth(1).unwrap_or("").to_string();
                    let class = classify(&msg);
                    // keep the checkpoint (the failing schedule) next to the replay file
                    let ck = scratch.join(format!("{}.ckpt", cfg.replace(':', "_")));
                    let kept = std::path::Path::new("/verif/replays").join(&id).join(format!("loom-{}.ckpt", cfg.replace(':', "_")));
                    let _ = std::fs::create_dir_all(kept.parent().unwrap_or(std::path::Path::new("/verif/replays")));
                    let _ = std::fs::copy(&ck, &kept);
                    devs.push(json!({"key": format!("{id}/loom/{pool}/{class}"), "class": class, "count": 1, "example": {"config": cfg, "message": msg, "checkpoint": kept.to_string_lossy()}}));
                    continue;
                }
                execs += r["executions"].as_u64().unwrap_or(0);
                for o in r["outcomes"].as_array().cloned().unwrap_or_default() {
                    distinct.insert(format!("{}|{}", r["config"], o));
                }
                if samples.len() < 8 {
                    samples.push(r.clone());
                }
            }
            let _ = std::fs::remove_dir_all(&scratch);
            // merge deviations with equal keys
            let mut merged: std::collections::BTreeMap<String, Value> = Default::default();
            for d in devs {
                let k = d["key"].as_str().unwrap_or("").to_string();
                match merged.get_mut(&k) {
                    Some(e) => e["count"] = json!(e["count"].as_u64().unwrap_or(0) + 1),
                    None => {
                        merged.insert(k, d);
                    }
                }
            }
            let j = json!({
                "property": id, "tier": tier, "wall_s": t0.elapsed().as_secs_f64(),
                "coverage": {
                    "evaluations": execs, "states": results.len(), "transitions": execs, "traces_validated_against_impl": execs,
                    "distinct_nontrivial": distinct.len(),
                    "rule": "loom exploration of the repository's parallel.rs (path-rewritten at build time) for every configuration (pool x workers x queue capacity x batch) up to the preemption bound; states = configurations explored to completion, transitions = complete schedules executed, distinct = distinct (configuration, observed outcome) pairs (queued counts / result arrival orders)",
                    "exhaustive": true,
                    "bounds": {"configurations": cfgs.iter().map(|c| c.to_s()).collect::<Vec<_>>(), "configuration_string": "property:pool:workers:queue capacity:batch:preemption bound:timeout budget:filter"},
                    "counters": {}, "samples": samples, "notes": []
                },
                "deviations": merged.values().cloned().collect::<Vec<_>>(),
                "machinery_errors": merr,
            });
            if std::fs::write(&out, serde_json::to_string_pretty(&j).unwrap_or_default()).is_err() {
                std::process::exit(2);
            }
            if !j["machinery_errors"].as_array().map(|a| a.is_empty()).unwrap_or(true) {
                eprintln!("machinery errors: {}", j["machinery_errors"]);
                std::process::exit(3);
            }
            std::process::exit(if merged.is_empty() { 0 } else { 1 });
        }
        "replay" => {
            let txt = std::fs::read_to_string(&args[3]).unwrap_or_default();
            let v: Value = serde_json::from_str(&txt).unwrap_or(Value::Null);
            let ex = v.get("example").cloned().unwrap_or(v);
            let Some(c) = ex["config"].as_str().and_then(Cfg::parse) else {
                eprintln!("bad replay file");
                std::process::exit(2);
            };
            let exe = std::env::current_exe().expect("own path");
            let ck = ex["checkpoint"].as_str().map(std::path::PathBuf::from).filter(|p| p.exists());
            let r = run_child(&exe, &c, ck.as_deref());
            println!("{}", serde_json::to_string_pretty(&r).unwrap_or_default());
            std::process::exit(if r.get("failed").is_some() { 1 } else { 0 });
        }
        _ => std::process::exit(2),
    }
}
