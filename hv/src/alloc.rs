//! Counting global allocator (per thread): live bytes and cumulative allocated bytes, for the C11 cost oracle.
use std::alloc::{GlobalAlloc, Layout, System};
use std::cell::Cell;

pub struct Counting;
thread_local! {
    static LIVE: Cell<isize> = const { Cell::new(0) };
    static TOTAL: Cell<usize> = const { Cell::new(0) };
}
unsafe impl GlobalAlloc for Counting {
    unsafe fn alloc(&self, l: Layout) -> *mut u8 {
        let _ = LIVE.try_with(|c| c.set(c.get() + l.size() as isize));
        let _ = TOTAL.try_with(|c| c.set(c.get() + l.size()));
        System.alloc(l)
    }
    unsafe fn dealloc(&self, p: *mut u8, l: Layout) {
        let _ = LIVE.try_with(|c| c.set(c.get() - l.size() as isize));
        System.dealloc(p, l)
    }
    unsafe fn realloc(&self, p: *mut u8, l: Layout, new: usize) -> *mut u8 {
        let _ = LIVE.try_with(|c| c.set(c.get() + new as isize - l.size() as isize));
        let _ = TOTAL.try_with(|c| c.set(c.get() + new.saturating_sub(l.size())));
        System.realloc(p, l, new)
    }
}
/// (live bytes of this thread's allocations, cumulative bytes allocated by this thread)
pub fn counters() -> (isize, usize) {
    (LIVE.with(|c| c.get()), TOTAL.with(|c| c.get()))
}
