//! Sequential drivers: feed link-layer frames to the real analyzers exactly as the crates' own
//! (private) `process_packet` functions do — `parse_packet` followed by `process_ipv4/6_packet` on the
//! per-analyzer state — and summarise every result into comparable plain data.
use huginn_net_db::Database;
use serde::Serialize;
use ttl_cache::TtlCache;

pub fn set_clock(ms: u64) {
    huginn_net_tcp::uptime::verif_clock::set_local(ms);
}

#[derive(Debug, Clone, PartialEq, Serialize, Default)]
pub struct Upt {
    pub role: String,
    pub days: u32,
    pub hours: u32,
    pub min: u32,
    pub up_mod_days: u32,
    pub freq: f64,
    pub src: String,
    pub dst: String,
}
#[derive(Debug, Clone, PartialEq, Serialize, Default)]
pub struct TcpRes {
    pub err: Option<String>,
    pub src: Option<String>,
    pub dst: Option<String>,
    pub syn: Option<String>,
    pub syn_ack: Option<String>,
    /// (label "ty:class:name:flavor", quality)
    pub os: Option<(Option<String>, String)>,
    pub mtu: Option<(u16, Option<String>, String)>,
    pub client_uptime: Option<Upt>,
    pub server_uptime: Option<Upt>,
}
impl TcpRes {
    pub fn is_empty(&self) -> bool {
        self.syn.is_none() && self.syn_ack.is_none() && self.mtu.is_none() && self.client_uptime.is_none() && self.server_uptime.is_none()
    }
}
// ---------- rendering: what a user of the CLI / of `{}` sees must show the values the result carries ----------
/// Every output type has a `Display` impl (the only form in which most users ever see a result). The reference is loose
/// on purpose -- wording, labels and layout are free -- but the values themselves must appear, as separate tokens and in
/// the order of the fields: endpoints first, then the type's own values. Checked on a sample of all results every check
/// converts (the first 2000 per thread, then every 61st); issues are collected here and merged into the running check.
static RENDER_ISSUES: std::sync::Mutex<std::collections::BTreeMap<String, (u64, String)>> = std::sync::Mutex::new(std::collections::BTreeMap::new());
pub fn render_issues() -> Vec<(String, u64, String)> {
    RENDER_ISSUES.lock().map(|g| g.iter().map(|(k, (n, e))| (k.clone(), *n, e.clone())).collect()).unwrap_or_default()
}
fn render_due() -> bool {
    thread_local! { static N: std::cell::Cell<u64> = const { std::cell::Cell::new(0) }; }
    N.with(|n| {
        let v = n.get();
        n.set(v + 1);
        v < 2000 || v % 61 == 0
    })
}
/// What `{}` shows must not depend on formatter flags the caller happens to have set for the whole value: a composite value
/// written field by field ignores sign, zero-fill and (being longer than 3 characters) a minimum width of 3. A field that is
/// handed the caller's formatter directly would pick them up ("+1460", "007").
pub fn shown<T: std::fmt::Display>(kind: &str, x: &T) -> String {
    let plain = x.to_string();
    let flagged = format!("{x:+03}");
    if plain.len() >= 3 && flagged != plain {
        if let Ok(mut g) = RENDER_ISSUES.lock() {
            let e = g.entry(format!("render/{kind}/rendering-depends-on-the-callers-format-flags")).or_insert((0, format!("`{{}}` shows {plain:?}, `{{:+03}}` shows {flagged:?}")));
            e.0 += 1;
        }
    }
    plain
}
/// `tokens` (name, text) must occur in `shown` in this order, each delimited by non-alphanumeric characters
pub fn render_check(kind: &str, shown: &str, tokens: &[(&str, String)]) {
    let b = shown.as_bytes();
    let mut cur = 0usize;
    for (name, tok) in tokens {
        if tok.is_empty() {
            continue;
        }
        let t = tok.as_bytes();
        let numeric = t.iter().all(|c| c.is_ascii_digit());
        let mut found = None;
        let mut from = cur;
        while let Some(p) = shown.get(from..).and_then(|s| s.find(tok.as_str())).map(|p| p + from) {
            let before = if p == 0 { b' ' } else { b[p - 1] };
            let after = *b.get(p + t.len()).unwrap_or(&b' ');
            let far_before = if p >= 2 { b[p - 2] } else { b' ' };
            let far_after = *b.get(p + t.len() + 1).unwrap_or(&b' ');
            let glued = before.is_ascii_alphanumeric() || after.is_ascii_alphanumeric() || (numeric && ((before == b'.' && far_before.is_ascii_digit()) || (after == b'.' && far_after.is_ascii_digit())));
            if !glued {
                found = Some(p + t.len());
                break;
            }
            from = p + 1;
            while !shown.is_char_boundary(from) {
                from += 1;
            }
        }
        match found {
            Some(e) => cur = e,
            None => {
                if let Ok(mut g) = RENDER_ISSUES.lock() {
                    let e = g.entry(format!("render/{kind}/{name}-not-shown")).or_insert((0, format!("value {tok:?} of field `{name}` does not appear (after the preceding fields) in: {shown:?}")));
                    e.0 += 1;
                }
                return;
            }
        }
    }
}
fn ends(s: &std::net::IpAddr, sp: u16, d: &std::net::IpAddr, dp: u16) -> Vec<(&'static str, String)> {
    vec![("source-address", s.to_string()), ("source-port", sp.to_string()), ("destination-address", d.to_string()), ("destination-port", dp.to_string())]
}
fn ipport(ip: &std::net::IpAddr, port: u16) -> String {
    format!("{ip}:{port}")
}
fn os_label(o: &huginn_net_tcp::output::OperativeSystem) -> String {
    format!("{}:{}:{}:{}", o.kind, o.family.clone().unwrap_or_default(), o.name, o.variant.clone().unwrap_or_default())
}
fn upt(u: &huginn_net_tcp::output::UptimeOutput) -> Upt {
    Upt { role: format!("{:?}", u.role), days: u.days, hours: u.hours, min: u.min, up_mod_days: u.up_mod_days, freq: u.freq, src: ipport(&u.source.ip, u.source.port), dst: ipport(&u.destination.ip, u.destination.port) }
}
pub fn tcp_res(r: &huginn_net_tcp::TcpAnalysisResult) -> TcpRes {
    tcp_parts(r.syn.as_ref(), r.syn_ack.as_ref(), r.mtu.as_ref(), r.client_uptime.as_ref(), r.server_uptime.as_ref())
}
pub fn tcp_parts(
    syn: Option<&huginn_net_tcp::output::SynTCPOutput>,
    syn_ack: Option<&huginn_net_tcp::output::SynAckTCPOutput>,
    mtu: Option<&huginn_net_tcp::output::MTUOutput>,
    client_uptime: Option<&huginn_net_tcp::output::UptimeOutput>,
    server_uptime: Option<&huginn_net_tcp::output::UptimeOutput>,
) -> TcpRes {
    let mut t = TcpRes::default();
    if render_due() {
        if let Some(s) = syn {
            let mut tk = ends(&s.source.ip, s.source.port, &s.destination.ip, s.destination.port);
            if let Some(os) = &s.os_matched.os {
                tk.push(("os-name", os.name.clone()));
            }
            tk.push(("signature", shown("tcp-signature", &s.sig.matching)));
            let _ = shown("tcp-observable", &s.sig);
            render_check("tcp-syn", &shown("tcp-syn", s), &tk);
        }
        if let Some(s) = syn_ack {
            let mut tk = ends(&s.source.ip, s.source.port, &s.destination.ip, s.destination.port);
            if let Some(os) = &s.os_matched.os {
                tk.push(("os-name", os.name.clone()));
            }
            tk.push(("signature", shown("tcp-signature", &s.sig.matching)));
            let _ = shown("tcp-observable", &s.sig);
            render_check("tcp-syn-ack", &shown("tcp-syn-ack", s), &tk);
        }
        if let Some(m) = mtu {
            let mut tk = ends(&m.source.ip, m.source.port, &m.destination.ip, m.destination.port);
            if let Some(l) = &m.link.link {
                tk.push(("link", l.clone()));
            }
            tk.push(("mtu", m.mtu.to_string()));
            render_check("tcp-mtu", &shown("tcp-mtu", m), &tk);
        }
        for u in [client_uptime, server_uptime].into_iter().flatten() {
            let mut tk = vec![("role", format!("{:?}", u.role))];
            tk.extend(ends(&u.source.ip, u.source.port, &u.destination.ip, u.destination.port));
            tk.extend([("days", u.days.to_string()), ("hours", u.hours.to_string()), ("minutes", u.min.to_string()), ("wrap-days", u.up_mod_days.to_string()), ("frequency", format!("{:.2}", u.freq))]);
            render_check("tcp-uptime", &shown("tcp-uptime", u), &tk);
        }
    }
    if let Some(s) = syn {
        t.src = Some(ipport(&s.source.ip, s.source.port));
        t.dst = Some(ipport(&s.destination.ip, s.destination.port));
        t.syn = Some(s.sig.matching.to_string());
        t.os = Some((s.os_matched.os.as_ref().map(os_label), format!("{:?}", s.os_matched.quality)));
    }
    if let Some(s) = syn_ack {
        t.src = Some(ipport(&s.source.ip, s.source.port));
        t.dst = Some(ipport(&s.destination.ip, s.destination.port));
        t.syn_ack = Some(s.sig.matching.to_string());
        t.os = Some((s.os_matched.os.as_ref().map(os_label), format!("{:?}", s.os_matched.quality)));
    }
    if let Some(m) = mtu {
        t.mtu = Some((m.mtu, m.link.link.clone(), format!("{:?}", m.link.quality)));
        t.src.get_or_insert(ipport(&m.source.ip, m.source.port));
        t.dst.get_or_insert(ipport(&m.destination.ip, m.destination.port));
    }
    t.client_uptime = client_uptime.map(upt);
    t.server_uptime = server_uptime.map(upt);
    t
}

pub struct TcpSeq<'a> {
    pub tracker: TtlCache<huginn_net_tcp::ConnectionKey, huginn_net_tcp::TcpTimestamp>,
    pub matcher: Option<huginn_net_tcp::SignatureMatcher<'a>>,
}
impl<'a> TcpSeq<'a> {
    pub fn new(db: Option<&'a Database>, cap: usize) -> Self {
        TcpSeq { tracker: TtlCache::new(cap), matcher: db.map(huginn_net_tcp::SignatureMatcher::new) }
    }
    pub fn feed(&mut self, frame: &[u8]) -> TcpRes {
        use huginn_net_tcp::packet_parser::{parse_packet, IpPacket};
        let r = match parse_packet(frame) {
            IpPacket::Ipv4(ip) => huginn_net_tcp::process_ipv4_packet(&ip, &mut self.tracker, self.matcher.as_ref()),
            IpPacket::Ipv6(ip) => huginn_net_tcp::process_ipv6_packet(&ip, &mut self.tracker, self.matcher.as_ref()),
            IpPacket::None => return TcpRes { err: Some("unparsed".into()), ..Default::default() },
        };
        match r {
            Ok(r) => tcp_res(&r),
            Err(e) => TcpRes { err: Some(e.to_string()), ..Default::default() },
        }
    }
}

#[derive(Debug, Clone, PartialEq, Serialize, Default)]
pub struct ReqSum {
    pub src: String,
    pub dst: String,
    pub sig: String,
    pub version: String,
    pub lang: Option<String>,
    pub out_lang: Option<String>,
    pub user_agent: Option<String>,
    /// (name, value, position, source)
    pub headers: Vec<(String, Option<String>, usize, String)>,
    pub cookies: Vec<(String, Option<String>, usize)>,
    pub referer: Option<String>,
    pub method: Option<String>,
    pub uri: Option<String>,
    pub browser: Option<String>,
    pub quality: String,
    pub diagnosis: String,
}
#[derive(Debug, Clone, PartialEq, Serialize, Default)]
pub struct RespSum {
    pub src: String,
    pub dst: String,
    pub sig: String,
    pub version: String,
    pub headers: Vec<(String, Option<String>, usize, String)>,
    pub status: Option<u16>,
    pub server: Option<String>,
    pub quality: String,
    pub diagnosis: String,
}
#[derive(Debug, Clone, PartialEq, Serialize, Default)]
pub struct HttpRes {
    pub err: Option<String>,
    pub request: Option<ReqSum>,
    pub response: Option<RespSum>,
}
impl HttpRes {
    pub fn is_empty(&self) -> bool {
        self.request.is_none() && self.response.is_none()
    }
}
fn hdrs(h: &[huginn_net_http::http_common::HttpHeader]) -> Vec<(String, Option<String>, usize, String)> {
    h.iter().map(|x| (x.name.clone(), x.value.clone(), x.position, format!("{:?}", x.source))).collect()
}
pub fn req_obs(o: &huginn_net_http::ObservableHttpRequest) -> ReqSum {
    ReqSum {
        sig: o.to_string(),
        version: format!("{:?}", o.matching.version),
        lang: o.lang.clone(),
        user_agent: o.user_agent.clone(),
        headers: hdrs(&o.headers),
        cookies: o.cookies.iter().map(|c| (c.name.clone(), c.value.clone(), c.position)).collect(),
        referer: o.referer.clone(),
        method: o.method.clone(),
        uri: o.uri.clone(),
        ..Default::default()
    }
}
pub fn resp_obs(o: &huginn_net_http::ObservableHttpResponse) -> RespSum {
    RespSum { sig: o.to_string(), version: format!("{:?}", o.matching.version), headers: hdrs(&o.headers), status: o.status_code, ..Default::default() }
}
macro_rules! render_http {
    ($r:expr) => {
        if render_due() {
            if let Some(q) = &$r.http_request {
                let mut tk = ends(&q.source.ip, q.source.port, &q.destination.ip, q.destination.port);
                if let Some(l) = &q.lang {
                    tk.push(("language", l.clone()));
                }
                tk.push(("signature", shown("http-request-signature", &q.sig)));
                render_check("http-request", &shown("http-request", q), &tk);
            }
            if let Some(q) = &$r.http_response {
                let mut tk = ends(&q.source.ip, q.source.port, &q.destination.ip, q.destination.port);
                tk.push(("signature", shown("http-response-signature", &q.sig)));
                render_check("http-response", &shown("http-response", q), &tk);
            }
        }
    };
}
pub fn http_res(r: &huginn_net_http::HttpAnalysisResult) -> HttpRes {
    render_http!(r);
    let mut h = HttpRes::default();
    if let Some(q) = &r.http_request {
        let mut s = req_obs(&q.sig);
        s.src = ipport(&q.source.ip, q.source.port);
        s.dst = ipport(&q.destination.ip, q.destination.port);
        s.out_lang = q.lang.clone();
        s.browser = q.browser_matched.browser.as_ref().map(|b| format!("{}:{}:{}:{}", b.kind, b.family.clone().unwrap_or_default(), b.name, b.variant.clone().unwrap_or_default()));
        s.quality = format!("{:?}", q.browser_matched.quality);
        s.diagnosis = format!("{:?}", q.diagnosis);
        h.request = Some(s);
    }
    if let Some(q) = &r.http_response {
        let mut s = resp_obs(&q.sig);
        s.src = ipport(&q.source.ip, q.source.port);
        s.dst = ipport(&q.destination.ip, q.destination.port);
        s.server = q.web_server_matched.web_server.as_ref().map(|b| format!("{}:{}:{}:{}", b.kind, b.family.clone().unwrap_or_default(), b.name, b.variant.clone().unwrap_or_default()));
        s.quality = format!("{:?}", q.web_server_matched.quality);
        s.diagnosis = format!("{:?}", q.diagnosis);
        h.response = Some(s);
    }
    h
}

pub struct HttpSeq<'a> {
    pub flows: TtlCache<huginn_net_http::http_process::FlowKey, huginn_net_http::http_process::TcpFlow>,
    pub processors: huginn_net_http::http_process::HttpProcessors,
    pub matcher: Option<huginn_net_http::SignatureMatcher<'a>>,
}
impl<'a> HttpSeq<'a> {
    pub fn new(db: Option<&'a Database>, cap: usize) -> Self {
        HttpSeq { flows: TtlCache::new(cap), processors: huginn_net_http::http_process::HttpProcessors::new(), matcher: db.map(huginn_net_http::SignatureMatcher::new) }
    }
    pub fn feed(&mut self, frame: &[u8]) -> HttpRes {
        use huginn_net_http::packet_parser::{parse_packet, IpPacket};
        let r = match parse_packet(frame) {
            IpPacket::Ipv4(ip) => huginn_net_http::process_ipv4_packet(&ip, &mut self.flows, &self.processors, self.matcher.as_ref()),
            IpPacket::Ipv6(ip) => huginn_net_http::process_ipv6_packet(&ip, &mut self.flows, &self.processors, self.matcher.as_ref()),
            IpPacket::None => return HttpRes { err: Some("unparsed".into()), ..Default::default() },
        };
        match r {
            Ok(r) => http_res(&r),
            Err(e) => HttpRes { err: Some(e.to_string()), ..Default::default() },
        }
    }
}

#[derive(Debug, Clone, PartialEq, Serialize, Default)]
pub struct TlsRes {
    pub err: Option<String>,
    pub src: Option<String>,
    pub dst: Option<String>,
    pub ja4: Option<String>,
    pub ja4_r: Option<String>,
    pub ja4_o: Option<String>,
    pub ja4_ro: Option<String>,
    pub fields: Option<String>,
}
impl TlsRes {
    pub fn is_empty(&self) -> bool {
        self.ja4.is_none()
    }
}
pub fn tls_client(c: &huginn_net_tls::ObservableTlsClient, t: &mut TlsRes) {
    t.ja4 = Some(c.ja4.full.value().to_string());
    t.ja4_r = Some(c.ja4.raw.value().to_string());
    t.ja4_o = Some(c.ja4_original.full.value().to_string());
    t.ja4_ro = Some(c.ja4_original.raw.value().to_string());
    t.fields = Some(format!("{:?}|{:?}|{:?}|{:04x?}|{:04x?}|{:04x?}|{:04x?}", c.version, c.sni, c.alpn, c.cipher_suites, c.extensions, c.signature_algorithms, c.elliptic_curves));
}
pub fn tls_out(o: &huginn_net_tls::TlsClientOutput) -> TlsRes {
    if render_due() {
        let mut tk = ends(&o.source.ip, o.source.port, &o.destination.ip, o.destination.port);
        if let Some(sni) = &o.sig.sni {
            tk.push(("sni", sni.clone()));
        }
        tk.extend([("ja4", o.sig.ja4.full.value().to_string()), ("ja4_r", o.sig.ja4.raw.value().to_string()), ("ja4_o", o.sig.ja4_original.full.value().to_string()), ("ja4_or", o.sig.ja4_original.raw.value().to_string())]);
        render_check("tls-client", &shown("tls-client", o), &tk);
    }
    let mut t = TlsRes { src: Some(ipport(&o.source.ip, o.source.port)), dst: Some(ipport(&o.destination.ip, o.destination.port)), ..Default::default() };
    tls_client(&o.sig, &mut t);
    t
}
pub struct TlsSeq {
    pub flows: TtlCache<huginn_net_tls::FlowKey, huginn_net_tls::TlsClientHelloReader>,
}
impl TlsSeq {
    pub fn new(cap: usize) -> Self {
        TlsSeq { flows: TtlCache::new(cap) }
    }
    pub fn feed(&mut self, frame: &[u8]) -> TlsRes {
        use huginn_net_tls::packet_parser::{parse_packet, IpPacket};
        let r = match parse_packet(frame) {
            IpPacket::Ipv4(ip) => huginn_net_tls::process_ipv4_packet(&ip, &mut self.flows),
            IpPacket::Ipv6(ip) => huginn_net_tls::process_ipv6_packet(&ip, &mut self.flows),
            IpPacket::None => return TlsRes { err: Some("unparsed".into()), ..Default::default() },
        };
        match r {
            Ok(Some(o)) => tls_out(&o),
            Ok(None) => TlsRes::default(),
            Err(e) => TlsRes { err: Some(e.to_string()), ..Default::default() },
        }
    }
}

/// unified analyzer result, split per protocol
#[derive(Debug, Clone, PartialEq, Serialize, Default)]
pub struct UniRes {
    pub tcp: TcpRes,
    pub http: HttpRes,
    pub tls: TlsRes,
}
pub fn uni_res(r: &huginn_net::output::FingerprintResult) -> UniRes {
    let tcp = tcp_parts(r.tcp_syn.as_ref(), r.tcp_syn_ack.as_ref(), r.tcp_mtu.as_ref(), r.tcp_client_uptime.as_ref(), r.tcp_server_uptime.as_ref());
    render_http!(r);
    let mut http = HttpRes::default();
    if let Some(q) = &r.http_request {
        let mut s = req_obs(&q.sig);
        s.src = ipport(&q.source.ip, q.source.port);
        s.dst = ipport(&q.destination.ip, q.destination.port);
        s.out_lang = q.lang.clone();
        s.browser = q.browser_matched.browser.as_ref().map(|b| format!("{}:{}:{}:{}", b.kind, b.family.clone().unwrap_or_default(), b.name, b.variant.clone().unwrap_or_default()));
        s.quality = format!("{:?}", q.browser_matched.quality);
        s.diagnosis = format!("{:?}", q.diagnosis);
        http.request = Some(s);
    }
    if let Some(q) = &r.http_response {
        let mut s = resp_obs(&q.sig);
        s.src = ipport(&q.source.ip, q.source.port);
        s.dst = ipport(&q.destination.ip, q.destination.port);
        s.server = q.web_server_matched.web_server.as_ref().map(|b| format!("{}:{}:{}:{}", b.kind, b.family.clone().unwrap_or_default(), b.name, b.variant.clone().unwrap_or_default()));
        s.quality = format!("{:?}", q.web_server_matched.quality);
        s.diagnosis = format!("{:?}", q.diagnosis);
        http.response = Some(s);
    }
    let tls = r.tls_client.as_ref().map(tls_out).unwrap_or_default();
    UniRes { tcp, http, tls }
}

// ---------- pcap route: drives the analyzers' own (private) per-packet path through `analyze_pcap` ----------
pub fn scratch_pcap(frames: &[Vec<u8>]) -> std::path::PathBuf {
    use std::sync::atomic::{AtomicU64, Ordering};
    static N: AtomicU64 = AtomicU64::new(0);
    let dir = std::env::var("HV_SCRATCH").unwrap_or_else(|_| "/dev/shm".to_string());
    let p = std::path::PathBuf::from(dir).join(format!("hv-{}-{}.pcap", std::process::id(), N.fetch_add(1, Ordering::Relaxed)));
    crate::gen::pkt::write_pcap(&p, 101, frames).expect("scratch pcap is writable");
    p
}
pub fn tls_pcap(frames: &[Vec<u8>], filter: Option<huginn_net_tls::FilterConfig>, cap: usize) -> Result<Vec<TlsRes>, String> {
    let p = scratch_pcap(frames);
    let (tx, rx) = std::sync::mpsc::channel();
    let mut a = huginn_net_tls::HuginnNetTls::new(cap);
    if let Some(f) = filter {
        a = a.with_filter(f);
    }
    let r = a.analyze_pcap(p.to_str().unwrap_or(""), tx, None).map_err(|e| e.to_string());
    let _ = std::fs::remove_file(&p);
    r?;
    Ok(rx.try_iter().map(|o| tls_out(&o)).collect())
}
pub fn tcp_pcap(frames: &[Vec<u8>], filter: Option<huginn_net_tcp::FilterConfig>, cap: usize) -> Result<Vec<TcpRes>, String> {
    let p = scratch_pcap(frames);
    let (tx, rx) = std::sync::mpsc::channel();
    let mut a = huginn_net_tcp::HuginnNetTcp::new(Some(db_arc()), cap).map_err(|e| e.to_string())?;
    if let Some(f) = filter {
        a = a.with_filter(f);
    }
    let r = a.analyze_pcap(p.to_str().unwrap_or(""), tx, None).map_err(|e| e.to_string());
    let _ = std::fs::remove_file(&p);
    r?;
    Ok(rx.try_iter().map(|o| tcp_res(&o)).collect())
}
pub fn http_pcap(frames: &[Vec<u8>], filter: Option<huginn_net_http::FilterConfig>, cap: usize) -> Result<Vec<HttpRes>, String> {
    let p = scratch_pcap(frames);
    let (tx, rx) = std::sync::mpsc::channel();
    let mut a = huginn_net_http::HuginnNetHttp::new(Some(db_arc()), cap).map_err(|e| e.to_string())?;
    if let Some(f) = filter {
        a = a.with_filter(f);
    }
    let r = a.analyze_pcap(p.to_str().unwrap_or(""), tx, None).map_err(|e| e.to_string());
    let _ = std::fs::remove_file(&p);
    r?;
    Ok(rx.try_iter().map(|o| http_res(&o)).collect())
}
/// One analyzer object used for two captures in a row (`parallel`: with_config + init_pool before each capture, as a
/// caller must do for the TCP analyzer, whose pool is shut down at the end of a capture). All results of both runs.
pub fn tcp_pcap_reuse(frames: &[Vec<u8>], filter: Option<huginn_net_tcp::FilterConfig>, cap: usize, parallel: bool) -> Result<Vec<TcpRes>, String> {
    let p = scratch_pcap(frames);
    let path = p.to_str().unwrap_or("").to_string();
    let mut a = if parallel { huginn_net_tcp::HuginnNetTcp::with_config(Some(db_arc()), cap, 2, frames.len() + 8, 2, 5) } else { huginn_net_tcp::HuginnNetTcp::new(Some(db_arc()), cap) }.map_err(|e| e.to_string())?;
    if let Some(f) = filter {
        a = a.with_filter(f);
    }
    let mut rxs = vec![];
    let mut r = Ok(());
    for _ in 0..2 {
        let (tx, rx) = std::sync::mpsc::channel();
        rxs.push(rx);
        if parallel {
            a.init_pool(tx.clone()).map_err(|e| e.to_string())?;
        }
        r = r.and(a.analyze_pcap(&path, tx, None).map_err(|e| e.to_string()));
    }
    let _ = std::fs::remove_file(&p);
    r?;
    drop(a);
    Ok(rxs.iter().flat_map(|rx| rx.iter()).map(|o| tcp_res(&o)).collect())
}
pub fn http_pcap_reuse(frames: &[Vec<u8>], filter: Option<huginn_net_http::FilterConfig>, cap: usize, parallel: bool) -> Result<Vec<HttpRes>, String> {
    let p = scratch_pcap(frames);
    let path = p.to_str().unwrap_or("").to_string();
    let mut a = if parallel { huginn_net_http::HuginnNetHttp::with_config(Some(db_arc()), cap, 2, frames.len() + 8, 2, 5) } else { huginn_net_http::HuginnNetHttp::new(Some(db_arc()), cap) }.map_err(|e| e.to_string())?;
    if let Some(f) = filter {
        a = a.with_filter(f);
    }
    let mut rxs = vec![];
    let mut r = Ok(());
    for _ in 0..2 {
        let (tx, rx) = std::sync::mpsc::channel();
        rxs.push(rx);
        if parallel {
            a.init_pool(tx.clone()).map_err(|e| e.to_string())?;
        }
        r = r.and(a.analyze_pcap(&path, tx, None).map_err(|e| e.to_string()));
    }
    let _ = std::fs::remove_file(&p);
    r?;
    drop(a);
    Ok(rxs.iter().flat_map(|rx| rx.iter()).map(|o| http_res(&o)).collect())
}
pub fn tls_pcap_reuse(frames: &[Vec<u8>], filter: Option<huginn_net_tls::FilterConfig>, cap: usize, parallel: bool) -> Result<Vec<TlsRes>, String> {
    let p = scratch_pcap(frames);
    let path = p.to_str().unwrap_or("").to_string();
    let mut a = if parallel { huginn_net_tls::HuginnNetTls::with_config_and_max_connections(2, frames.len() + 8, 2, 5, cap) } else { huginn_net_tls::HuginnNetTls::new(cap) };
    if let Some(f) = filter {
        a = a.with_filter(f);
    }
    let mut rxs = vec![];
    let mut r = Ok(());
    for _ in 0..2 {
        let (tx, rx) = std::sync::mpsc::channel();
        rxs.push(rx);
        if parallel {
            a.init_pool(tx.clone()).map_err(|e| e.to_string())?;
        }
        r = r.and(a.analyze_pcap(&path, tx, None).map_err(|e| e.to_string()));
    }
    let _ = std::fs::remove_file(&p);
    r?;
    drop(a);
    Ok(rxs.iter().flat_map(|rx| rx.iter()).map(|o| tls_out(&o)).collect())
}
/// `with_config` WITHOUT `init_pool`: the HTTP analyzer falls back to its sequential path and its own flow table
pub fn http_pcap_configured_sequential(frames: &[Vec<u8>], db: std::sync::Arc<Database>, cap: usize, workers: usize) -> Result<Vec<HttpRes>, String> {
    let p = scratch_pcap(frames);
    let (tx, rx) = std::sync::mpsc::channel();
    let mut a = huginn_net_http::HuginnNetHttp::with_config(Some(db), cap, workers, 64, 8, 5).map_err(|e| e.to_string())?;
    let r = a.analyze_pcap(p.to_str().unwrap_or(""), tx, None).map_err(|e| e.to_string());
    let _ = std::fs::remove_file(&p);
    r?;
    drop(a);
    Ok(rx.iter().map(|o| http_res(&o)).collect())
}
/// `with_config` + (`init_pool`) + `analyze_pcap`: the analyzers' own parallel mode, end to end. The queue is large enough
/// for the whole trace; the results are everything the channel delivers until every sender is gone.
pub fn tcp_pcap_parallel(frames: &[Vec<u8>], cap: usize, workers: usize, batch: usize, timeout: u64) -> Result<Vec<TcpRes>, String> {
    let p = scratch_pcap(frames);
    let (tx, rx) = std::sync::mpsc::channel();
    let mut a = huginn_net_tcp::HuginnNetTcp::with_config(Some(db_arc()), cap, workers, frames.len() + 8, batch, timeout).map_err(|e| e.to_string())?;
    a.init_pool(tx).map_err(|e| e.to_string())?;
    let r = a.analyze_pcap(p.to_str().unwrap_or(""), std::sync::mpsc::channel().0, None).map_err(|e| e.to_string());
    let _ = std::fs::remove_file(&p);
    r?;
    let mut got = vec![];
    // the analyzer stays alive, as in a caller that reads the channel to its end after analyze_pcap returns
    loop {
        match rx.recv_timeout(std::time::Duration::from_secs(10)) {
            Ok(o) => got.push(tcp_res(&o)),
            Err(std::sync::mpsc::RecvTimeoutError::Disconnected) => break,
            Err(std::sync::mpsc::RecvTimeoutError::Timeout) => return Err("the result channel is still open 10 s after analyze_pcap returned".into()),
        }
    }
    drop(a);
    Ok(got)
}
pub fn http_pcap_parallel(frames: &[Vec<u8>], cap: usize, workers: usize, batch: usize, timeout: u64) -> Result<Vec<HttpRes>, String> {
    let p = scratch_pcap(frames);
    let (tx, rx) = std::sync::mpsc::channel();
    let mut a = huginn_net_http::HuginnNetHttp::with_config(Some(db_arc()), cap, workers, frames.len() + 8, batch, timeout).map_err(|e| e.to_string())?;
    a.init_pool(tx).map_err(|e| e.to_string())?;
    let r = a.analyze_pcap(p.to_str().unwrap_or(""), std::sync::mpsc::channel().0, None).map_err(|e| e.to_string());
    let _ = std::fs::remove_file(&p);
    r?;
    // this analyzer never shuts its pool down: the stream ends when the analyzer (and with it the pool) is dropped
    drop(a);
    Ok(rx.iter().map(|o| http_res(&o)).collect())
}
pub fn tls_pcap_parallel(frames: &[Vec<u8>], cap: usize, workers: usize, batch: usize, timeout: u64, init: bool) -> Result<Vec<TlsRes>, String> {
    let p = scratch_pcap(frames);
    let (tx, rx) = std::sync::mpsc::channel();
    let mut a = huginn_net_tls::HuginnNetTls::with_config_and_max_connections(workers, frames.len() + 8, batch, timeout, cap);
    let r = if init {
        a.init_pool(tx).map_err(|e| e.to_string())?;
        a.analyze_pcap(p.to_str().unwrap_or(""), std::sync::mpsc::channel().0, None).map_err(|e| e.to_string())
    } else {
        // without init_pool the analyzer builds the pool itself around the sender it is given
        a.analyze_pcap(p.to_str().unwrap_or(""), tx, None).map_err(|e| e.to_string())
    };
    let _ = std::fs::remove_file(&p);
    r?;
    drop(a);
    Ok(rx.iter().map(|o| tls_out(&o)).collect())
}
/// the bundled database, loaded once (the analyzers take an `Arc<Database>`)
pub fn db_arc() -> std::sync::Arc<Database> {
    static DB: std::sync::OnceLock<std::sync::Arc<Database>> = std::sync::OnceLock::new();
    DB.get_or_init(|| std::sync::Arc::new(Database::load_default().expect("bundled database loads"))).clone()
}
pub fn db() -> &'static Database {
    static DB: std::sync::OnceLock<Database> = std::sync::OnceLock::new();
    DB.get_or_init(|| Database::load_default().expect("bundled database loads"))
}
pub fn uni_pcap(frames: &[Vec<u8>], filter: Option<huginn_net_tcp::FilterConfig>, cap: usize) -> Result<Vec<UniRes>, String> {
    let p = scratch_pcap(frames);
    let (tx, rx) = std::sync::mpsc::channel();
    let mut a = huginn_net::HuginnNet::new(Some(db()), cap, None).map_err(|e| e.to_string())?;
    if let Some(f) = filter {
        a = a.with_filter(f);
    }
    let r = a.analyze_pcap(p.to_str().unwrap_or(""), tx, None).map_err(|e| e.to_string());
    let _ = std::fs::remove_file(&p);
    r?;
    Ok(rx.try_iter().map(|o| uni_res(&o)).collect())
}
