//! Result accumulation for one engine run: coverage counts, distinct outcomes, samples and
//! deviations keyed by a stable string. Reports from parallel slices are merged in slice order,
//! so the result is a deterministic function of the enumeration, not of thread timing.
use serde_json::{json, Value};
use std::collections::{BTreeMap, HashSet};
use std::hash::{Hash, Hasher};

#[derive(Clone, Debug)]
pub struct Dev {
    pub class: String,
    pub count: u64,
    pub example: Value,
}

#[derive(Default, Clone, Debug)]
pub struct Report {
    pub evaluations: u64,
    pub states: u64,
    pub transitions: u64,
    pub traces: u64,
    pub outcomes: HashSet<u64>,
    pub samples: Vec<Value>,
    pub devs: BTreeMap<String, Dev>,
    pub notes: Vec<String>,
    pub counters: BTreeMap<String, u64>,
    pub machinery_errors: Vec<String>,
}

pub const MAX_SAMPLES: usize = 6;

pub fn h64<T: Hash + ?Sized>(t: &T) -> u64 {
    let mut h = std::collections::hash_map::DefaultHasher::new();
    t.hash(&mut h);
    h.finish()
}

impl Report {
    pub fn new() -> Self {
        Self::default()
    }
    /// one complete execution against the implementation with `calls` analyzer calls
    pub fn exec(&mut self, calls: u64) {
        self.evaluations += 1;
        self.states += 1;
        self.traces += 1;
        self.transitions += calls;
    }
    pub fn outcome<T: Hash + ?Sized>(&mut self, t: &T) {
        self.outcomes.insert(h64(t));
    }
    pub fn sample(&mut self, v: impl FnOnce() -> Value) {
        if self.samples.len() < MAX_SAMPLES {
            self.samples.push(v());
        }
    }
    pub fn count(&mut self, k: &str, n: u64) {
        *self.counters.entry(k.to_string()).or_default() += n;
    }
    /// record a deviation between oracle and implementation
    pub fn dev(&mut self, key: impl Into<String>, class: impl Into<String>, example: impl FnOnce() -> Value) {
        let key = key.into();
        match self.devs.get_mut(&key) {
            Some(d) => d.count += 1,
            None => {
                self.devs.insert(key, Dev { class: class.into(), count: 1, example: example() });
            }
        }
    }
    pub fn note(&mut self, s: impl Into<String>) {
        self.notes.push(s.into());
    }
    pub fn machinery_error(&mut self, s: impl Into<String>) {
        self.machinery_errors.push(s.into());
    }
    pub fn merge(mut self, o: Report) -> Report {
        self.evaluations += o.evaluations;
        self.states += o.states;
        self.transitions += o.transitions;
        self.traces += o.traces;
        self.outcomes.extend(o.outcomes);
        for s in o.samples {
            if self.samples.len() < MAX_SAMPLES {
                self.samples.push(s);
            }
        }
        for (k, d) in o.devs {
            match self.devs.get_mut(&k) {
                Some(e) => e.count += d.count,
                None => {
                    self.devs.insert(k, d);
                }
            }
        }
        self.notes.extend(o.notes);
        for (k, v) in o.counters {
            *self.counters.entry(k).or_default() += v;
        }
        self.machinery_errors.extend(o.machinery_errors);
        self
    }
    pub fn to_json(&self, property: &str, tier: &str, rule: &str, exhaustive: bool, bounds: Value, wall_s: f64) -> Value {
        let devs: Vec<Value> = self
            .devs
            .iter()
            .map(|(k, d)| json!({"key": k, "class": d.class, "count": d.count, "example": d.example}))
            .collect();
        json!({
            "property": property,
            "tier": tier,
            "wall_s": wall_s,
            "coverage": {
                "evaluations": self.evaluations,
                "states": self.states,
                "transitions": self.transitions,
                "traces_validated_against_impl": self.traces,
                "distinct_nontrivial": self.outcomes.len(),
                "rule": rule,
                "exhaustive": exhaustive,
                "bounds": bounds,
                "counters": self.counters,
                "samples": self.samples,
                "notes": self.notes,
            },
            "deviations": devs,
            "machinery_errors": self.machinery_errors,
        })
    }
}

/// every slice is explored twice, with and without a log listener (C01 switches listening itself and turns this off)
pub static SECOND_PASS: std::sync::atomic::AtomicBool = std::sync::atomic::AtomicBool::new(true);

/// Parallel map-reduce over `0..n` in contiguous slices; slice reports are merged in index order.
pub fn par_slices<F>(n: usize, slices: usize, f: F) -> Report
where
    F: Fn(std::ops::Range<usize>) -> Report + Sync,
{
    use rayon::prelude::*;
    let slices = slices.max(1).min(n.max(1));
    let per = n.div_ceil(slices);
    let parts: Vec<Report> = (0..slices)
        .into_par_iter()
        .map(|i| {
            let lo = (i * per).min(n);
            let hi = ((i + 1) * per).min(n);
            let first = f(lo..hi);
            if !SECOND_PASS.load(std::sync::atomic::Ordering::Relaxed) {
                return first;
            }
            // the same inputs again with nobody listening to the log: arguments of log statements are evaluated only
            // for a listener, so behaviour placed in one differs between the two environments
            crate::logsink::listen(false);
            let second = f(lo..hi);
            crate::logsink::listen(true);
            let mut first = first;
            first.count("evaluations_repeated_without_a_log_listener", second.evaluations);
            for (k, d) in second.devs {
                let k = if first.devs.contains_key(&k) { k } else { format!("{k} (without a log listener)") };
                match first.devs.get_mut(&k) {
                    Some(e) => e.count += d.count,
                    None => {
                        first.devs.insert(k, d);
                    }
                }
            }
            first.machinery_errors.extend(second.machinery_errors);
            first
        })
        .collect();
    parts.into_iter().fold(Report::new(), |a, b| a.merge(b))
}

/// Call `f` catching panics; returns Err(message) on panic.
pub fn guarded<T>(f: impl FnOnce() -> T) -> Result<T, String> {
    match std::panic::catch_unwind(std::panic::AssertUnwindSafe(f)) {
        Ok(v) => Ok(v),
        Err(e) => {
            let msg = if let Some(s) = e.downcast_ref::<&str>() {
                s.to_string()
            } else if let Some(s) = e.downcast_ref::<String>() {
                s.clone()
            } else {
                "panic".to_string()
            };
            Err(msg)
        }
    }
}

pub fn hex(b: &[u8]) -> String {
    b.iter().map(|x| format!("{x:02x}")).collect()
}
pub fn unhex(s: &str) -> Vec<u8> {
    (0..s.len() / 2).map(|i| u8::from_str_radix(&s[2 * i..2 * i + 2], 16).unwrap_or(0)).collect()
}
