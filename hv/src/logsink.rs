//! A `tracing` subscriber that enables every event, formats every field and discards the result: log arguments are part
//! of the code under test (they are evaluated only when somebody listens).
use std::fmt::Write;
use tracing::field::{Field, Visit};
use tracing::span::{Attributes, Id, Record};
use tracing::{Event, Metadata, Subscriber};

pub struct Sink;
thread_local! { static LOG_ON: std::cell::Cell<Option<bool>> = const { std::cell::Cell::new(None) }; }
static DEFAULT_ON: std::sync::atomic::AtomicBool = std::sync::atomic::AtomicBool::new(true);
/// per-thread switch: the quick tier of C01 listens on every fifth slice of its largest families only
pub fn listen(on: bool) {
    LOG_ON.with(|l| l.set(Some(on)));
}
/// what threads that never called `listen` do (the library's own worker threads): on, unless a check says otherwise
pub fn listen_default(on: bool) {
    DEFAULT_ON.store(on, std::sync::atomic::Ordering::Relaxed);
}
struct V(usize);
impl Visit for V {
    fn record_debug(&mut self, _f: &Field, v: &dyn std::fmt::Debug) {
        let mut s = String::new();
        let _ = write!(s, "{v:?}");
        self.0 += s.len();
    }
}
impl Subscriber for Sink {
    fn register_callsite(&self, _m: &'static Metadata<'static>) -> tracing::subscriber::Interest {
        tracing::subscriber::Interest::sometimes()
    }
    fn enabled(&self, _m: &Metadata<'_>) -> bool {
        LOG_ON.with(|l| l.get()).unwrap_or_else(|| DEFAULT_ON.load(std::sync::atomic::Ordering::Relaxed))
    }
    fn new_span(&self, a: &Attributes<'_>) -> Id {
        let mut v = V(0);
        a.record(&mut v);
        std::hint::black_box(v.0);
        Id::from_u64(1)
    }
    fn record(&self, _s: &Id, r: &Record<'_>) {
        let mut v = V(0);
        r.record(&mut v);
        std::hint::black_box(v.0);
    }
    fn record_follows_from(&self, _s: &Id, _f: &Id) {}
    fn event(&self, e: &Event<'_>) {
        let mut v = V(0);
        e.record(&mut v);
        std::hint::black_box(v.0);
    }
    fn enter(&self, _s: &Id) {}
    fn exit(&self, _s: &Id) {}
}
