//! HTTP/2 frame builder and HPACK encoder (RFC 7540 / 7541) working from structured descriptions.
use super::hpack_data::{HUFFMAN, STATIC_TABLE};
use serde::{Deserialize, Serialize};

pub const PREFACE: &[u8] = b"PRI * HTTP/2.0\r\n\r\nSM\r\n\r\n";
pub const END_STREAM: u8 = 0x1;
pub const END_HEADERS: u8 = 0x4;
pub const PADDED: u8 = 0x8;
pub const PRIORITY: u8 = 0x20;

pub fn frame(t: u8, flags: u8, stream: u32, payload: &[u8]) -> Vec<u8> {
    let mut v = vec![(payload.len() >> 16) as u8, (payload.len() >> 8) as u8, payload.len() as u8, t, flags];
    v.extend(stream.to_be_bytes());
    v.extend(payload);
    v
}
pub fn settings(ps: &[(u16, u32)]) -> Vec<u8> {
    let mut p = vec![];
    for (i, v) in ps {
        p.extend(i.to_be_bytes());
        p.extend(v.to_be_bytes());
    }
    frame(4, 0, 0, &p)
}
pub fn window_update(stream: u32, inc: u32, reserved: bool) -> Vec<u8> {
    let mut x = inc & 0x7fff_ffff;
    if reserved {
        x |= 0x8000_0000;
    }
    frame(8, 0, stream, &x.to_be_bytes())
}
pub fn priority(stream: u32, exclusive: bool, dep: u32, weight: u8) -> Vec<u8> {
    let mut x = dep & 0x7fff_ffff;
    if exclusive {
        x |= 0x8000_0000;
    }
    let mut p = x.to_be_bytes().to_vec();
    p.push(weight);
    frame(2, 0, stream, &p)
}
pub fn ping() -> Vec<u8> {
    frame(6, 0, 0, &[0; 8])
}

/// HEADERS (+ CONTINUATION) frames for one header block.
/// `splits`: byte positions inside the block where it is cut into HEADERS + CONTINUATION fragments.
#[derive(Clone, Debug, Serialize, Deserialize, PartialEq, Default)]
pub struct Framing {
    pub pad: Option<u8>,
    /// (exclusive, dependency, weight)
    pub prio: Option<(bool, u32, u8)>,
    pub end_stream: bool,
    pub splits: Vec<usize>,
    /// flag bits set on every CONTINUATION frame besides END_HEADERS: the only flag defined for CONTINUATION is
    /// END_HEADERS (RFC 7540 §6.10), every other bit must be ignored -- in particular the bits that mean PADDED (0x8) and
    /// PRIORITY (0x20) on a HEADERS frame
    #[serde(default)]
    pub cont_flags: u8,
    /// undefined flag bits set on the HEADERS frame itself (0x02, 0x10, 0x40, 0x80 mean nothing there and must be ignored)
    #[serde(default)]
    pub hdr_flags: u8,
}
pub fn headers_frames(stream: u32, block: &[u8], f: &Framing) -> Vec<u8> {
    // (usize::MAX stands for "behind the last byte": the last fragment is then an empty CONTINUATION frame)
    let mut cuts: Vec<usize> = f.splits.iter().map(|&c| if c == usize::MAX { block.len() } else { c }).filter(|&c| c <= block.len()).collect();
    cuts.sort();
    let mut pieces = vec![];
    let mut prev = 0;
    for c in cuts {
        pieces.push(&block[prev..c]);
        prev = c;
    }
    pieces.push(&block[prev..]);
    let mut out = vec![];
    for (i, p) in pieces.iter().enumerate() {
        let last = i + 1 == pieces.len();
        if i == 0 {
            let mut flags = (if last { END_HEADERS } else { 0 }) | (f.hdr_flags & 0xd2);
            if f.end_stream {
                flags |= END_STREAM;
            }
            let mut payload = vec![];
            if let Some(n) = f.pad {
                flags |= PADDED;
                payload.push(n);
            }
            if let Some((ex, dep, w)) = f.prio {
                flags |= PRIORITY;
                let mut x = dep & 0x7fff_ffff;
                if ex {
                    x |= 0x8000_0000;
                }
                payload.extend(x.to_be_bytes());
                payload.push(w);
            }
            payload.extend_from_slice(p);
            if let Some(n) = f.pad {
                payload.extend(vec![0u8; n as usize]);
            }
            out.extend(frame(1, flags, stream, &payload));
        } else {
            out.extend(frame(9, (if last { END_HEADERS } else { 0 }) | (f.cont_flags & !END_HEADERS), stream, p));
        }
    }
    out
}

// ---------- HPACK ----------
#[derive(Clone, Copy, Debug, Serialize, Deserialize, PartialEq)]
pub enum Rep {
    /// indexed field (falls back to literal with indexing when the pair is in no table)
    Indexed,
    /// literal with incremental indexing, name as a literal
    LitIdxNewName,
    /// literal with incremental indexing, name by index when a table has it
    LitIdxIndexedName,
    /// literal without indexing
    LitNoIdx,
    /// literal without indexing, name by index when possible
    LitNoIdxIndexedName,
    /// literal never indexed
    NeverIdx,
}
pub const ALL_REPS: [Rep; 6] = [Rep::Indexed, Rep::LitIdxNewName, Rep::LitIdxIndexedName, Rep::LitNoIdx, Rep::LitNoIdxIndexedName, Rep::NeverIdx];

pub fn int(value: usize, prefix_bits: u8, first: u8) -> Vec<u8> {
    let max = (1usize << prefix_bits) - 1;
    if value < max {
        return vec![first | value as u8];
    }
    let mut out = vec![first | max as u8];
    let mut v = value - max;
    while v >= 128 {
        out.push((v % 128) as u8 | 0x80);
        v /= 128;
    }
    out.push(v as u8);
    out
}
pub fn huffman(data: &[u8]) -> Vec<u8> {
    let mut out = vec![];
    let mut acc: u64 = 0;
    let mut bits = 0u32;
    for &b in data {
        let (code, len) = HUFFMAN[b as usize];
        acc = (acc << len) | code as u64;
        bits += len as u32;
        while bits >= 8 {
            out.push((acc >> (bits - 8)) as u8);
            bits -= 8;
        }
    }
    if bits > 0 {
        // pad with the most significant bits of EOS (all ones)
        let pad = 8 - bits;
        out.push(((acc << pad) | ((1u64 << pad) - 1)) as u8);
    }
    out
}
pub fn string(s: &[u8], huff: bool) -> Vec<u8> {
    if huff {
        let h = huffman(s);
        let mut o = int(h.len(), 7, 0x80);
        o.extend(h);
        o
    } else {
        let mut o = int(s.len(), 7, 0);
        o.extend(s);
        o
    }
}
#[derive(Clone)]
pub struct HpackEnc {
    /// most recent first
    pub dynamic: Vec<(String, String)>,
    /// current maximum size of the dynamic table (RFC 7541 section 4.1: entry size = name + value + 32)
    pub max: usize,
}
impl Default for HpackEnc {
    fn default() -> Self {
        HpackEnc { dynamic: vec![], max: 4096 }
    }
}
impl HpackEnc {
    fn evict(&mut self) {
        let size = |d: &Vec<(String, String)>| d.iter().map(|(a, b)| a.len() + b.len() + 32).sum::<usize>();
        while !self.dynamic.is_empty() && size(&self.dynamic) > self.max {
            self.dynamic.pop();
        }
    }
    fn insert(&mut self, name: &str, value: &str) {
        self.dynamic.insert(0, (name.to_string(), value.to_string()));
        self.evict();
    }
    fn find_pair(&self, n: &str, v: &str) -> Option<usize> {
        if let Some(i) = STATIC_TABLE.iter().position(|(a, b)| *a == n && *b == v) {
            return Some(i + 1);
        }
        self.dynamic.iter().position(|(a, b)| a == n && b == v).map(|i| 62 + i)
    }
    fn find_name(&self, n: &str) -> Option<usize> {
        if let Some(i) = STATIC_TABLE.iter().position(|(a, _)| *a == n) {
            return Some(i + 1);
        }
        self.dynamic.iter().position(|(a, _)| a == n).map(|i| 62 + i)
    }
    pub fn size_update(&mut self, size: usize) -> Vec<u8> {
        self.max = size;
        self.evict();
        int(size, 5, 0x20)
    }
    pub fn field(&mut self, name: &str, value: &str, rep: Rep, huff_name: bool, huff_value: bool) -> Vec<u8> {
        let lit = |first: u8, prefix: u8, name_idx: Option<usize>| -> Vec<u8> {
            let mut o = match name_idx {
                Some(i) => int(i, prefix, first),
                None => {
                    let mut o = vec![first];
                    o.extend(string(name.as_bytes(), huff_name));
                    o
                }
            };
            o.extend(string(value.as_bytes(), huff_value));
            o
        };
        match rep {
            Rep::Indexed => match self.find_pair(name, value) {
                Some(i) => int(i, 7, 0x80),
                None => {
                    let o = lit(0x40, 6, self.find_name(name));
                    self.insert(name, value);
                    o
                }
            },
            Rep::LitIdxNewName => {
                let o = lit(0x40, 6, None);
                self.insert(name, value);
                o
            }
            Rep::LitIdxIndexedName => {
                let o = lit(0x40, 6, self.find_name(name));
                self.insert(name, value);
                o
            }
            Rep::LitNoIdx => lit(0x00, 4, None),
            Rep::LitNoIdxIndexedName => lit(0x00, 4, self.find_name(name)),
            Rep::NeverIdx => lit(0x10, 4, self.find_name(name)),
        }
    }
}

/// cross-check of the carried tables against the decoder the code under test uses: every static entry by index,
/// every byte value Huffman-coded alone and all together
pub fn selftest() -> Result<(), String> {
    use huginn_net_http::http2_parser::Http2Parser;
    let mut exp = vec![];
    for (n, v) in STATIC_TABLE.iter() {
        if !v.is_empty() {
            exp.push((n.to_string(), v.to_string()));
        }
    }
    let all: Vec<u8> = (32u8..=126).collect();
    let all_s = String::from_utf8_lossy(&all).to_string();
    exp.push(("x-all".to_string(), all_s));
    let mut stream = PREFACE.to_vec();
    let mut b2 = vec![];
    let mut e2 = HpackEnc::default();
    b2.extend(e2.field(":method", "GET", Rep::Indexed, false, false));
    b2.extend(e2.field(":path", "/", Rep::Indexed, false, false));
    b2.extend(e2.field(":scheme", "https", Rep::Indexed, false, false));
    b2.extend(e2.field(":authority", "a", Rep::LitNoIdxIndexedName, false, false));
    for (n, v) in &exp {
        if !n.starts_with(':') {
            b2.extend(e2.field(n, v, if n == "x-all" { Rep::LitNoIdx } else { Rep::Indexed }, true, true));
        }
    }
    for b in 32u8..=126 {
        b2.extend(e2.field("x-b", &(b as char).to_string(), Rep::LitNoIdx, false, true));
    }
    stream.extend(frame(1, END_HEADERS | END_STREAM, 1, &b2));
    let req = Http2Parser::new().parse_request(&stream).map_err(|e| e.to_string())?.ok_or("self-test request not parsed")?;
    let got: Vec<(String, String)> = req.headers.iter().map(|h| (h.name.clone(), h.value.clone().unwrap_or_default())).collect();
    let mut want: Vec<(String, String)> = exp.iter().filter(|(n, _)| !n.starts_with(':')).cloned().collect();
    for b in 32u8..=126 {
        want.push(("x-b".to_string(), (b as char).to_string()));
    }
    // cookie / referer are lifted out of the header list by the parser
    let want: Vec<(String, String)> = want.into_iter().filter(|(n, _)| n != "cookie" && n != "referer").collect();
    if got != want {
        let first = got.iter().zip(want.iter()).position(|(a, b)| a != b);
        return Err(format!("hpack self-test mismatch at {first:?}: got {:?} want {:?}", first.map(|i| &got[i]), first.map(|i| &want[i])));
    }
    Ok(())
}
