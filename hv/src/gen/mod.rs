pub mod pkt;
pub mod tls;
