pub mod h2;
pub mod hpack_data;
pub mod pkt;
pub mod tls;
