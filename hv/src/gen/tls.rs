//! ClientHello generator: bytes are produced from a structured description, which is also what the
//! reference JA4 model reads (the reference never parses bytes).
use serde::{Deserialize, Serialize};

pub const GREASE: [u16; 16] = [0x0a0a, 0x1a1a, 0x2a2a, 0x3a3a, 0x4a4a, 0x5a5a, 0x6a6a, 0x7a7a, 0x8a8a, 0x9a9a, 0xaaaa, 0xbaba, 0xcaca, 0xdada, 0xeaea, 0xfafa];
pub fn is_grease(x: u16) -> bool {
    GREASE.contains(&x)
}

#[derive(Clone, Debug, Serialize, Deserialize, PartialEq)]
pub enum Ext {
    Sni(String),
    Alpn(Vec<String>),
    SupVer(Vec<u16>),
    SigAlgs(Vec<u16>),
    Groups(Vec<u16>),
    PointFormats(Vec<u8>),
    Other(u16, Vec<u8>),
}
#[derive(Clone, Debug, Serialize, Deserialize, PartialEq)]
pub struct Hello {
    pub record_version: u16,
    pub legacy: u16,
    pub ciphers: Vec<u16>,
    pub exts: Vec<Ext>,
    pub sid: usize,
    pub compression: Vec<u8>,
}
impl Default for Hello {
    fn default() -> Self {
        Hello { record_version: 0x0301, legacy: 0x0303, ciphers: vec![0x1301, 0xc02f], exts: vec![], sid: 32, compression: vec![0] }
    }
}
pub fn ext_type(e: &Ext) -> u16 {
    match e {
        Ext::Sni(_) => 0,
        Ext::Alpn(_) => 16,
        Ext::SupVer(_) => 43,
        Ext::SigAlgs(_) => 13,
        Ext::Groups(_) => 10,
        Ext::PointFormats(_) => 11,
        Ext::Other(t, _) => *t,
    }
}
fn ext_body(e: &Ext) -> Vec<u8> {
    match e {
        Ext::Sni(h) => {
            let mut v = ((h.len() + 3) as u16).to_be_bytes().to_vec();
            v.push(0);
            v.extend((h.len() as u16).to_be_bytes());
            v.extend(h.as_bytes());
            v
        }
        Ext::Alpn(ps) => {
            let mut l = vec![];
            for p in ps {
                l.push(p.len() as u8);
                l.extend(p.as_bytes());
            }
            let mut v = (l.len() as u16).to_be_bytes().to_vec();
            v.extend(l);
            v
        }
        Ext::SupVer(vs) => {
            let mut v = vec![(vs.len() * 2) as u8];
            for x in vs {
                v.extend(x.to_be_bytes());
            }
            v
        }
        Ext::SigAlgs(vs) | Ext::Groups(vs) => {
            let mut v = ((vs.len() * 2) as u16).to_be_bytes().to_vec();
            for x in vs {
                v.extend(x.to_be_bytes());
            }
            v
        }
        Ext::PointFormats(f) => {
            let mut v = vec![f.len() as u8];
            v.extend(f);
            v
        }
        Ext::Other(_, b) => b.clone(),
    }
}
/// handshake message (type 1) without the record layer
pub fn handshake(h: &Hello) -> Vec<u8> {
    let mut b = h.legacy.to_be_bytes().to_vec();
    b.extend([7u8; 32]);
    b.push(h.sid as u8);
    b.extend(vec![9u8; h.sid]);
    b.extend(((h.ciphers.len() * 2) as u16).to_be_bytes());
    for c in &h.ciphers {
        b.extend(c.to_be_bytes());
    }
    b.push(h.compression.len() as u8);
    b.extend(&h.compression);
    if !h.exts.is_empty() {
        let mut e = vec![];
        for x in &h.exts {
            e.extend(ext_type(x).to_be_bytes());
            let bd = ext_body(x);
            e.extend((bd.len() as u16).to_be_bytes());
            e.extend(bd);
        }
        b.extend((e.len() as u16).to_be_bytes());
        b.extend(e);
    }
    let mut hs = vec![1, (b.len() >> 16) as u8, (b.len() >> 8) as u8, b.len() as u8];
    hs.extend(b);
    hs
}
pub fn record(content_type: u8, version: u16, body: &[u8]) -> Vec<u8> {
    let mut r = vec![content_type];
    r.extend(version.to_be_bytes());
    r.extend((body.len() as u16).to_be_bytes());
    r.extend(body);
    r
}
/// one TLS record carrying the ClientHello
pub fn bytes(h: &Hello) -> Vec<u8> {
    record(0x16, h.record_version, &handshake(h))
}

pub fn perms<T: Clone>(v: &[T]) -> Vec<Vec<T>> {
    if v.len() <= 1 {
        return vec![v.to_vec()];
    }
    let mut out = vec![];
    for i in 0..v.len() {
        let mut r = v.to_vec();
        let x = r.remove(i);
        for mut p in perms(&r) {
            p.insert(0, x.clone());
            out.push(p);
        }
    }
    out
}
/// all sub-lists (order kept) of `v` with size in lo..=hi
pub fn subsets<T: Clone>(v: &[T], lo: usize, hi: usize) -> Vec<Vec<T>> {
    let mut out = vec![];
    for m in 0u64..(1u64 << v.len()) {
        let n = m.count_ones() as usize;
        if n < lo || n > hi {
            continue;
        }
        out.push((0..v.len()).filter(|i| m & (1 << i) != 0).map(|i| v[i].clone()).collect());
    }
    out
}
