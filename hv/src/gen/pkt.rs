//! Frame builder: IPv4/IPv6 + TCP from a structured description (shared by most properties).
use serde::{Deserialize, Serialize};
#[derive(Clone, Debug, Serialize, Deserialize, PartialEq)]
pub struct Spec {
    pub v6: bool,
    pub ttl: u8,
    pub ip_opt_words: u8, // v4 only: number of 32-bit option words (IHL-5)
    pub df: bool,
    pub mf: bool,
    pub res: bool,
    pub frag_off: u16,
    pub id: u16,
    pub ecn: u8,
    pub flow: u32,
    pub flags: u8,
    pub seq: u32,
    pub ack: u32,
    pub urg: u16,
    pub window: u16,
    pub opts: Vec<u8>, // raw option bytes, len multiple of 4, <= 40
    pub payload: Vec<u8>,
    pub sport: u16,
    pub dport: u16,
    pub src: u8,
    pub dst: u8,
}
impl Default for Spec {
    fn default() -> Self {
        Spec { v6: false, ttl: 64, ip_opt_words: 0, df: true, mf: false, res: false, frag_off: 0, id: 0x1234, ecn: 0, flow: 0,
            flags: 0x02, seq: 1000, ack: 0, urg: 0, window: 8192, opts: vec![], payload: vec![], sport: 40000, dport: 80, src: 1, dst: 2 }
    }
}
pub const FIN: u8 = 1; pub const SYN: u8 = 2; pub const RST: u8 = 4; pub const PSH: u8 = 8; pub const ACK: u8 = 16; pub const URG: u8 = 32; pub const ECE: u8 = 64; pub const CWR: u8 = 128;

pub fn build(s: &Spec) -> Vec<u8> {
    assert!(s.opts.len() % 4 == 0 && s.opts.len() <= 40);
    let doff = 5 + s.opts.len() / 4;
    let mut tcp = vec![0u8; 20];
    tcp[0..2].copy_from_slice(&s.sport.to_be_bytes());
    tcp[2..4].copy_from_slice(&s.dport.to_be_bytes());
    tcp[4..8].copy_from_slice(&s.seq.to_be_bytes());
    tcp[8..12].copy_from_slice(&s.ack.to_be_bytes());
    tcp[12] = (doff as u8) << 4;
    tcp[13] = s.flags;
    tcp[14..16].copy_from_slice(&s.window.to_be_bytes());
    tcp[18..20].copy_from_slice(&s.urg.to_be_bytes());
    tcp.extend_from_slice(&s.opts);
    tcp.extend_from_slice(&s.payload);
    if s.v6 {
        let mut ip = vec![0u8; 40];
        let vtf: u32 = (6u32 << 28) | ((s.ecn as u32) << 20) | (s.flow & 0xFFFFF);
        ip[0..4].copy_from_slice(&vtf.to_be_bytes());
        ip[4..6].copy_from_slice(&(tcp.len() as u16).to_be_bytes());
        ip[6] = 6;
        ip[7] = s.ttl;
        ip[8] = 0x20; ip[9] = 0x01; ip[23] = s.src;
        ip[24] = 0x20; ip[25] = 0x01; ip[39] = s.dst;
        ip.extend_from_slice(&tcp);
        ip
    } else {
        let ihl = 5 + s.ip_opt_words as usize;
        let mut ip = vec![0u8; 20];
        ip[0] = 0x40 | ihl as u8;
        ip[1] = s.ecn & 3;
        let total = ihl * 4 + tcp.len();
        ip[2..4].copy_from_slice(&(total as u16).to_be_bytes());
        ip[4..6].copy_from_slice(&s.id.to_be_bytes());
        let fl: u16 = ((s.res as u16) << 15) | ((s.df as u16) << 14) | ((s.mf as u16) << 13) | (s.frag_off & 0x1FFF);
        ip[6..8].copy_from_slice(&fl.to_be_bytes());
        ip[8] = s.ttl;
        ip[9] = 6;
        ip[12..16].copy_from_slice(&[10, 0, 0, s.src]);
        ip[16..20].copy_from_slice(&[10, 0, 0, s.dst]);
        for _ in 0..s.ip_opt_words { ip.extend_from_slice(&[1, 1, 1, 1]); } // NOP options
        ip.extend_from_slice(&tcp);
        ip
    }
}


/// Link-layer framings understood by the analyzers' `parse_packet`.
#[derive(Clone, Copy, Debug, PartialEq, Serialize, Deserialize)]
pub enum Link {
    RawIp,
    Ethernet,
    /// BSD loopback / NULL: 4-byte family header (little-endian 2 = IPv4, 0x1e / 0x18 / 0x1c = IPv6)
    Null(u8),
    /// Ethernet with the given destination + source MAC addresses
    EthernetMacs([u8; 12]),
    /// Ethernet with one 802.1Q tag (TPID 0x8100 or 0x88a8) in front of the real EtherType
    Vlan(u16),
    /// Ethernet, padded to 60 bytes, frame check sequence captured (bytes behind the IP packet)
    EthernetTrailer,
}
/// MAC address pairs that another framing would also accept: a raw IPv4 / IPv6 header, a NULL/loopback header of family
/// 1e (+IPv4, +IPv6), 02, 18. Only the order in which a frame parser tries the framings tells such frames apart.
pub const AMBIGUOUS_MACS: [(&str, [u8; 12]); 6] = [
    ("macs-like-ipv4-header", [0x45, 0, 0, 0x28, 0, 0, 0x40, 0, 0x40, 0x06, 0, 0]),
    ("macs-like-ipv6-header", [0x60, 0, 0, 0, 0, 0x14, 0x06, 0x40, 0x20, 0x01, 0, 0]),
    ("macs-like-loopback-1e-then-ipv4", [0x1e, 0, 0x5e, 0x12, 0x45, 0x01, 0x02, 0, 0, 0x06, 0, 0x01]),
    ("macs-like-loopback-1e-then-ipv6", [0x1e, 0, 0, 0, 0x60, 0x01, 0x02, 0, 0, 0, 0x06, 0x01]),
    ("macs-like-loopback-02", [0x02, 0, 0, 0, 0x45, 0x00, 0x00, 0x28, 0, 0, 0x40, 0x00]),
    ("macs-like-loopback-18", [0x18, 0, 0, 0, 0x60, 0x00, 0x00, 0x00, 0, 0x14, 0x06, 0x40]),
];
pub fn frame(link: Link, ip: &[u8]) -> Vec<u8> {
    match link {
        Link::RawIp => ip.to_vec(),
        Link::Ethernet => {
            let v6 = ip.first().map(|b| b >> 4 == 6).unwrap_or(false);
            let mut f = vec![2, 0, 0, 0, 0, 2, 2, 0, 0, 0, 0, 1];
            f.extend(if v6 { [0x86, 0xdd] } else { [0x08, 0x00] });
            f.extend_from_slice(ip);
            f
        }
        Link::Null(fam) => {
            let mut f = vec![fam, 0, 0, 0];
            f.extend_from_slice(ip);
            f
        }
        Link::EthernetMacs(m) => {
            let mut f = frame(Link::Ethernet, ip);
            f[..12].copy_from_slice(&m);
            f
        }
        Link::EthernetTrailer => ethernet_with_trailer(ip),
        Link::Vlan(tpid) => {
            let e = frame(Link::Ethernet, ip);
            let mut f = e[..12].to_vec();
            f.extend(tpid.to_be_bytes());
            f.extend([0x00, 0x64]); // priority 0, VLAN id 100
            f.extend_from_slice(&e[12..]);
            f
        }
    }
}

/// The IP packet as a capture of an Ethernet link often shows it: the frame padded with zero bytes to the 60-byte
/// minimum and followed by the four bytes of the frame check sequence. None of these bytes belongs to the IP packet
/// (its total / payload length field says where it ends).
pub fn ethernet_with_trailer(ip: &[u8]) -> Vec<u8> {
    let mut f = frame(Link::Ethernet, ip);
    while f.len() < 60 {
        f.push(0);
    }
    f.extend([0x16, 0x03, 0x47, 0x45]);
    f
}

/// Minimal classic pcap writer (LINKTYPE given) so that `analyze_pcap` can be driven from generated frames.
pub fn write_pcap(path: &std::path::Path, linktype: u32, frames: &[Vec<u8>]) -> std::io::Result<()> {
    let mut b = vec![];
    b.extend(0xa1b2c3d4u32.to_le_bytes());
    b.extend(2u16.to_le_bytes());
    b.extend(4u16.to_le_bytes());
    b.extend(0i32.to_le_bytes());
    b.extend(0u32.to_le_bytes());
    b.extend(262144u32.to_le_bytes());
    b.extend(linktype.to_le_bytes());
    for (i, f) in frames.iter().enumerate() {
        b.extend((1_700_000_000u32 + i as u32).to_le_bytes());
        b.extend(0u32.to_le_bytes());
        b.extend((f.len() as u32).to_le_bytes());
        // every third record says that the frame was longer on the wire than what was captured (a snap length, a frame
        // check sequence that the capture cut off): the captured bytes are what there is to analyse
        b.extend((f.len() as u32 + if i % 3 == 1 { 4 } else { 0 }).to_le_bytes());
        b.extend_from_slice(f);
    }
    std::fs::write(path, b)
}
