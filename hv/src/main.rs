//! hv — bounded-exhaustive explorer (engine E1) for the huginn-net properties.
//! usage: hv run <ID> <quick|thorough> <out.json>
//!        hv replay <ID> <replay.json>
mod alloc;
mod drv;
mod logsink;
mod gen;
mod props;
mod refm;
mod report;

use report::Report;

#[global_allocator]
static GLOBAL: alloc::Counting = alloc::Counting;
use serde_json::Value;

/// where the result goes (the C01 watchdog writes it when a call does not return)
pub static OUT_PATH: std::sync::OnceLock<String> = std::sync::OnceLock::new();

pub static LAST_PANIC: std::sync::Mutex<String> = std::sync::Mutex::new(String::new());

pub struct Outcome {
    pub report: Report,
    pub rule: String,
    pub exhaustive: bool,
    pub bounds: Value,
}

fn main() {
    // panics are caught where the implementation is called; the hook only remembers where the last one came from
    std::panic::set_hook(Box::new(|info| {
        if let (Some(l), Ok(mut g)) = (info.location(), LAST_PANIC.lock()) {
            *g = format!("{}:{}", l.file(), l.line());
        }
    }));
    let args: Vec<String> = std::env::args().collect();
    if args.len() < 4 {
        eprintln!("usage: hv run <ID> <tier> <out.json> | hv replay <ID> <file>");
        std::process::exit(2);
    }
    // the library logs through `tracing`; the arguments of a log call are only evaluated when a subscriber wants the
    // event, so a panic or an endless loop inside a log argument is invisible without one: install a subscriber that wants
    // everything, formats every field and throws the text away
    if std::env::var("HV_NOLOG").is_err() {
        let _ = tracing::subscriber::set_global_default(logsink::Sink);
    }
    let threads = std::env::var("HV_THREADS").ok().and_then(|s| s.parse().ok()).unwrap_or(16usize);
    rayon::ThreadPoolBuilder::new().num_threads(threads).stack_size(64 << 20).build_global().ok();
    match args[1].as_str() {
        "run" => {
            let id = args[2].as_str();
            let tier = args[3].as_str();
            let out = args.get(4).cloned().unwrap_or_else(|| "/dev/stdout".into());
            let _ = OUT_PATH.set(out.clone());
            // properties whose deepest bounds cost only seconds are always run at those bounds
            const ALWAYS_DEEP: [&str; 12] = ["C02", "C03", "C04", "C05", "C06", "C07", "C08", "C09", "C13", "C16", "C17", "C19"];
            // HV_SHALLOW=1 (coverage measurement runs only) keeps the shallow bounds
            let thorough = tier == "thorough" || (ALWAYS_DEEP.contains(&id) && std::env::var("HV_SHALLOW").is_err());
            let t0 = std::time::Instant::now();
            let o = match std::panic::catch_unwind(|| props::run(id, thorough)) {
                Ok(Some(o)) => o,
                Ok(None) => {
                    eprintln!("unknown property {id}");
                    std::process::exit(2);
                }
                Err(_) => {
                    // a panic that escaped every guard: inside the repository it is a violation (the implementation
                    // panicked on an explored input), anywhere else it is an engine failure
                    let at = LAST_PANIC.lock().map(|g| g.clone()).unwrap_or_default();
                    let mut r = Report::new();
                    if at.starts_with("/repo/") || at.starts_with("huginn-net") {
                        // the counts of the aborted run are lost; what is known to have been explored is the input that panicked
                        r.exec(1);
                        r.outcome(&("aborted", &at));
                        r.outcome(&"aborted");
                        r.sample(|| serde_json::json!({"aborted_at": at}));
                        r.dev(format!("{id}/implementation-panicked-at/{at}"), "panic", || serde_json::json!({"panic_location": at, "detail": "the implementation panicked on an explored input outside a guarded call; the run was aborted"}));
                    } else {
                        r.machinery_error(format!("engine panicked at {at}"));
                    }
                    Outcome { report: r, rule: "aborted".into(), exhaustive: false, bounds: Value::Null }
                }
            };
            let mut o = o;
            // what the outputs' Display impls showed for the results this run converted (drv.rs, rendering)
            for (k, n, ex) in drv::render_issues() {
                o.report.dev(format!("{id}/{k}"), "render", || serde_json::json!({"kind": "render", "count": n, "detail": ex}));
            }
            let wall = t0.elapsed().as_secs_f64();
            let j = o.report.to_json(id, tier, &o.rule, o.exhaustive, o.bounds, wall);
            if std::fs::write(&out, serde_json::to_string_pretty(&j).unwrap_or_default()).is_err() {
                eprintln!("cannot write {out}");
                std::process::exit(2);
            }
            if !o.report.machinery_errors.is_empty() {
                eprintln!("machinery errors: {:?}", o.report.machinery_errors);
                std::process::exit(3);
            }
            std::process::exit(if o.report.devs.is_empty() { 0 } else { 1 });
        }
        "replay" => {
            let id = args[2].as_str();
            let txt = std::fs::read_to_string(&args[3]).unwrap_or_default();
            let v: Value = serde_json::from_str(&txt).unwrap_or(Value::Null);
            let ex = v.get("example").cloned().unwrap_or(v);
            match props::replay(id, &ex) {
                None => {
                    eprintln!("no replay for {id}");
                    std::process::exit(2);
                }
                Some(r) => {
                    println!("{}", serde_json::to_string_pretty(&r.to_json(id, "replay", "replay of one recorded case", false, Value::Null, 0.0)).unwrap_or_default());
                    std::process::exit(if r.devs.is_empty() { 0 } else { 1 });
                }
            }
        }
        _ => std::process::exit(2),
    }
}
