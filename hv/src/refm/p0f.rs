//! p0f reference renderer: the observable a TCP segment's header fields define under the p0f signature
//! language, computed from the structured frame description (never from bytes).
//!
//! `Sw` are *defect switches*: with all of them off this is the specification. Each switch reproduces one
//! recorded defect of the implementation, so that a deviation can be attributed to a known finding only when
//! the observation equals the reference with exactly that switch on.
use crate::gen::pkt::*;

#[derive(Debug, Clone, Copy, PartialEq, Default)]
pub struct Sw {
    /// the option walk does not stop at the end-of-options marker: padding bytes are parsed as options
    pub eol_continues: bool,
    /// MTU = MSS + actual IP header + TCP option bytes instead of MSS + minimal headers
    pub mtu_actual_headers: bool,
    /// every valid non-SYN segment is rendered as a server (SYN+ACK) signature
    pub non_syn_is_server: bool,
}

#[derive(Debug, Clone, PartialEq)]
pub struct Expected {
    pub role: Role,
    pub ver: char,
    pub ittl: String,
    pub olen: u8,
    pub mss: Option<u16>,
    /// every window rendering the field definitions allow (the "MTU multiple" rule has more than one reading)
    pub wsize: Vec<String>,
    pub wscale: Option<u8>,
    pub olayout: Vec<String>,
    /// as a set (sorted, deduplicated)
    pub quirks: Vec<&'static str>,
    pub pclass: char,
    pub mtu: Option<u16>,
    pub malformed: bool,
    pub has_eol_with_tail: bool,
}
#[derive(Debug, Clone, Copy, PartialEq)]
pub enum Role {
    Client,
    Server,
    /// a valid segment that is not part of a handshake: neither signature
    None,
    /// invalid flag combination or fragment: an error / no result
    Error,
}

pub fn ref_ttl(ttl: u8) -> String {
    if ttl == 0 {
        return "0-".into();
    }
    let init: u16 = if ttl > 128 {
        255
    } else if ttl > 64 {
        128
    } else if ttl > 32 {
        64
    } else {
        32
    };
    let d = init - ttl as u16;
    if d <= 30 {
        format!("{}+{}", ttl, d)
    } else {
        format!("{}", ttl)
    }
}

/// Window classification priority: MSS multiple (also timestamp-adjusted), largest power-of-two modulus
/// 4096..256, MTU multiples (1500, 1500-minimal headers, timestamp-adjusted, MSS + headers), raw.
/// `hdr_candidates`: header sizes accepted for the "MSS + headers" reading.
pub fn ref_window(win: u16, mss: Option<u16>, has_ts: bool, v6: bool, hdr_candidates: &[u16]) -> Vec<String> {
    let m = mss.unwrap_or(0);
    if win == 0 || m < 100 {
        return vec![format!("{win}")];
    }
    let try_div = |d: u16| -> Option<u16> {
        if d != 0 && win % d == 0 && win / d <= 255 {
            Some(win / d)
        } else {
            None
        }
    };
    if let Some(n) = try_div(m) {
        return vec![format!("mss*{n}")];
    }
    if has_ts && m > 12 {
        if let Some(n) = try_div(m - 12) {
            return vec![format!("mss*{n}")];
        }
    }
    for md in [4096u16, 2048, 1024, 512, 256] {
        if win % md == 0 {
            return vec![format!("%{md}")];
        }
    }
    if let Some(n) = try_div(1500) {
        return vec![format!("mtu*{n}")];
    }
    let min = if v6 { 60 } else { 40 };
    if let Some(n) = try_div(1500 - min) {
        return vec![format!("mtu*{n}")];
    }
    if has_ts {
        if let Some(n) = try_div(1500 - min - 12) {
            return vec![format!("mtu*{n}")];
        }
    }
    let mut out = vec![];
    for h in hdr_candidates {
        let s = match try_div(m.saturating_add(*h)) {
            Some(n) => format!("mtu*{n}"),
            None => format!("{win}"),
        };
        if !out.contains(&s) {
            out.push(s);
        }
    }
    if out.is_empty() {
        out.push(format!("{win}"));
    }
    out
}

struct Opts {
    layout: Vec<String>,
    mss: Option<u16>,
    ws: Option<u8>,
    has_ts: bool,
    ts1z: bool,
    ts2nz: bool,
    optplus: bool,
    exws: bool,
    malformed: bool,
    eol_tail: bool,
}

/// the specification: walk until EOL (padding counted, `opt+` if non-zero) or a malformed option (`bad`);
/// with `eol_continues` (defect switch) the marker does not end the walk
fn walk_options(o: &[u8], tcp_type: u8, eol_continues: bool) -> Opts {
    let mut r = Opts { layout: vec![], mss: None, ws: None, has_ts: false, ts1z: false, ts2nz: false, optplus: false, exws: false, malformed: false, eol_tail: false };
    let mut i = 0;
    while i < o.len() {
        let k = o[i];
        if k == 0 {
            let rest = &o[i + 1..];
            r.layout.push(format!("eol+{}", rest.len()));
            r.eol_tail = r.eol_tail || !rest.is_empty();
            if rest.iter().any(|&b| b != 0) {
                r.optplus = true;
            }
            if eol_continues {
                i += 1;
                continue;
            }
            break;
        }
        if k == 1 {
            r.layout.push("nop".into());
            i += 1;
            continue;
        }
        if i + 1 >= o.len() {
            r.malformed = true;
            break;
        }
        let l = o[i + 1] as usize;
        if l < 2 || i + l > o.len() {
            r.malformed = true;
            break;
        }
        let d = &o[i + 2..i + l];
        match k {
            2 => {
                r.layout.push("mss".into());
                if l != 4 {
                    r.malformed = true;
                }
                if d.len() >= 2 {
                    r.mss = Some(u16::from_be_bytes([d[0], d[1]]));
                }
            }
            3 => {
                r.layout.push("ws".into());
                if l != 3 {
                    r.malformed = true;
                }
                if !d.is_empty() {
                    r.ws = Some(d[0]);
                    if d[0] > 14 {
                        r.exws = true;
                    }
                }
            }
            4 => {
                r.layout.push("sok".into());
                if l != 2 {
                    r.malformed = true;
                }
            }
            5 => {
                r.layout.push("sack".into());
                if !(10..=34).contains(&l) {
                    r.malformed = true;
                }
            }
            8 => {
                r.layout.push("ts".into());
                r.has_ts = true;
                if l != 10 {
                    r.malformed = true;
                }
                if d.len() >= 4 && u32::from_be_bytes([d[0], d[1], d[2], d[3]]) == 0 {
                    r.ts1z = true;
                }
                if d.len() >= 8 && tcp_type == SYN && u32::from_be_bytes([d[4], d[5], d[6], d[7]]) != 0 {
                    r.ts2nz = true;
                }
            }
            _ => r.layout.push(format!("?{k}")),
        }
        i += l;
    }
    r
}

pub fn reference(s: &Spec, sw: Sw) -> Expected {
    let f = s.flags;
    let tcp_type = f & (SYN | ACK | FIN | RST);
    let invalid = ((f & SYN) != 0 && (f & (FIN | RST)) != 0) || (f & (FIN | RST)) == (FIN | RST) || tcp_type == 0;
    let fragment = !s.v6 && (s.frag_off > 0 || s.mf);
    let role = if invalid || fragment {
        Role::Error
    } else if f & SYN != 0 && f & ACK == 0 {
        Role::Client
    } else if f & SYN != 0 || sw.non_syn_is_server {
        Role::Server
    } else {
        Role::None
    };
    let mut q: Vec<&'static str> = vec![];
    if !s.v6 {
        if s.df {
            q.push("df");
            if s.id != 0 {
                q.push("id+");
            }
        } else if s.id == 0 {
            q.push("id-");
        }
    }
    if s.ecn & 3 != 0 || f & (ECE | CWR) != 0 {
        q.push("ecn");
    }
    if !s.v6 && s.res {
        q.push("0+");
    }
    if s.v6 && s.flow & 0xFFFFF != 0 {
        q.push("flow");
    }
    if s.seq == 0 {
        q.push("seq-");
    }
    if f & ACK != 0 {
        if s.ack == 0 {
            q.push("ack-");
        }
    } else if s.ack != 0 && f & RST == 0 {
        q.push("ack+");
    }
    if f & URG != 0 {
        q.push("urgf+");
    } else if s.urg != 0 {
        q.push("uptr+");
    }
    if f & PSH != 0 {
        q.push("pushf+");
    }
    let strict = walk_options(&s.opts, tcp_type, false);
    let o = walk_options(&s.opts, tcp_type, sw.eol_continues);
    if o.ts1z {
        q.push("ts1-");
    }
    if o.ts2nz {
        q.push("ts2+");
    }
    if o.optplus {
        q.push("opt+");
    }
    if o.exws {
        q.push("exws");
    }
    if o.malformed {
        q.push("bad");
    }
    q.sort();
    q.dedup();
    let ip_hdr: u16 = if s.v6 { 40 } else { (5 + s.ip_opt_words as u16) * 4 };
    let min: u16 = if s.v6 { 60 } else { 40 };
    // accepted readings of "MSS + headers": minimal headers, actual IP header + minimal TCP header,
    // actual IP header + actual TCP header
    let hdrs = [min, ip_hdr + 20, ip_hdr + 20 + s.opts.len() as u16];
    let mtu = if f & SYN != 0 && f & ACK == 0 && role == Role::Client {
        o.mss.map(|m| if sw.mtu_actual_headers { m.saturating_add(ip_hdr).saturating_add(s.opts.len() as u16) } else { m.saturating_add(min) })
    } else {
        None
    };
    Expected {
        role,
        ver: if s.v6 { '6' } else { '4' },
        ittl: ref_ttl(s.ttl),
        olen: if s.v6 { 0 } else { s.ip_opt_words * 4 },
        mss: o.mss,
        wsize: ref_window(s.window, o.mss, o.has_ts, s.v6, &hdrs),
        wscale: o.ws,
        olayout: o.layout,
        quirks: q,
        pclass: if s.payload.is_empty() { '0' } else { '+' },
        mtu,
        malformed: strict.malformed,
        has_eol_with_tail: strict.eol_tail,
    }
}

/// render the expected signature text(s) `ver:ittl:olen:mss:wsize,scale:olayout:quirks:pclass` with quirks as a sorted set
pub fn render(e: &Expected) -> Vec<String> {
    e.wsize
        .iter()
        .map(|w| {
            format!(
                "{}:{}:{}:{}:{},{}:{}:{}:{}",
                e.ver,
                e.ittl,
                e.olen,
                e.mss.map(|m| m.to_string()).unwrap_or("*".into()),
                w,
                e.wscale.map(|m| m.to_string()).unwrap_or("*".into()),
                e.olayout.join(","),
                e.quirks.join(","),
                e.pclass
            )
        })
        .collect()
}
/// normalise an observed signature text: quirks sorted and deduplicated
pub fn normalise(sig: &str) -> String {
    let p: Vec<&str> = sig.split(':').collect();
    if p.len() != 8 {
        return sig.to_string();
    }
    let mut q: Vec<&str> = p[6].split(',').filter(|x| !x.is_empty()).collect();
    q.sort();
    q.dedup();
    format!("{}:{}:{}:{}:{}:{}:{}:{}", p[0], p[1], p[2], p[3], p[4], p[5], q.join(","), p[7])
}
