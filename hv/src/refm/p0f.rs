//! p0f reference renderer: expected observable computed from the structured frame description (never from bytes).
use crate::gen::pkt::*;
#[derive(Debug, Clone, PartialEq)]
pub struct Expected {
    pub role: Role,
    pub ver: char,
    pub ittl: String,
    pub olen: u8,
    pub mss: Option<u16>,
    pub wsize: String,
    pub wscale: Option<u8>,
    pub olayout: Vec<String>,
    pub quirks: Vec<&'static str>, // canonical p0f order
    pub pclass: char,
    pub mtu: Option<u16>,
    pub malformed: bool,
}
#[derive(Debug, Clone, Copy, PartialEq)]
pub enum Role { Client, Server, None, Error }

pub fn ref_ttl(ttl: u8) -> String {
    if ttl == 0 { return "0-".into(); }
    let init: u16 = if ttl > 128 { 255 } else if ttl > 64 { 128 } else if ttl > 32 { 64 } else { 32 };
    let d = init - ttl as u16;
    if d <= 30 { format!("{}+{}", ttl, d) } else { format!("{}", ttl) }
}

pub fn ref_window(win: u16, mss: Option<u16>, ip_hdr_len: u16, has_ts: bool, v6: bool) -> String {
    let m = mss.unwrap_or(0);
    if win == 0 || m < 100 { return format!("{win}"); }
    let try_div = |d: u16| -> Option<u16> { if d != 0 && win % d == 0 && win / d <= 255 { Some(win / d) } else { None } };
    if let Some(n) = try_div(m) { return format!("mss*{n}"); }
    if has_ts && m > 12 { if let Some(n) = try_div(m - 12) { return format!("mss*{n}"); } }
    for md in [4096u16, 2048, 1024, 512, 256] { if win % md == 0 { return format!("%{md}"); } }
    if let Some(n) = try_div(1500) { return format!("mtu*{n}"); }
    let min = if v6 { 60 } else { 40 };
    if let Some(n) = try_div(1500 - min) { return format!("mtu*{n}"); }
    if has_ts { if let Some(n) = try_div(1500 - min - 12) { return format!("mtu*{n}"); } }
    let _ = ip_hdr_len;
    if let Some(n) = try_div(m.saturating_add(min)) { return format!("mtu*{n}"); }
    format!("{win}")
}

pub fn reference(s: &Spec) -> Expected {
    let f = s.flags;
    let tcp_type = f & (SYN | ACK | FIN | RST);
    let invalid = ((f & SYN) != 0 && (f & (FIN | RST)) != 0) || (f & (FIN | RST)) == (FIN | RST) || tcp_type == 0;
    let fragment = !s.v6 && (s.frag_off > 0 || s.mf);
    let role = if invalid || fragment { Role::Error } else if f & SYN != 0 && f & ACK == 0 { Role::Client } else if f & SYN != 0 { Role::Server } else { Role::None };
    let mut q: Vec<&'static str> = vec![];
    if !s.v6 {
        if s.df { q.push("df"); if s.id != 0 { q.push("id+"); } } else if s.id == 0 { q.push("id-"); }
    }
    let mut ecn = s.ecn & 3 != 0;
    if f & (ECE | CWR) != 0 { ecn = true; }
    if ecn { q.push("ecn"); }
    if !s.v6 && s.res { q.push("0+"); }
    if s.v6 && s.flow & 0xFFFFF != 0 { q.push("flow"); }
    if s.seq == 0 { q.push("seq-"); }
    if f & ACK != 0 { if s.ack == 0 { q.push("ack-"); } } else if s.ack != 0 && f & RST == 0 { q.push("ack+"); }
    if f & URG != 0 { q.push("urgf+"); } else if s.urg != 0 { q.push("uptr+"); }
    if f & PSH != 0 { q.push("pushf+"); }
    // options
    let mut layout = vec![]; let mut mss = None; let mut ws = None; let mut malformed = false;
    let mut ts1z = false; let mut ts2nz = false; let mut optplus = false; let mut exws = false; let mut has_ts = false;
    let o = &s.opts; let mut i = 0;
    while i < o.len() {
        let k = o[i];
        if k == 0 { let rest = &o[i + 1..]; layout.push(format!("eol+{}", rest.len())); if rest.iter().any(|&b| b != 0) { optplus = true; } break; }
        if k == 1 { layout.push("nop".into()); i += 1; continue; }
        if i + 1 >= o.len() { malformed = true; break; }
        let l = o[i + 1] as usize;
        if l < 2 || i + l > o.len() { malformed = true; break; }
        let d = &o[i + 2..i + l];
        match k {
            2 => { layout.push("mss".into()); if l != 4 { malformed = true; } if d.len() >= 2 { mss = Some(u16::from_be_bytes([d[0], d[1]])); } }
            3 => { layout.push("ws".into()); if l != 3 { malformed = true; } if !d.is_empty() { ws = Some(d[0]); if d[0] > 14 { exws = true; } } }
            4 => { layout.push("sok".into()); if l != 2 { malformed = true; } }
            5 => { layout.push("sack".into()); if !(10..=34).contains(&l) { malformed = true; } }
            8 => { layout.push("ts".into()); has_ts = true; if l != 10 { malformed = true; }
                if d.len() >= 4 && u32::from_be_bytes([d[0], d[1], d[2], d[3]]) == 0 { ts1z = true; }
                if d.len() >= 8 && tcp_type == SYN && u32::from_be_bytes([d[4], d[5], d[6], d[7]]) != 0 { ts2nz = true; } }
            _ => layout.push(format!("?{k}")),
        }
        i += l;
    }
    if ts1z { q.push("ts1-"); } if ts2nz { q.push("ts2+"); } if optplus { q.push("opt+"); } if exws { q.push("exws"); } if malformed { q.push("bad"); }
    let ip_hdr = if s.v6 { 40 } else { (5 + s.ip_opt_words as u16) * 4 };
    Expected {
        role, ver: if s.v6 { '6' } else { '4' }, ittl: ref_ttl(s.ttl), olen: if s.v6 { 0 } else { s.ip_opt_words * 4 }, mss,
        wsize: ref_window(s.window, mss, ip_hdr, has_ts, s.v6), wscale: ws, olayout: layout, quirks: q,
        pclass: if s.payload.is_empty() { '0' } else { '+' },
        mtu: if role == Role::Client { mss.map(|m| m.saturating_add(if s.v6 { 60 } else { 40 })) } else { None }, malformed,
    }
}
