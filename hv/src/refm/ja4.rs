//! Reference JA4 (FoxIO specification), computed from the structured ClientHello description.
use crate::gen::tls::{ext_type, is_grease, Ext, Hello};
use sha2::{Digest, Sha256};

pub fn h12(s: &str) -> String {
    if s.is_empty() {
        return "000000000000".into();
    }
    let d = Sha256::digest(s.as_bytes());
    d.iter().map(|b| format!("{b:02x}")).collect::<String>()[..12].to_string()
}
pub fn vcode(v: u16) -> &'static str {
    match v {
        0x0304 => "13",
        0x0303 => "12",
        0x0302 => "11",
        0x0301 => "10",
        0x0300 => "s3",
        0x0002 => "s2",
        _ => "00",
    }
}
#[derive(Debug, Clone, PartialEq)]
pub struct Ja4Ref {
    pub a: String,
    pub b_raw: String,
    pub c_raw: String,
    pub full: String,
    pub raw: String,
    /// one of the lists that get hashed is empty: the raw (unhashed) rendering of that part is not
    /// fixed by the specification and is left out of the comparison
    pub has_empty_part: bool,
}
pub fn version_code(h: &Hello) -> &'static str {
    let supver = h.exts.iter().find_map(|e| if let Ext::SupVer(v) = e { Some(v.clone()) } else { None });
    match supver {
        Some(vs) => vs.iter().filter(|x| !is_grease(**x)).max().copied().map(vcode).unwrap_or(vcode(h.legacy)),
        None => vcode(h.legacy),
    }
}
pub fn ja4(h: &Hello, original: bool) -> Ja4Ref {
    ja4_reading(h, original, 0)
}
/// true when the first ALPN value starts or ends with an ASCII character that is not a letter or digit: the published
/// JA4 revisions differ there (the characters themselves / the first and last hex digit of the value's bytes)
pub fn alpn_has_two_readings(h: &Hello) -> bool {
    let alpn = h.exts.iter().find_map(|e| if let Ext::Alpn(p) = e { p.first().cloned() } else { None });
    match alpn {
        Some(p) if !p.is_empty() => !p.chars().next().map(|c| c.is_ascii_alphanumeric()).unwrap_or(true) || !p.chars().last().map(|c| c.is_ascii_alphanumeric()).unwrap_or(true),
        _ => false,
    }
}
/// readings of the two ALPN characters: 0 = the first and last character, a character outside ASCII shown as '9';
/// 1 = the first and last hex digit of the value's bytes; 2 = "99" when the value starts outside ASCII
pub fn ja4_reading(h: &Hello, original: bool, reading: u8) -> Ja4Ref {
    let ver = version_code(h);
    // the flag says that the server_name extension (type 0) is there, whatever its list holds
    let sni = if h.exts.iter().any(|e| ext_type(e) == 0) { 'd' } else { 'i' };
    let ciphers: Vec<u16> = h.ciphers.iter().filter(|x| !is_grease(**x)).copied().collect();
    let etypes: Vec<u16> = h.exts.iter().map(ext_type).filter(|x| !is_grease(*x)).collect();
    let alpn = h.exts.iter().find_map(|e| if let Ext::Alpn(p) = e { p.first().cloned() } else { None });
    let (a1, a2) = match alpn {
        Some(p) if !p.is_empty() && reading == 1 => {
            let hx: String = p.bytes().map(|b| format!("{b:02x}")).collect();
            (hx.chars().next().unwrap_or('0'), hx.chars().last().unwrap_or('0'))
        }
        Some(p) if !p.is_empty() && reading == 2 && !p.chars().next().map(|c| c.is_ascii()).unwrap_or(true) => ('9', '9'),
        Some(p) if !p.is_empty() => {
            let nine = |c: char| if c.is_ascii() { c } else { '9' };
            (p.chars().next().map(nine).unwrap_or('0'), p.chars().last().map(nine).unwrap_or('0'))
        }
        _ => ('0', '0'),
    };
    let a = format!("t{ver}{sni}{:02}{:02}{a1}{a2}", ciphers.len().min(99), etypes.len().min(99));
    let mut c = ciphers.clone();
    if !original {
        c.sort();
    }
    let b = c.iter().map(|x| format!("{x:04x}")).collect::<Vec<_>>().join(",");
    let mut e = etypes.clone();
    if !original {
        e.retain(|x| *x != 0 && *x != 16);
        e.sort();
    }
    let es = e.iter().map(|x| format!("{x:04x}")).collect::<Vec<_>>().join(",");
    let sa: Vec<u16> = h.exts.iter().find_map(|e| if let Ext::SigAlgs(v) = e { Some(v.iter().filter(|x| !is_grease(**x)).copied().collect()) } else { None }).unwrap_or_default();
    let ss = sa.iter().map(|x| format!("{x:04x}")).collect::<Vec<_>>().join(",");
    let cc = if ss.is_empty() { es.clone() } else { format!("{es}_{ss}") };
    Ja4Ref { full: format!("{a}_{}_{}", h12(&b), h12(&cc)), raw: format!("{a}_{b}_{cc}"), has_empty_part: b.is_empty() || es.is_empty(), a, b_raw: b, c_raw: cc }
}
