//! Reference for HTTP observations: what a request / response head *defines*, computed from the structured
//! description (start line + ordered header list) that the generators also use to produce bytes.
use crate::drv::{ReqSum, RespSum};
use serde::{Deserialize, Serialize};

pub const REQ_OPTIONAL: [&str; 11] = ["Cookie", "Referer", "Origin", "Range", "If-Modified-Since", "If-None-Match", "Via", "X-Forwarded-For", "Authorization", "Proxy-Authorization", "Cache-Control"];
pub const RESP_OPTIONAL: [&str; 12] = ["Set-Cookie", "Last-Modified", "ETag", "Content-Length", "Content-Disposition", "Cache-Control", "Expires", "Pragma", "Location", "Refresh", "Content-Range", "Vary"];
pub const REQ_SKIP: [&str; 2] = ["Host", "User-Agent"];
pub const RESP_SKIP: [&str; 3] = ["Date", "Content-Type", "Server"];
pub const REQ_COMMON: [&str; 8] = ["Host", "User-Agent", "Connection", "Accept", "Accept-Encoding", "Accept-Language", "Accept-Charset", "Keep-Alive"];
pub const RESP_COMMON: [&str; 5] = ["Content-Type", "Connection", "Keep-Alive", "Accept-Ranges", "Date"];

#[derive(Clone, Debug, Serialize, Deserialize, PartialEq)]
pub struct Msg {
    pub request: bool,
    /// "HTTP/1.0", "HTTP/1.1" or "HTTP/2"
    pub version: String,
    pub method: String,
    pub target: String,
    pub status: u16,
    pub reason: String,
    /// wire order, names as sent, values as sent (before trimming)
    pub headers: Vec<(String, String)>,
    /// HTTP/2 only
    pub authority: Option<String>,
    pub scheme: Option<String>,
}
impl Msg {
    pub fn request(version: &str, method: &str, target: &str, headers: Vec<(String, String)>) -> Msg {
        Msg { request: true, version: version.into(), method: method.into(), target: target.into(), status: 0, reason: String::new(), headers, authority: None, scheme: None }
    }
    pub fn response(version: &str, status: u16, reason: &str, headers: Vec<(String, String)>) -> Msg {
        Msg { request: false, version: version.into(), method: String::new(), target: String::new(), status, reason: reason.into(), headers, authority: None, scheme: None }
    }
    /// HTTP/1.x head as bytes with the given line ending
    pub fn head1(&self, eol: &str) -> Vec<u8> {
        let mut s = if self.request { format!("{} {} {}{eol}", self.method, self.target, self.version) } else if self.reason.is_empty() { format!("{} {}{eol}", self.version, self.status) } else { format!("{} {} {}{eol}", self.version, self.status, self.reason) };
        for (n, v) in &self.headers {
            s.push_str(&format!("{n}: {v}{eol}"));
        }
        s.push_str(eol);
        s.into_bytes()
    }
}

pub fn language_name(tag: &str) -> Option<&'static str> {
    match tag.split('-').next().unwrap_or("") {
        "en" => Some("English"),
        "fr" => Some("French"),
        "de" => Some("German"),
        "es" => Some("Spanish"),
        "ja" => Some("Japanese"),
        _ => None,
    }
}
/// preferred language: highest q-value, earliest wins ties (only tags of the small documented alphabet)
pub fn preferred_language(value: &str) -> Option<String> {
    let mut best: Option<(f32, usize, &'static str)> = None;
    for (i, part) in value.split(',').enumerate() {
        let mut it = part.split(';');
        let tag = it.next().unwrap_or("").trim();
        if tag.is_empty() {
            continue;
        }
        let mut q = 1.0f32;
        for p in it {
            let p = p.trim();
            if let Some(x) = p.strip_prefix("q=") {
                q = x.trim().parse().unwrap_or(1.0);
            }
        }
        if let Some(name) = language_name(tag) {
            if best.map(|b| q > b.0).unwrap_or(true) {
                best = Some((q, i, name));
            }
        }
    }
    best.map(|b| b.2.to_string())
}

#[derive(Clone, Debug, PartialEq)]
pub struct Expect {
    pub version: String,
    pub method: Option<String>,
    pub uri: Option<String>,
    pub status: Option<u16>,
    /// (name, trimmed value) in wire order, cookie/referer lifted out of requests
    pub headers: Vec<(String, String)>,
    pub cookies: Vec<(String, Option<String>)>,
    pub referer: Option<String>,
    pub software: Option<String>,
    pub lang: Option<String>,
    /// per header the acceptable horder tokens
    pub horder: Vec<Vec<String>>,
    pub habsent: Vec<String>,
}

pub fn expect(m: &Msg) -> Expect {
    let h2 = m.version == "HTTP/2";
    let trimmed: Vec<(String, String)> = m.headers.iter().map(|(n, v)| (n.trim().to_string(), v.trim().to_string())).collect();
    let lifted = |n: &str| m.request && (n.eq_ignore_ascii_case("cookie") || n.eq_ignore_ascii_case("referer"));
    let headers: Vec<(String, String)> = trimmed.iter().filter(|(n, _)| !lifted(n)).cloned().collect();
    let mut cookies = vec![];
    for (n, v) in &trimmed {
        if m.request && n.eq_ignore_ascii_case("cookie") {
            for c in v.split(';') {
                let c = c.trim();
                if c.is_empty() {
                    continue;
                }
                match c.split_once('=') {
                    Some((a, b)) => cookies.push((a.trim().to_string(), Some(b.trim().to_string()))),
                    None => cookies.push((c.to_string(), None)),
                }
            }
        }
    }
    let find = |name: &str| trimmed.iter().find(|(n, _)| n.eq_ignore_ascii_case(name)).map(|x| x.1.clone());
    let referer = if m.request { find("referer") } else { None };
    let software = if m.request { find("user-agent") } else { find("server") };
    let lang = if m.request { find("accept-language").and_then(|v| preferred_language(&v)) } else { None };
    let (opt, skip, common): (&[&str], &[&str], &[&str]) = if m.request { (&REQ_OPTIONAL, &REQ_SKIP, &REQ_COMMON) } else { (&RESP_OPTIONAL, &RESP_SKIP, &RESP_COMMON) };
    let mut horder = vec![];
    for (n, v) in &headers {
        let plain = if v.is_empty() { n.to_string() } else { format!("{n}=[{v}]") };
        let exact_opt = opt.contains(&n.as_str());
        let exact_skip = skip.contains(&n.as_str());
        let ci_opt = opt.iter().any(|x| x.eq_ignore_ascii_case(n));
        let ci_skip = skip.iter().any(|x| x.eq_ignore_ascii_case(n));
        let tokens = if h2 {
            // HTTP/2 names are lower case by protocol: the lists apply case-insensitively
            if ci_opt {
                vec![format!("?{n}")]
            } else if ci_skip {
                vec![n.to_string()]
            } else {
                vec![plain]
            }
        } else if exact_opt {
            vec![format!("?{n}")]
        } else if exact_skip {
            vec![n.to_string()]
        } else if ci_opt {
            // a case variant of a listed name: both renderings are accepted
            vec![format!("?{n}"), plain]
        } else if ci_skip {
            vec![n.to_string(), plain]
        } else {
            vec![plain]
        };
        horder.push(tokens);
    }
    let habsent: Vec<String> = common.iter().filter(|c| !headers.iter().any(|(n, _)| n.eq_ignore_ascii_case(c))).map(|c| c.to_string()).collect();
    Expect {
        version: match m.version.as_str() {
            "HTTP/1.0" => "V10".into(),
            "HTTP/1.1" => "V11".into(),
            _ => "V20".into(),
        },
        method: if m.request { Some(m.method.clone()) } else { None },
        uri: if m.request { Some(m.target.clone()) } else { None },
        status: if m.request { None } else { Some(m.status) },
        headers,
        cookies,
        referer,
        software,
        lang,
        horder,
        habsent,
    }
}

fn norm_token(t: &str) -> String {
    // `Name=[]` and `Name` are the same rendering of an empty value
    t.strip_suffix("=[]").unwrap_or(t).to_string()
}
fn split_sig(sig: &str) -> Option<(String, Vec<String>, Vec<String>, String)> {
    // version ':' horder ':' habsent ':' expsw  — horder values may contain ':' inside brackets
    let mut depth = 0;
    let mut cuts = vec![];
    for (i, c) in sig.char_indices() {
        match c {
            '[' => depth += 1,
            ']' => depth -= 1,
            ':' if depth == 0 && cuts.len() < 3 => cuts.push(i),
            _ => {}
        }
    }
    if cuts.len() != 3 {
        return None;
    }
    let split_list = |s: &str| -> Vec<String> {
        let mut out = vec![];
        let mut depth = 0;
        let mut cur = String::new();
        for c in s.chars() {
            match c {
                '[' => {
                    depth += 1;
                    cur.push(c)
                }
                ']' => {
                    depth -= 1;
                    cur.push(c)
                }
                ',' if depth == 0 => out.push(std::mem::take(&mut cur)),
                _ => cur.push(c),
            }
        }
        if !cur.is_empty() || !out.is_empty() {
            out.push(cur);
        }
        out
    };
    Some((sig[..cuts[0]].to_string(), split_list(&sig[cuts[0] + 1..cuts[1]]), split_list(&sig[cuts[1] + 1..cuts[2]]), sig[cuts[2] + 1..].to_string()))
}

/// compare a reported request with the expectation; returns the names of the fields that differ
pub fn diff_request(e: &Expect, a: &ReqSum) -> Vec<String> {
    let mut d = vec![];
    if a.version != e.version {
        d.push("version".into());
    }
    if a.method != e.method {
        d.push("method".into());
    }
    if a.uri != e.uri {
        d.push("target".into());
    }
    let got: Vec<(String, String)> = a.headers.iter().map(|h| (h.0.clone(), h.1.clone().unwrap_or_default())).collect();
    if got != e.headers {
        d.push("headers".into());
    }
    let gc: Vec<(String, Option<String>)> = a.cookies.iter().map(|c| (c.0.clone(), c.1.clone())).collect();
    if gc != e.cookies {
        d.push("cookies".into());
    }
    if a.referer.clone().filter(|x| !x.is_empty()) != e.referer.clone().filter(|x| !x.is_empty()) {
        d.push("referer".into());
    }
    if a.user_agent.clone().filter(|x| !x.is_empty()) != e.software.clone().filter(|x| !x.is_empty()) {
        d.push("user-agent".into());
    }
    if a.lang != e.lang {
        d.push("language".into());
    }
    d.extend(diff_sig(e, &a.sig));
    d
}
pub fn diff_response(e: &Expect, a: &RespSum) -> Vec<String> {
    let mut d = vec![];
    if a.version != e.version {
        d.push("version".into());
    }
    if a.status != e.status {
        d.push("status".into());
    }
    let got: Vec<(String, String)> = a.headers.iter().map(|h| (h.0.clone(), h.1.clone().unwrap_or_default())).collect();
    if got != e.headers {
        d.push("headers".into());
    }
    d.extend(diff_sig(e, &a.sig));
    d
}
fn diff_sig(e: &Expect, sig: &str) -> Vec<String> {
    let mut d = vec![];
    let Some((ver, horder, habsent, expsw)) = split_sig(sig) else { return vec!["signature-shape".into()] };
    let ev = match e.version.as_str() {
        "V10" => "0",
        "V11" => "1",
        _ => "2",
    };
    if ver != ev {
        d.push("sig-version".into());
    }
    let ok = horder.len() == e.horder.len() && horder.iter().zip(e.horder.iter()).all(|(g, alts)| alts.iter().any(|x| norm_token(x) == norm_token(g)));
    if !ok {
        d.push("sig-header-order".into());
    }
    if habsent != e.habsent {
        d.push("sig-absent-headers".into());
    }
    // an empty User-Agent / Server value may be rendered as empty or as the "unknown" marker
    let es = e.software.clone().filter(|x| !x.is_empty()).unwrap_or("???".into());
    if expsw != es && !(e.software.as_deref() == Some("") && expsw.is_empty()) {
        d.push("sig-software".into());
    }
    d
}
