pub mod http;
pub mod ja4;
pub mod p0f;
