//! C16 — HTTP/2 requests and responses are decoded as RFC 7540/7541 define them.
//! Header lists are encoded by the harness's own HPACK encoder (every representation, Huffman or plain, size
//! updates, dynamic-table references created inside the block), framed in every legal way (PADDED, PRIORITY,
//! CONTINUATION at every byte) after several preludes; the decoded observation must equal the encoded list.
use crate::drv::{req_obs, resp_obs, HttpSeq};
use crate::gen::h2::{self, Framing, HpackEnc, Rep, ALL_REPS};
use crate::gen::pkt::{self, Spec, ACK, PSH, SYN};
use crate::refm::http::{diff_request, diff_response, expect, Msg};
use crate::report::{guarded, hex, par_slices, Report};
use crate::Outcome;
use huginn_net_http::http_process::HttpProcessors;
use serde::{Deserialize, Serialize};
use serde_json::{json, Value};

#[derive(Clone, Debug, Serialize, Deserialize, PartialEq)]
pub struct Case {
    pub msg: Msg,
    /// order of the pseudo-headers (letters m p a s for requests; ignored for responses)
    pub pseudo: String,
    /// representation per field (pseudo-headers first), cycled when shorter than the list
    pub reps: Vec<Rep>,
    pub huff_names: bool,
    pub huff_values: bool,
    /// dynamic table size updates emitted at the start of the block
    pub size_updates: Vec<usize>,
    pub framing: Framing,
    pub prelude: u8,
    /// what follows the header block on the wire: 0 = nothing; 1 = a DATA frame and then the header block of ANOTHER
    /// exchange on another stream (a server answers streams in any order: the first block is on stream 3, the later one on
    /// stream 1; a client opens stream 1, then 3); 2 = a DATA frame and trailers on the same stream. The connection start
    /// is the first block.
    #[serde(default)]
    pub tail: u8,
}
fn s(x: &str) -> String {
    x.to_string()
}
pub fn fields(c: &Case) -> Vec<(String, String)> {
    let mut f = vec![];
    if c.msg.request {
        for ch in c.pseudo.chars() {
            match ch {
                'm' => f.push((s(":method"), c.msg.method.clone())),
                'p' => f.push((s(":path"), c.msg.target.clone())),
                's' => f.push((s(":scheme"), c.msg.scheme.clone().unwrap_or(s("https")))),
                _ => f.push((s(":authority"), c.msg.authority.clone().unwrap_or(s("example.org")))),
            }
        }
    } else {
        f.push((s(":status"), c.msg.status.to_string()));
    }
    f.extend(c.msg.headers.iter().cloned());
    f
}
pub fn block(c: &Case) -> Vec<u8> {
    let mut e = HpackEnc::default();
    let mut b = vec![];
    for su in &c.size_updates {
        b.extend(e.size_update(*su));
    }
    for (i, (n, v)) in fields(c).iter().enumerate() {
        let rep = c.reps[i % c.reps.len().max(1)];
        // a 16000-byte value is sent without indexing (inserting it would only empty the table; that case has its own family)
        let rep = if v.len() > 8000 && matches!(rep, Rep::Indexed | Rep::LitIdxNewName | Rep::LitIdxIndexedName) { Rep::LitNoIdx } else { rep };
        b.extend(e.field(n, v, rep, c.huff_names, c.huff_values));
    }
    b
}
/// frames sent before HEADERS; a server always opens with SETTINGS (its connection preface)
pub fn prelude(kind: u8, request: bool) -> Vec<u8> {
    match kind {
        0 => {
            if request {
                vec![]
            } else {
                h2::settings(&[])
            }
        }
        1 => h2::settings(&[(3, 100), (4, 65535)]),
        2 => {
            let mut v = h2::settings(&[(1, 65536), (4, 6291456)]);
            v.extend(h2::window_update(0, 15663105, false));
            v.extend(h2::priority(3, false, 0, 200));
            v
        }
        3 => {
            let mut v = h2::settings(&[(2, 0)]);
            v.extend(h2::ping());
            v
        }
        // the sender's own SETTINGS_HEADER_TABLE_SIZE (id 1) limits the table its PEER may use for encoding towards it; the
        // table for the sender's own header blocks keeps the default 4096 bytes unless a size update in the block says so
        6 => h2::settings(&[(1, 0)]),
        7 => h2::settings(&[(1, 40), (3, 100)]),
        8 => h2::settings(&[(1, 4096), (1, 0)]),
        5 => {
            // a maximum-size (16384-byte) extension frame before the header block
            let mut v = h2::settings(&[(4, 1048576)]);
            v.extend(h2::frame(0x21, 0, 0, &vec![0x55; 16384]));
            v
        }
        _ => {
            // an extension frame type (to be ignored) and a SETTINGS acknowledgement
            let mut v = h2::settings(&[(4, 1048576)]);
            v.extend(h2::frame(0x20, 0, 0, &[1, 2, 3]));
            v.extend(h2::frame(4, 1, 0, &[]));
            v
        }
    }
}
pub fn stream(c: &Case) -> Vec<u8> {
    let mut d = if c.msg.request { h2::PREFACE.to_vec() } else { vec![] };
    d.extend(prelude(c.prelude, c.msg.request));
    let first = if c.tail == 1 && !c.msg.request { 3 } else { 1 };
    d.extend(h2::headers_frames(first, &block(c), &c.framing));
    if c.tail != 0 {
        d.extend(h2::frame(0, 0, first, b"some body bytes"));
        let mut e = HpackEnc::default();
        let mut b = vec![];
        let other: Vec<(&str, &str)> = match (c.tail, c.msg.request) {
            (1, true) => vec![(":method", "POST"), (":path", "/other"), (":scheme", "http"), (":authority", "other.example"), ("user-agent", "other-agent"), ("x-other", "1")],
            (1, false) => vec![(":status", "404"), ("server", "other-server"), ("x-other", "1")],
            _ => vec![("x-trailer", "t"), ("grpc-status", "0")],
        };
        for (n, v) in other {
            b.extend(e.field(n, v, Rep::LitNoIdx, false, false));
        }
        let sid = if c.tail == 1 { 4 - first } else { first };
        d.extend(h2::headers_frames(sid, &b, &Framing { end_stream: true, ..Default::default() }));
    }
    d
}

pub fn check(r: &mut Report, p: &HttpProcessors, c: &Case, family: &str) {
    let data = stream(c);
    let e = expect(&c.msg);
    r.exec(1);
    let got = guarded(|| if c.msg.request { p.parse_request(&data).map(|x| (format!("{:?}", req_obs(&x)), diff_request(&e, &req_obs(&x)))) } else { p.parse_response(&data).map(|x| (format!("{:?}", resp_obs(&x)), diff_response(&e, &resp_obs(&x)))) });
    let feat = || {
        let mut f = vec![];
        if c.framing.pad.is_some() {
            f.push("padded");
        }
        if c.framing.prio.is_some() {
            f.push("priority");
        }
        if !c.framing.splits.is_empty() {
            f.push("continuation");
        }
        if !c.size_updates.is_empty() {
            f.push("size-update");
        }
        if f.is_empty() {
            f.push("plain");
        }
        f.join("+")
    };
    let ctx = || json!({"family": family, "case": c, "bytes": hex(&data[..data.len().min(500)])});
    match got {
        Err(pn) => r.dev("C16/panic", "panic", || json!({"ctx": ctx(), "detail": pn})),
        Ok(None) => {
            let class = format!("not-decoded/{}", feat());
            r.dev(format!("C16/{class}"), class.clone(), || json!({"ctx": ctx(), "expected": format!("{e:?}")}));
        }
        Ok(Some((repr, diffs))) => {
            r.outcome(&repr);
            r.sample(|| json!({"case": c, "reported": repr}));
            if !diffs.is_empty() {
                let class = format!("field/{}/{}", diffs.join("+"), feat());
                r.dev(format!("C16/{class}"), class.clone(), || json!({"ctx": ctx(), "expected": format!("{e:?}"), "actual": repr}));
            }
        }
    }
}

fn base_request(headers: Vec<(&str, &str)>) -> Msg {
    let mut m = Msg::request("HTTP/2", "GET", "/index.html?x=1", headers.into_iter().map(|(a, b)| (s(a), s(b))).collect());
    m.authority = Some(s("www.example.org"));
    m.scheme = Some(s("https"));
    m
}
fn base_response(status: u16, headers: Vec<(&str, &str)>) -> Msg {
    Msg::response("HTTP/2", status, "", headers.into_iter().map(|(a, b)| (s(a), s(b))).collect())
}
pub fn messages() -> Vec<Msg> {
    let big = "v".repeat(16000);
    let mut v = vec![
        base_request(vec![]),
        base_request(vec![("user-agent", "Mozilla/5.0 (X11) Firefox/99"), ("accept", "*/*")]),
        base_request(vec![("user-agent", "curl/8.0"), ("accept-language", "fr;q=0.5,en"), ("cookie", "a=b; c=d"), ("referer", "https://r.example/"), ("accept-encoding", "gzip, deflate")]),
        base_request(vec![("cookie", "a=b"), ("cookie", "c"), ("x-dup", "1"), ("x-dup", "2"), ("cache-control", "no-cache"), ("host", "h"), ("x-empty", "")]),
        base_request(vec![("x-upper-\u{e9}", "\u{fc}"), ("x-colon", "a:b=[c]"), ("via", "1.1 p")]),
        base_response(200, vec![("server", "nginx/1.25"), ("content-type", "text/html"), ("date", "Mon, 01 Jan 2024 00:00:00 GMT")]),
        base_response(404, vec![("content-length", "0"), ("set-cookie", "s=1"), ("set-cookie", "t=2"), ("x-a", "b"), ("vary", "accept")]),
        base_response(304, vec![]),
    ];
    let mut many = vec![];
    let names: Vec<String> = (0..40).map(|i| format!("x-h{i}")).collect();
    for (i, n) in names.iter().enumerate() {
        many.push((n.as_str(), if i % 3 == 0 { "value" } else { "other-value" }));
    }
    v.push(base_request(many.clone()));
    v.push(base_response(200, many));
    let mut m = base_request(vec![("user-agent", "x")]);
    m.headers.push((s("x-big"), big));
    v.push(m);
    // cookie values that themselves contain '=' (base64 padding, nested key=value), an empty value, a bare name
    v.push(base_request(vec![("cookie", "sid=YWJjZA==; theme=dark"), ("cookie", "prefs=lang=en; e=; bare; =v"), ("user-agent", "x")]));
    // headers of the "common" lists sent with an empty value: present, not absent
    v.push(base_request(vec![("accept", ""), ("accept-language", ""), ("user-agent", "x"), ("accept-encoding", "")]));
    v.push(base_response(200, vec![("content-type", ""), ("date", ""), ("server", "s")]));
    for method in ["POST", "OPTIONS", "DELETE"] {
        let mut m = base_request(vec![("content-length", "3")]);
        m.method = s(method);
        m.target = s("*");
        v.push(m);
    }
    // counts: 255 / 256 / 257 / 1000 header fields in one block
    for n in [255usize, 256, 257, 1000] {
        let names: Vec<String> = (0..n).map(|i| format!("x-n{i}")).collect();
        let hs: Vec<(&str, &str)> = names.iter().map(|x| (x.as_str(), "v")).collect();
        v.push(base_request(hs.clone()));
        v.push(base_response(200, hs));
    }
    // language tags whose primary subtag is not two letters (and the underscore spelling): only whole primary subtags count
    for al in ["fil-PH,fil;q=0.9,en;q=0.8", "haw", "en_US,fr;q=0.1", "eng,deu;q=0.9,ja;q=0.2", "e,es-419;q=0.3"] {
        v.push(base_request(vec![("user-agent", "x"), ("accept-language", al)]));
    }
    v
}
/// `m` extended by filler headers so that its header block (literal without indexing, no Huffman) is exactly `target` bytes
fn sized_message(m: &Msg, target: usize) -> Option<Msg> {
    let probe = |fill: usize, extra: usize| -> (Msg, usize) {
        let mut x = m.clone();
        x.headers.push((s("x-fill"), "f".repeat(fill)));
        if extra > 0 {
            x.headers.push((s("x-e"), "e".repeat(extra - 1)));
        }
        let c = Case { msg: x.clone(), pseudo: s("mpas"), reps: vec![Rep::LitNoIdx], huff_names: false, huff_values: false, size_updates: vec![], framing: Framing::default(), prelude: 1, tail: 0 };
        (x, block(&c).len())
    };
    let base = probe(0, 0).1;
    if target < base {
        return None;
    }
    for extra in 0..4 {
        let guess = target - base;
        for fill in guess.saturating_sub(12)..=guess {
            let (x, len) = probe(fill, extra);
            if len == target {
                return Some(x);
            }
        }
    }
    None
}
fn all_rep_vectors(n: usize) -> Vec<Vec<Rep>> {
    let mut out: Vec<Vec<Rep>> = vec![vec![]];
    for _ in 0..n {
        let mut next = vec![];
        for v in &out {
            for r in ALL_REPS {
                let mut x = v.clone();
                x.push(r);
                next.push(x);
            }
        }
        out = next;
    }
    out
}

pub fn cases(thorough: bool) -> Vec<(Case, &'static str)> {
    let msgs = messages();
    let mut v = vec![];
    let plain = |m: &Msg| Case { msg: m.clone(), pseudo: s("mpas"), reps: vec![Rep::LitNoIdx], huff_names: false, huff_values: false, size_updates: vec![], framing: Framing::default(), prelude: 1, tail: 0 };
    // (1) representations: uniform vectors on every message x Huffman modes x size updates
    for m in &msgs {
        for rep in ALL_REPS {
            for (hn, hv) in [(false, false), (true, false), (false, true), (true, true)] {
                for su in [vec![], vec![4096], vec![0, 4096], vec![100]] {
                    v.push((Case { reps: vec![rep], huff_names: hn, huff_values: hv, size_updates: su, ..plain(m) }, "representations"));
                }
            }
        }
    }
    // all representation vectors for the pseudo-headers + first two headers of two short messages (later fields
    // reference entries inserted earlier in the same block)
    for m in [&msgs[1], &msgs[5]] {
        let n = if m.request { 6 } else { 3 };
        for reps in all_rep_vectors(n.min(if thorough { 6 } else { 5 })) {
            for hv in [false, true] {
                v.push((Case { reps: reps.clone(), huff_values: hv, ..plain(m) }, "representation-vectors"));
            }
        }
    }
    // repeated fields so that indexed references hit the dynamic table
    let rep_msg = base_request(vec![("x-rep", "same"), ("x-rep", "same"), ("x-other", "same"), ("x-rep", "same")]);
    for reps in all_rep_vectors(4) {
        let mut full = vec![Rep::Indexed; 4];
        full.extend(reps);
        v.push((Case { reps: full, ..plain(&rep_msg) }, "dynamic-references"));
    }
    // string lengths across the HPACK integer boundaries (7-bit prefix: 126/127/128, 254/255/256 ...) for names and
    // values, plain and Huffman, with and without indexing
    let lens: Vec<usize> = (0..=300).chain([1000, 4000, 4063, 4064, 4065, 4096, 5000]).collect();
    for &l in &lens {
        for (huff, rep) in [(false, Rep::LitNoIdx), (true, Rep::LitNoIdx), (false, Rep::LitIdxNewName), (true, Rep::LitIdxIndexedName)] {
            let m = base_request(vec![("user-agent", "x")]);
            let mut mv = m.clone();
            mv.headers.push((s("x-len"), "v".repeat(l)));
            mv.headers.push((s("x-after"), s("1")));
            v.push((Case { reps: vec![rep], huff_names: huff, huff_values: huff, ..plain(&mv) }, "string-lengths"));
            if l >= 1 && l <= 300 {
                let mut mn = m.clone();
                mn.headers.push((format!("x{}", "n".repeat(l - 1)), s("1")));
                mn.headers.push((s("x-after"), s("1")));
                v.push((Case { reps: vec![rep], huff_names: huff, huff_values: huff, ..plain(&mn) }, "string-lengths"));
            }
        }
    }
    // dynamic-table eviction: more inserted entries than 4096 bytes hold, then references to the newest entries and a
    // repetition of an evicted one (the encoder models RFC 7541 eviction, so evicted pairs are sent as literals again)
    for (count, vlen) in [(60usize, 60usize), (120, 60), (45, 59), (46, 59), (5, 1000), (3, 2000)] {
        let mut hs: Vec<(String, String)> = (0..count).map(|i| (format!("x-e{i}"), format!("{i:03}{}", "w".repeat(vlen - 3)))).collect();
        // the newest three again (indexed), the oldest again (evicted if the table overflowed)
        for i in [count - 1, count - 2, count - 3, 0, 1] {
            hs.push(hs[i].clone());
        }
        let mut m = base_request(vec![]);
        m.headers = hs.clone();
        v.push((Case { reps: vec![Rep::Indexed], ..plain(&m) }, "dynamic-table-eviction"));
        v.push((Case { reps: vec![Rep::Indexed], huff_values: true, ..plain(&m) }, "dynamic-table-eviction"));
        v.push((Case { reps: vec![Rep::Indexed], size_updates: vec![1000], ..plain(&m) }, "dynamic-table-eviction"));
        let mut r2 = base_response(200, vec![]);
        r2.headers = hs;
        v.push((Case { reps: vec![Rep::Indexed], ..plain(&r2) }, "dynamic-table-eviction"));
    }
    // (1c) the sender announces a small header table for ITSELF while its own block inserts entries and refers to them
    for m in msgs.iter().take(8) {
        for pre in [6u8, 7, 8] {
            for reps in [vec![Rep::Indexed], vec![Rep::LitIdxNewName, Rep::Indexed], vec![Rep::LitIdxIndexedName]] {
                let mut m2 = m.clone();
                // the same pair twice: the second occurrence is an indexed reference to the entry the first one inserted
                m2.headers.push((s("x-again"), s("same-value")));
                m2.headers.push((s("x-again"), s("same-value")));
                v.push((Case { prelude: pre, reps: reps.clone(), ..plain(&m2) }, "own-table-size-setting"));
                v.push((Case { prelude: pre, reps, tail: 1, ..plain(&m2) }, "own-table-size-setting"));
            }
        }
    }
    // (1b) more than one header block on the wire: the connection start is the first one
    for m in msgs.iter().take(8) {
        for tail in [1u8, 2] {
            for rep in [Rep::LitNoIdx, Rep::Indexed] {
                v.push((Case { tail, reps: vec![rep], ..plain(m) }, "later-header-blocks"));
                v.push((Case { tail, reps: vec![rep], framing: Framing { splits: vec![3], ..Default::default() }, ..plain(m) }, "later-header-blocks"));
            }
        }
    }
    // (2) pseudo-header orders
    for o in ["mpas", "mspa", "pmsa", "aspm", "samp", "mps", "mp"] {
        v.push((Case { pseudo: s(o), ..plain(&msgs[1]) }, "pseudo-order"));
    }
    // (3) framings x preludes
    let mut framings = vec![Framing::default(), Framing { end_stream: true, ..Default::default() }];
    for pad in [0u8, 1, 7, 255] {
        framings.push(Framing { pad: Some(pad), ..Default::default() });
    }
    framings.push(Framing { prio: Some((false, 0, 200)), ..Default::default() });
    framings.push(Framing { prio: Some((true, 0x7fff_ffff, 255)), end_stream: true, ..Default::default() });
    framings.push(Framing { prio: Some((true, 3, 0)), pad: Some(3), ..Default::default() });
    for m in &msgs {
        for f in &framings {
            for pre in 0..6u8 {
                for rep in [Rep::LitNoIdx, Rep::Indexed] {
                    v.push((Case { framing: f.clone(), prelude: pre, reps: vec![rep], huff_values: true, ..plain(m) }, "framings"));
                }
            }
        }
    }
    // (4) CONTINUATION: every 2-split and 3-split of the block of short messages; coarse splits of long ones
    for m in [&msgs[0], &msgs[1], &msgs[5], &msgs[7]] {
        for (rep, hv) in [(Rep::LitNoIdx, false), (Rep::Indexed, true)] {
            let base = Case { reps: vec![rep], huff_values: hv, ..plain(m) };
            let len = block(&base).len();
            for a in 0..=len {
                v.push((Case { framing: Framing { splits: vec![a], ..Default::default() }, ..base.clone() }, "continuation"));
                if len <= 70 {
                    for b in a..=len {
                        v.push((Case { framing: Framing { splits: vec![a, b], ..Default::default() }, ..base.clone() }, "continuation"));
                    }
                }
            }
            // continuation combined with padding and priority
            for a in [1usize, len / 2, len.saturating_sub(1)] {
                v.push((Case { framing: Framing { splits: vec![a], pad: Some(2), prio: Some((false, 0, 15)), end_stream: false, cont_flags: 0, hdr_flags: 0 }, ..base.clone() }, "continuation"));
                // undefined flag bits on the CONTINUATION frame (the ones that mean PADDED / PRIORITY / END_STREAM on HEADERS)
                for cf in [0x08u8, 0x20, 0x29, 0xfb] {
                    v.push((Case { framing: Framing { splits: vec![a], cont_flags: cf, ..Default::default() }, ..base.clone() }, "continuation"));
                }
                // empty fragments: nothing of the block in the HEADERS frame (with and without padding / priority fields), an
                // empty last CONTINUATION frame
                if a == 1 {
                    for pad in [None, Some(0u8), Some(1), Some(3), Some(255)] {
                        v.push((Case { framing: Framing { splits: vec![0], pad, ..Default::default() }, ..base.clone() }, "continuation"));
                        v.push((Case { framing: Framing { splits: vec![0, 5], pad, prio: Some((true, 1, 3)), ..Default::default() }, ..base.clone() }, "continuation"));
                    }
                    v.push((Case { framing: Framing { splits: vec![usize::MAX], ..Default::default() }, ..base.clone() }, "continuation"));
                    v.push((Case { framing: Framing { splits: vec![0, usize::MAX], pad: Some(2), ..Default::default() }, ..base.clone() }, "continuation"));
                }
                // undefined bits on the HEADERS frame itself, alone and next to PADDED / PRIORITY
                for hf in [0x02u8, 0x10, 0x40, 0x80, 0xd2] {
                    v.push((Case { framing: Framing { hdr_flags: hf, ..Default::default() }, ..base.clone() }, "framings"));
                    v.push((Case { framing: Framing { splits: vec![a], hdr_flags: hf, pad: Some(3), prio: Some((true, 7, 9)), ..Default::default() }, ..base.clone() }, "continuation"));
                }
            }
        }
    }
    // (5) frame size boundary: HEADERS / CONTINUATION / preceding frames whose payload is exactly 16383 or 16384
    // bytes (the largest legal size with default settings)
    for target in [16383usize, 16384] {
        for (pad, prio) in [(None, None), (Some(5u8), None), (None, Some((false, 0u32, 7u8))), (Some(2), Some((true, 1, 255)))] {
            let overhead = pad.map(|p| 1 + p as usize).unwrap_or(0) + if prio.is_some() { 5 } else { 0 };
            if let Some(m) = sized_message(&msgs[1], target - overhead) {
                v.push((Case { framing: Framing { pad, prio, ..Default::default() }, ..plain(&m) }, "frame-size-boundary"));
                // the same block cut so that the HEADERS fragment or the CONTINUATION fragment has the boundary size
                if let Some(big) = sized_message(&msgs[1], target - overhead + 300) {
                    v.push((Case { framing: Framing { pad, prio, splits: vec![target - overhead], ..Default::default() }, ..plain(&big) }, "frame-size-boundary"));
                    if pad.is_none() && prio.is_none() {
                        v.push((Case { framing: Framing { splits: vec![300], ..Default::default() }, ..plain(&big) }, "frame-size-boundary"));
                    }
                }
            }
        }
        if let Some(m) = sized_message(&msgs[5], target) {
            v.push((plain(&m), "frame-size-boundary"));
        }
    }
    for m in [&msgs[2], &msgs[8], &msgs[10]] {
        let base = plain(m);
        let len = block(&base).len();
        for a in (0..=len).step_by(if len > 2000 { 997 } else { 37 }) {
            v.push((Case { framing: Framing { splits: vec![a, (a + 16000).min(len)], ..Default::default() }, ..base.clone() }, "continuation"));
        }
    }
    v
}

pub fn run(thorough: bool) -> Outcome {
    let mut pre = Report::new();
    if let Err(e) = h2::selftest() {
        pre.machinery_error(format!("hpack tables self-test: {e}"));
    }
    let cs = cases(thorough);
    let rep = par_slices(cs.len(), 256, |rg| {
        let mut r = Report::new();
        let p = HttpProcessors::new();
        for i in rg {
            check(&mut r, &p, &cs[i].0, cs[i].1);
        }
        r
    });
    let mut total = pre.merge(rep);
    // packet route: SYN then the stream in one segment, on the framing family
    let d = crate::drv::db();
    for (c, fam) in cs.iter().filter(|(_, f)| *f == "framings").step_by(7) {
        let data = stream(c);
        if data.len() > 60000 {
            continue;
        }
        total.exec(2);
        let (cl, sv) = ((1u8, 40000u16), (2u8, 443u16));
        let syn = pkt::build(&Spec { src: cl.0, sport: cl.1, dst: sv.0, dport: sv.1, flags: SYN, seq: 999, ..Spec::default() });
        let seg = if c.msg.request { pkt::build(&Spec { src: cl.0, sport: cl.1, dst: sv.0, dport: sv.1, flags: ACK | PSH, seq: 1000, ack: 1, payload: data.clone(), ..Spec::default() }) } else { pkt::build(&Spec { src: sv.0, sport: sv.1, dst: cl.0, dport: cl.1, flags: ACK | PSH, seq: 5000, ack: 1, payload: data.clone(), ..Spec::default() }) };
        let res = guarded(|| {
            let mut a = HttpSeq::new(Some(d), 8);
            a.feed(&syn);
            a.feed(&seg)
        });
        let e = expect(&c.msg);
        match res {
            Err(p) => total.dev("C16/panic", "panic", || json!({"case": c, "route": "packets", "detail": p})),
            Ok(x) => {
                let diffs = if c.msg.request { x.request.as_ref().map(|q| diff_request(&e, q)) } else { x.response.as_ref().map(|q| diff_response(&e, q)) };
                match diffs {
                    None => total.dev("C16/packets/not-reported", "packets-not-reported", || json!({"family": fam, "case": c, "route": "packets"})),
                    Some(dv) if !dv.is_empty() => total.dev(format!("C16/packets/field/{}", dv.join("+")), "packets-field", || json!({"family": fam, "case": c, "diff": dv})),
                    _ => {}
                }
            }
        }
    }
    Outcome {
        report: total,
        rule: "header lists (requests and responses, pseudo-header orders, cookies, referer, duplicates, UTF-8, 40 headers, a 16000-byte value) x HPACK encodings by the harness's encoder (6 representations uniformly and as all vectors over the first fields, Huffman names/values, size updates, dynamic references inside the block) x framings (END_STREAM, PADDED 0/1/7/255, PRIORITY, both) x 5 preludes x CONTINUATION at every byte (all 2-splits, all 3-splits of blocks <= 70 bytes); parser route and packet route; distinct = distinct decoded observations".into(),
        exhaustive: true,
        bounds: json!({"cases": cs.len(), "messages": messages().len()}),
    }
}

pub fn replay(ex: &Value) -> Report {
    let mut r = Report::new();
    let c = ex["ctx"]["case"].clone();
    match serde_json::from_value::<Case>(if c.is_null() { ex["case"].clone() } else { c }) {
        Ok(c) => check(&mut r, &HttpProcessors::new(), &c, "replay"),
        Err(_) => r.machinery_error("bad replay file"),
    }
    r
}
