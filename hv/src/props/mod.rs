use crate::report::Report;
use crate::Outcome;
use serde_json::Value;

pub mod c01;
pub mod c02;
pub mod c03;
pub mod c04;
pub mod c05;
pub mod c06;
pub mod c07;
pub mod c08;
pub mod c09;
pub mod c10;
pub mod c11;
pub mod c12;
pub mod c13;
pub mod c14;
pub mod c15;
pub mod c16;
pub mod c17;
pub mod c18;
pub mod c19;
pub mod c20;

pub fn run(id: &str, thorough: bool) -> Option<Outcome> {
    match id {
        "C01" => Some(c01::run(thorough)),
        "C02" => Some(c02::run(thorough)),
        "C03" => Some(c03::run(thorough)),
        "C04" => Some(c04::run(thorough)),
        "C05" => Some(c05::run(thorough)),
        "C06" => Some(c06::run(thorough)),
        "C07" => Some(c07::run(thorough)),
        "C08" => Some(c08::run(thorough)),
        "C09" => Some(c09::run(thorough)),
        "C10" => Some(c10::run(thorough)),
        "C11" => Some(c11::run(thorough)),
        "C12" => Some(c12::run(thorough)),
        "C13" => Some(c13::run(thorough)),
        "C14" => Some(c14::run(thorough)),
        "C15" => Some(c15::run(thorough)),
        "C16" => Some(c16::run(thorough)),
        "C17" => Some(c17::run(thorough)),
        "C18" => Some(c18::run(thorough)),
        "C19" => Some(c19::run(thorough)),
        "C20" => Some(c20::run(thorough)),
        _ => None,
    }
}

pub fn replay(id: &str, ex: &Value) -> Option<Report> {
    match id {
        "C01" => Some(c01::replay(ex)),
        "C02" => Some(c02::replay(ex)),
        "C03" => Some(c03::replay(ex)),
        "C04" => Some(c04::replay(ex)),
        "C05" => Some(c05::replay(ex)),
        "C06" => Some(c06::replay(ex)),
        "C07" => Some(c07::replay(ex)),
        "C08" => Some(c08::replay(ex)),
        "C09" => Some(c09::replay(ex)),
        "C10" => Some(c10::replay(ex)),
        "C11" => Some(c11::replay(ex)),
        "C12" => Some(c12::replay(ex)),
        "C13" => Some(c13::replay(ex)),
        "C14" => Some(c14::replay(ex)),
        "C15" => Some(c15::replay(ex)),
        "C16" => Some(c16::replay(ex)),
        "C17" => Some(c17::replay(ex)),
        "C18" => Some(c18::replay(ex)),
        "C19" => Some(c19::replay(ex)),
        "C20" => Some(c20::replay(ex)),
        _ => None,
    }
}
