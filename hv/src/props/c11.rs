//! C11 — memory per connection and work per packet stay bounded for any traffic.
//! Deterministic chains: after a SYN, N segments of 1400 bytes of a traffic kind that never yields a fingerprint, on
//! the HTTP, TLS, TCP and unified analyzers, in either direction; a counting allocator gives, for EVERY packet index,
//! the bytes retained since the connection started and the bytes allocated while handling that packet (a
//! deterministic proxy for work). Every prefix of the chain is checked, not only its end. A second family opens
//! more connections than the configured capacity.
use crate::alloc::counters;
use crate::drv::{set_clock, HttpSeq, TcpSeq, TlsSeq};
use crate::gen::pkt::{self, Spec, ACK, PSH, SYN};
use crate::report::{guarded, par_slices, Report};
use crate::Outcome;
use serde_json::{json, Value};

const SEG: usize = 1400;
/// segment sizes of the chains: full-size, small, single byte
pub const SIZES: [usize; 4] = [1400, 64, 1, 16000];
/// chains of jumbo segments are cut at this many segments (64 MB of payload)
const JUMBO_SEGMENTS: usize = 4096;
/// The verdict is about growth with the segment index, not about the footprint an implementation chooses:
///  * below the soft limits nothing is demanded;
///  * above them the second half of the chain must not exceed the first half (retained: + 64 KiB; per packet: x 1.25 + 64 KiB),
///    i.e. whatever cap the implementation uses must have been reached and must hold;
///  * the hard limits end a chain at once.
pub const RETAINED_LIMIT: isize = 256 * 1024;
pub const PER_PACKET_LIMIT: usize = 1024 * 1024 + 64 * SEG;
pub const RETAINED_HARD: isize = 8 * 1024 * 1024;
pub const PER_PACKET_HARD: usize = 16 * 1024 * 1024;

pub const KINDS: [&str; 20] = [
    "http-head-never-ends",
    "tls-application-data",
    "random-bytes",
    "h2-preface-then-endless-frame",
    "tls-record-declaring-65535-bytes",
    "completed-non-hello-handshake-then-application-data",
    "http-request-complete-then-endless-body",
    // several complete small records / frames / lines per segment (unit lengths that divide the segment size, and ones that do not)
    "server-hello-then-many-20-byte-application-data-records",
    "server-hello-then-many-21-byte-application-data-records",
    "many-10-byte-non-hello-handshake-records",
    "many-9-byte-non-hello-handshake-records",
    "h2-preface-settings-then-many-small-frames",
    "http-head-of-many-short-lines",
    // the first 100 bytes after the SYN are never seen: everything that arrives lies behind a hole in the sequence space
    "binary-data-behind-a-sequence-hole",
    "http-head-behind-a-sequence-hole",
    // an HTTP/2 header block that raises the HPACK table size to 16 MiB, inserts 4000 entries and then fails to decode,
    // followed by single bytes: whatever a failed decode leaves behind must not accumulate over the re-parses
    "h2-header-block-growing-the-hpack-table-then-failing",
    // a head that DOES complete, with thousands of header lines of pairwise different names (far beyond the limit of 100):
    // rejecting it must not cost more than reading it
    "http-request-head-of-4000-distinct-lines-completes",
    "http-response-head-of-4000-distinct-lines-completes",
    // the OTHER direction of the connection has already yielded its fingerprint (a complete request, or for chains sent by
    // the client a complete response, is analysed first): limits of one direction must not hang on the state of the other
    "random-bytes-after-the-peer-was-fingerprinted",
    "tls-application-data-after-the-peer-was-fingerprinted",
];
/// the kind whose byte stream a chain carries (prefaced kinds share the stream of their base kind)
fn base_kind(kind: &str) -> &str {
    kind.strip_suffix("-after-the-peer-was-fingerprinted").unwrap_or(kind)
}

/// kinds whose byte stream is a prefix followed by one unit repeated for ever
fn periodic(kind: &str) -> Option<(Vec<u8>, Vec<u8>)> {
    // a complete ServerHello-like handshake record (not a ClientHello): keeps a TLS reader open without a fingerprint
    let mut server_hello = vec![0x16, 3, 3, 0, 42, 2, 0, 0, 38, 3, 3];
    server_hello.extend([0x5a; 32]);
    server_hello.extend([0, 0x13, 0x01, 0]);
    match kind {
        "server-hello-then-many-20-byte-application-data-records" => Some((server_hello, [vec![0x17, 3, 3, 0, 15], vec![0xa5; 15]].concat())),
        "server-hello-then-many-21-byte-application-data-records" => Some((server_hello, [vec![0x17, 3, 3, 0, 16], vec![0xa5; 16]].concat())),
        // handshake type 14 (ServerHelloDone) with a one-byte / empty body
        "many-10-byte-non-hello-handshake-records" => Some((vec![], vec![0x16, 3, 3, 0, 5, 14, 0, 0, 1, 0])),
        "many-9-byte-non-hello-handshake-records" => Some((vec![], vec![0x16, 3, 3, 0, 4, 14, 0, 0, 0])),
        // PING frames (type 6, 8 bytes) on stream 0 after the preface and an empty SETTINGS frame
        "h2-preface-settings-then-many-small-frames" => Some(([b"PRI * HTTP/2.0\r\n\r\nSM\r\n\r\n".to_vec(), vec![0, 0, 0, 4, 0, 0, 0, 0, 0]].concat(), vec![0, 0, 8, 6, 0, 0, 0, 0, 0, 1, 2, 3, 4, 5, 6, 7, 8])),
        "http-head-of-many-short-lines" | "http-head-behind-a-sequence-hole" => Some((b"GET / HTTP/1.1\r\nHost: h\r\n".to_vec(), b"X: y\r\n".to_vec())),
        "binary-data-behind-a-sequence-hole" => Some((vec![], vec![0xee, 0x01, 0x80, 0xff, 0x16, 0x03, 0x7f])),
        "http-request-head-of-4000-distinct-lines-completes" | "http-response-head-of-4000-distinct-lines-completes" => {
            let mut h = if kind.starts_with("http-request") { b"GET / HTTP/1.1\r\nHost: h\r\n".to_vec() } else { b"HTTP/1.1 200 OK\r\nServer: s\r\n".to_vec() };
            for i in 0..4000 {
                h.extend(format!("x{i}: v\r\n").into_bytes());
            }
            h.extend(b"\r\n");
            Some((h, b"body ".to_vec()))
        }
        "h2-header-block-growing-the-hpack-table-then-failing" => {
            let mut block = crate::gen::h2::int(16 * 1024 * 1024, 5, 0x20);
            for _ in 0..4000 {
                block.extend([0x41, 0x00]);
            }
            block.extend([0x41, 0x05, b'a']);
            let mut pre = b"PRI * HTTP/2.0\r\n\r\nSM\r\n\r\n".to_vec();
            pre.extend([0, 0, 0, 4, 0, 0, 0, 0, 0]);
            pre.extend(crate::gen::h2::frame(1, 0x4, 1, &block));
            Some((pre, vec![0x00]))
        }
        _ => None,
    }
}

/// payload of segment `i` of a chain
pub fn payload(kind: &str, i: usize) -> Vec<u8> {
    let mut p = vec![0u8; SEG];
    match kind {
        "http-head-never-ends" => {
            let line = format!("X-Pad-{i}: {}", "a".repeat(SEG));
            p.copy_from_slice(&line.as_bytes()[..SEG]);
            if i == 0 {
                let start = b"GET / HTTP/1.1\r\nHost: h\r\n";
                p[..start.len()].copy_from_slice(start);
            }
            // header lines end with CRLF but a blank line never comes
            p[SEG - 2] = b'\r';
            p[SEG - 1] = b'\n';
            p[SEG - 3] = b'b';
        }
        "tls-application-data" => {
            p[0] = 0x17;
            p[1] = 3;
            p[2] = 3;
            p[3] = ((SEG - 5) >> 8) as u8;
            p[4] = (SEG - 5) as u8;
            for (k, b) in p.iter_mut().enumerate().skip(5) {
                *b = (k as u8).wrapping_mul(31).wrapping_add(i as u8);
            }
        }
        "random-bytes" => {
            let mut x = 0x9e3779b9u32.wrapping_mul(i as u32 + 1);
            for b in p.iter_mut() {
                x ^= x << 13;
                x ^= x >> 17;
                x ^= x << 5;
                *b = x as u8;
            }
            if i == 0 {
                p[0] = 0xff;
            }
        }
        "h2-preface-then-endless-frame" => {
            for b in p.iter_mut() {
                *b = 0x55;
            }
            if i == 0 {
                let pre = b"PRI * HTTP/2.0\r\n\r\nSM\r\n\r\n";
                p[..pre.len()].copy_from_slice(pre);
                // a DATA frame on stream 1 of the maximum size, never followed by HEADERS
                p[pre.len()..pre.len() + 9].copy_from_slice(&[0x00, 0x40, 0x00, 0x00, 0x00, 0, 0, 0, 1]);
            }
        }
        "tls-record-declaring-65535-bytes" => {
            for b in p.iter_mut() {
                *b = 0x42;
            }
            if i == 0 {
                p[..5].copy_from_slice(&[0x16, 3, 3, 0xff, 0xff]);
            }
        }
        "completed-non-hello-handshake-then-application-data" => {
            p = payload("tls-application-data", i);
            if i == 0 {
                // a complete ClientKeyExchange handshake record, then application data in the same segment
                let rec = [0x16u8, 3, 3, 0, 8, 16, 0, 0, 4, 1, 2, 3, 4];
                p[..rec.len()].copy_from_slice(&rec);
                p[rec.len()] = 0x17;
            }
        }
        _ => {
            // a complete request head, then body bytes for ever
            for b in p.iter_mut() {
                *b = b'z';
            }
            if i == 0 {
                let head = b"POST /upload HTTP/1.1\r\nHost: h\r\nUser-Agent: u\r\nContent-Length: 999999999\r\n\r\n";
                p[..head.len()].copy_from_slice(head);
            }
        }
    }
    p
}

/// segment `i` of a chain cut into `size`-byte segments: the byte stream is the same for every size
fn stream_slice(kind: &str, from: usize, len: usize) -> Vec<u8> {
    if let Some((pre, unit)) = periodic(kind) {
        return (from..from + len).map(|p| if p < pre.len() { pre[p] } else { unit[(p - pre.len()) % unit.len()] }).collect();
    }
    let mut out = Vec::with_capacity(len);
    let mut seg = from / SEG;
    let mut off = from % SEG;
    while out.len() < len {
        let p = payload(kind, seg);
        let take = (len - out.len()).min(SEG - off);
        out.extend_from_slice(&p[off..off + take]);
        seg += 1;
        off = 0;
    }
    out
}

pub fn chain_frame(kind: &str, from_client: bool, i: usize, size: usize) -> Vec<u8> {
    let (src, sport, dst, dport) = if from_client { (1u8, 40000u16, 2u8, 443u16) } else { (2, 443, 1, 40000) };
    pkt::build(&Spec { src, sport, dst, dport, flags: ACK | PSH, seq: 1001u32.wrapping_add(if kind.ends_with("behind-a-sequence-hole") { 100 } else { 0 }).wrapping_add((i * size) as u32), ack: 1, payload: stream_slice(base_kind(kind), i * size, size), ..Spec::default() })
}

/// one chain on one analyzer; returns per-packet (retained, allocated) or the first violation
pub fn run_chain(r: &mut Report, analyzer: &str, kind: &str, from_client: bool, n: usize, size: usize) {
    let d = crate::drv::db();
    let syn = pkt::build(&Spec { src: 1, sport: 40000, dst: 2, dport: 443, flags: SYN, seq: 1000, opts: vec![2, 4, 5, 0xb4], ..Spec::default() });
    let synack = pkt::build(&Spec { src: 2, sport: 443, dst: 1, dport: 40000, flags: SYN | ACK, seq: 1000, ack: 1001, opts: vec![2, 4, 5, 0xb4], ..Spec::default() });
    set_clock(1_700_000_000_000);
    let res = guarded(|| {
        enum A<'a> {
            T(TcpSeq<'a>),
            H(HttpSeq<'a>),
            L(TlsSeq),
            U(huginn_net::HuginnNet<'a>),
        }
        let mut a = match analyzer {
            "tcp" => A::T(TcpSeq::new(Some(d), 64)),
            "http" => A::H(HttpSeq::new(Some(d), 64)),
            "tls" => A::L(TlsSeq::new(64)),
            _ => A::U(huginn_net::HuginnNet::new(Some(d), 64, None).expect("analyzer")),
        };
        let mut feed = |f: &[u8]| match &mut a {
            A::T(x) => {
                x.feed(f);
            }
            A::H(x) => {
                x.feed(f);
            }
            A::L(x) => {
                x.feed(f);
            }
            A::U(x) => {
                x.analyze_tcp(f);
            }
        };
        feed(&syn);
        feed(&synack);
        if kind.ends_with("-after-the-peer-was-fingerprinted") {
            // the peer's message, complete in one segment
            let (src, sport, dst, dport, msg): (u8, u16, u8, u16, &[u8]) = if from_client { (2, 443, 1, 40000, b"HTTP/1.1 200 OK\r\nServer: nginx/1.2.3\r\nContent-Length: 0\r\n\r\n") } else { (1, 40000, 2, 443, b"GET / HTTP/1.1\r\nHost: h.example\r\nUser-Agent: curl/8.0\r\nAccept: */*\r\n\r\n") };
            feed(&pkt::build(&Spec { src, sport, dst, dport, flags: ACK | PSH, seq: 1001, ack: 1, payload: msg.to_vec(), ..Spec::default() }));
        }
        let base_live = counters().0;
        let mut worst: (isize, usize, usize) = (0, 0, 0);
        // (max retained, max allocated per packet) over the first and the second half of the chain
        let mut halves = [(0isize, 0usize); 2];
        let mut viol: Option<(usize, isize, usize, &'static str)> = None;
        for i in 0..n {
            let f = chain_frame(kind, from_client, i, size);
            let before = counters();
            feed(&f);
            let after = counters();
            drop(f);
            let retained = counters().0 - base_live;
            let allocated = after.1 - before.1;
            if retained > worst.0 {
                worst.0 = retained;
            }
            if allocated > worst.1 {
                worst.1 = allocated;
                worst.2 = i;
            }
            let h = &mut halves[if i < n / 2 { 0 } else { 1 }];
            h.0 = h.0.max(retained);
            h.1 = h.1.max(allocated);
            if retained > RETAINED_HARD {
                viol = Some((i, retained, allocated, "retained-memory-grows-with-the-segment-count"));
                break;
            }
            if allocated > PER_PACKET_HARD {
                viol = Some((i, retained, allocated, "work-per-packet-grows-with-the-segment-count"));
                break;
            }
        }
        if viol.is_none() && n >= 4 {
            let (a, b) = (halves[0], halves[1]);
            if b.0 > RETAINED_LIMIT && b.0 > a.0 + 64 * 1024 {
                viol = Some((n - 1, b.0, b.1, "retained-memory-grows-with-the-segment-count"));
            } else if b.1 > PER_PACKET_LIMIT && b.1 > a.1 + a.1 / 4 + 64 * 1024 {
                viol = Some((n - 1, b.0, b.1, "work-per-packet-grows-with-the-segment-count"));
            }
        }
        (worst, viol, halves)
    });
    r.exec(n as u64);
    let dir = if from_client { "client" } else { "server" };
    match res {
        Err(p) => r.dev(format!("C11/{analyzer}/panic"), "panic", || json!({"analyzer": analyzer, "kind": kind, "direction": dir, "segment_bytes": size, "segments": n, "detail": p})),
        Ok((worst, viol, halves)) => {
            r.outcome(&(analyzer, kind, dir, size, worst.0 / 4096, worst.1 / 4096));
            r.sample(|| json!({"analyzer": analyzer, "kind": kind, "direction": dir, "segments": n, "segment_bytes": size, "max_retained_bytes": worst.0, "max_allocated_per_packet": worst.1, "at_segment": worst.2}));
            if let Some((i, retained, allocated, class)) = viol {
                r.dev(format!("C11/{analyzer}/{kind}/{dir}/{size}-byte-segments/{class}"), class, || json!({"analyzer": analyzer, "kind": kind, "direction": dir, "segments": n, "segment_bytes": size, "seen_at_segment": i, "retained_bytes": retained, "allocated_per_packet": allocated, "first_half_max": {"retained": halves[0].0, "per_packet": halves[0].1}, "second_half_max": {"retained": halves[1].0, "per_packet": halves[1].1}, "limits": {"soft_retained": RETAINED_LIMIT, "soft_per_packet": PER_PACKET_LIMIT, "hard_retained": RETAINED_HARD, "hard_per_packet": PER_PACKET_HARD}}));
            }
        }
    }
}

/// more connections than the capacity: retained memory must stay below capacity x the per-connection limit
pub fn run_capacity(r: &mut Report, analyzer: &str, capacity: usize, extra: usize) {
    let d = crate::drv::db();
    let res = guarded(|| {
        let base = counters().0;
        let mut th;
        let mut hh;
        let mut lh;
        let mut feed: Box<dyn FnMut(&[u8])> = match analyzer {
            "tcp" => {
                th = TcpSeq::new(Some(d), capacity);
                Box::new(move |f| {
                    th.feed(f);
                })
            }
            "http" => {
                hh = HttpSeq::new(Some(d), capacity);
                Box::new(move |f| {
                    hh.feed(f);
                })
            }
            _ => {
                lh = TlsSeq::new(capacity);
                Box::new(move |f| {
                    lh.feed(f);
                })
            }
        };
        let mut at_capacity = 0isize;
        let mut worst = 0isize;
        for c in 0..(capacity + extra) {
            let (hi, lo) = ((c >> 8) as u8, c as u8);
            let mk = |flags: u8, seq: u32, payload: Vec<u8>, opts: Vec<u8>| {
                let mut ip = pkt::build(&Spec { src: 1, sport: 1024 + (c % 60000) as u16, dst: 2, dport: 443, flags, seq, ack: if flags & ACK != 0 { 1 } else { 0 }, payload, opts, ..Spec::default() });
                ip[13] = hi;
                ip[14] = lo;
                ip
            };
            feed(&mk(SYN, 1000, vec![], [vec![2, 4, 5, 0xb4], crate::props::c19::ts_opts(c as u32 + 1, 0)].concat()));
            // the server side of the connection too (its own timestamp entry, its own direction of every flow table)
            let mk_s = |flags: u8, seq: u32, payload: Vec<u8>, opts: Vec<u8>| {
                let mut ip = pkt::build(&Spec { src: 2, sport: 443, dst: 1, dport: 1024 + (c % 60000) as u16, flags, seq, ack: 1001, payload, opts, ..Spec::default() });
                ip[17] = hi;
                ip[18] = lo;
                ip
            };
            feed(&mk_s(SYN | ACK, 5000, vec![], [vec![2, 4, 5, 0xb4], crate::props::c19::ts_opts(c as u32 + 77, 1)].concat()));
            // (no timestamp on the data segment: a second timestamped segment would rewrite the entry through the evicting
            // path and hide an insertion that does not evict)
            feed(&mk_s(ACK | PSH, 5001, payload("http-head-never-ends", 0), vec![]));
            feed(&mk(ACK | PSH, 1001, payload("tls-record-declaring-65535-bytes", 0), vec![]));
            feed(&mk(ACK | PSH, 1001, payload("http-head-never-ends", 0), vec![]));
            worst = worst.max(counters().0 - base);
            if c + 1 == capacity {
                at_capacity = worst;
            }
        }
        (at_capacity, worst)
    });
    r.exec((capacity + extra) as u64 * 5);
    match res {
        Err(p) => r.dev(format!("C11/{analyzer}/panic"), "panic", || json!({"analyzer": analyzer, "capacity": capacity, "detail": p})),
        Ok((at_capacity, worst)) => {
            r.outcome(&(analyzer, capacity, worst / 65536));
            r.sample(|| json!({"analyzer": analyzer, "capacity": capacity, "connections": capacity + extra, "retained_with_capacity_connections": at_capacity, "max_retained_bytes": worst}));
            // connections beyond the capacity must replace earlier ones, not add to them
            let limit = at_capacity + at_capacity / 4 + 256 * 1024;
            if worst > limit {
                r.dev(format!("C11/{analyzer}/capacity-not-respected"), "capacity", || json!({"analyzer": analyzer, "capacity": capacity, "connections": capacity + extra, "retained_with_capacity_connections": at_capacity, "retained_bytes": worst, "limit": limit}));
            }
        }
    }
}

/// The analyzers' own tables, however the analyzer object was built: N > capacity connections are opened (SYN each) and
/// only then send their request; an analyzer that holds state for at most `capacity` connections can report at most
/// `capacity` of them, and every way of building a sequential HTTP analyzer for that capacity -- `new`, `with_config`
/// without `init_pool` (which falls back to the sequential path) for any worker count -- must report the same number.
fn run_capacity_routes(r: &mut Report) {
    let d = crate::drv::db_arc();
    // (the connections are opened by the client's SYN, or - capture started mid-handshake, asymmetric routing - the server's
    // SYN+ACK is the first segment seen of each)
    for (cap, opener) in [(1usize, "syn"), (2, "syn"), (8, "syn"), (1, "syn+ack"), (2, "syn+ack"), (8, "syn+ack")] {
        let n = cap * 4;
        let (sv_ip, sv_port) = (2u8, 80u16);
        let mut trace: Vec<Vec<u8>> = (0..n)
            .map(|c| {
                if opener == "syn" || c < cap {
                    pkt::build(&Spec { src: 1, sport: 41000 + c as u16, dst: sv_ip, dport: sv_port, flags: SYN, seq: 999, ..Spec::default() })
                } else {
                    pkt::build(&Spec { src: sv_ip, sport: sv_port, dst: 1, dport: 41000 + c as u16, flags: SYN | ACK, seq: 4999, ack: 1000, ..Spec::default() })
                }
            })
            .collect();
        // (second variant: the first `cap` connections are opened by their SYN, the 3 x cap later ones by a SYN+ACK; only the
        // first ones send their request - by then the table has been filled three times over, none of them may be known)
        for c in 0..(if opener == "syn" { n } else { cap }) {
            let req = format!("GET /{c} HTTP/1.1\r\nHost: c{c}.example\r\nUser-Agent: agent\r\n\r\n").into_bytes();
            trace.push(pkt::build(&Spec { src: 1, sport: 41000 + c as u16, dst: sv_ip, dport: sv_port, flags: ACK | PSH, seq: 1000, ack: 1, payload: req, ..Spec::default() }));
        }
        let count = |v: Result<Vec<crate::drv::HttpRes>, String>| v.map(|v| v.iter().filter(|x| x.request.is_some()).count());
        let reference = count(crate::drv::http_pcap(&trace, None, cap));
        let mut routes: Vec<(String, Result<Result<usize, String>, String>)> = vec![("new".into(), Ok(reference.clone()))];
        for workers in [1usize, 2, 4, 16] {
            let dd = d.clone();
            let t = &trace;
            routes.push((format!("with_config({workers} workers) without init_pool"), guarded(move || count(crate::drv::http_pcap_configured_sequential(t, dd, cap, workers)))));
        }
        let uni = guarded(|| crate::drv::uni_pcap(&trace, None, cap).map(|v| v.iter().filter(|x| x.http.request.is_some()).count()));
        routes.push(("unified".into(), uni));
        for (name, res) in routes {
            r.exec(trace.len() as u64);
            let ctx = || json!({"kind": "capacity-route", "route": name, "capacity": cap, "connections_open_at_once": n, "opened_by": opener});
            match res {
                Err(p) => r.dev("C11/capacity-route/panic", "panic", || json!({"ctx": ctx(), "detail": p})),
                Ok(Err(e)) => r.dev("C11/capacity-route/analysis-failed", "capacity", || json!({"ctx": ctx(), "detail": e})),
                Ok(Ok(k)) => {
                    r.outcome(&("capacity-route", &name, cap, k));
                    if k > cap || (opener != "syn" && k > 0) {
                        r.dev("C11/capacity-route/state-held-for-more-connections-than-the-capacity", "capacity", || json!({"ctx": ctx(), "connections_still_known_when_their_request_arrives": k}));
                    } else if Ok(k) != reference && name != "unified" {
                        r.dev("C11/capacity-route/routes-disagree", "capacity", || json!({"ctx": ctx(), "reported": k, "new_route_reported": format!("{reference:?}")}));
                    }
                }
            }
        }
    }
}

pub fn run(thorough: bool) -> Outcome {
    let n = if thorough { 1_000_000 } else { 16384 };
    let mut jobs: Vec<(String, String, bool, usize)> = vec![];
    for an in ["http", "tls", "tcp", "unified"] {
        for k in KINDS {
            for from_client in [true, false] {
                for size in SIZES {
                    jobs.push((an.to_string(), k.to_string(), from_client, size));
                }
            }
        }
    }
    let rep = par_slices(jobs.len(), jobs.len(), |rg| {
        let mut r = Report::new();
        for i in rg {
            run_chain(&mut r, &jobs[i].0, &jobs[i].1, jobs[i].2, if jobs[i].3 >= 9000 { n.min(JUMBO_SEGMENTS) } else { n }, jobs[i].3);
        }
        r
    });
    let mut total = rep;
    for an in ["tcp", "http", "tls"] {
        // (the long runs make a leak of ~100 bytes per connection visible above the 256 KiB slack)
        for (cap, extra) in [(1usize, 50usize), (8, 100), (64, 256), (1000, if thorough { 3000 } else { 1000 }), (8, if thorough { 200_000 } else { 30_000 })] {
            run_capacity(&mut total, an, cap, extra);
        }
    }
    run_capacity_routes(&mut total);
    Outcome {
        report: total,
        rule: "deterministic chains: SYN, SYN+ACK, then N segments (1400, 64, 1 or 16000 bytes each, same byte stream; jumbo chains stop at 4096 segments) of 20 never-fingerprinting traffic kinds (incl. heads of 4000 distinct header lines that do complete, and opaque data in one direction after the other direction was fingerprinted) (incl. many complete small records / frames / lines per segment) x both directions x 4 analyzers; after EVERY packet the bytes retained since the connection started and the bytes allocated while handling the packet are recorded (counting allocator, per thread): hard limits 8 MiB / 16 MiB at every step; above the soft limits (256 KiB retained, 1 MiB + 64 x segment size per packet) the second half of the chain must not exceed the first (retained + 64 KiB, per packet x 1.25 + 64 KiB); capacity families: capacity + k connections (k >= capacity) for capacities 1, 8, 64, 1000 (and 30 000 / 200 000 connections on capacity 8; every connection with timestamped segments of both sides) must not retain more than 1.25 x what `capacity` connections retain + 256 KiB; capacity routes: 4 x capacity connections opened before any sends its request, through analyze_pcap of HuginnNetHttp::new, with_config without init_pool (1, 2, 4, 16 workers) and the unified analyzer for capacities 1, 2, 8: at most `capacity` requests can be reported, and all HTTP routes agree; distinct = distinct (chain, peak) outcomes".into(),
        exhaustive: true,
        bounds: json!({"segments_per_chain": n, "segment_bytes": SIZES, "chains": jobs.len(), "retained_limit": RETAINED_LIMIT, "per_packet_limit": PER_PACKET_LIMIT}),
    }
}

pub fn replay(ex: &Value) -> Report {
    let mut r = Report::new();
    if ex["ctx"]["kind"].as_str() == Some("capacity-route") {
        run_capacity_routes(&mut r);
        return r;
    }
    match (ex["analyzer"].as_str(), ex["kind"].as_str()) {
        (Some(a), Some(k)) => run_chain(&mut r, a, k, ex["direction"].as_str() != Some("server"), ex["segments"].as_u64().unwrap_or(2048) as usize, ex["segment_bytes"].as_u64().unwrap_or(1400) as usize),
        (Some(a), None) => run_capacity(&mut r, a, ex["capacity"].as_u64().unwrap_or(8) as usize, 100),
        _ => r.machinery_error("bad replay file"),
    }
    r
}
