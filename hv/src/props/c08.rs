//! C08 — TLS ClientHello reassembly is segmentation-invariant and reports exactly once.
//! Every in-order partition (first segment >= 5 bytes) of each hello of a family is fed to (a) the incremental
//! reader, (b) the packet-level TLS pipeline on a fresh flow table; the oracle is differential: exactly one
//! result, on the completing segment, equal to the one-segment result; nothing before, nothing after, nothing
//! for records that are not a ClientHello.
use crate::drv::{tls_pcap, TlsRes, TlsSeq};
use crate::gen::pkt::{self, Spec, ACK, PSH};
use crate::gen::tls::{self, Ext, Hello};
use crate::props::c04::{obs_of_sig, Obs};
use crate::report::{guarded, hex, par_slices, Report};
use crate::Outcome;
use serde_json::{json, Value};

fn s(x: &str) -> String {
    x.to_string()
}
/// (name, stream bytes, length of the first record = completion point, is a ClientHello)
pub fn streams() -> Vec<(String, Vec<u8>, usize, bool)> {
    let mut v = vec![];
    let minimal = Hello { ciphers: vec![0x1301], sid: 0, ..Hello::default() };
    let typical = Hello { exts: vec![Ext::Sni(s("www.example.org")), Ext::Other(23, vec![]), Ext::Groups(vec![0x2a2a, 29, 23]), Ext::PointFormats(vec![0]), Ext::Alpn(vec![s("h2"), s("http/1.1")]), Ext::SigAlgs(vec![0x0403, 0x0804, 0x0401]), Ext::SupVer(vec![0x0a0a, 0x0304, 0x0303]), Ext::Other(51, vec![0, 2, 0, 29])], ..Hello::default() };
    let mut padded = typical.clone();
    let cur = tls::bytes(&padded).len();
    padded.exts.push(Ext::Other(21, vec![0; 517 - cur - 4]));
    let mut big = typical.clone();
    big.exts.push(Ext::Other(0x1234, vec![7; 1400]));
    let mut max = typical.clone();
    let cur = tls::handshake(&max).len();
    max.exts.push(Ext::Other(0x1234, vec![7; 16384 - cur - 4]));
    let tls10 = Hello { record_version: 0x0300, legacy: 0x0301, ..typical.clone() };
    // every record-layer version a ClientHello record may carry (0x0300 .. 0x0304), on a small hello
    let rv: Vec<(String, Hello)> = [0x0300u16, 0x0301, 0x0302, 0x0303, 0x0304].iter().map(|&v| (format!("record-version-{v:04x}-small"), Hello { record_version: v, exts: vec![Ext::Sni(s("rv.example")), Ext::SupVer(vec![0x0304, 0x0303])], ..Hello::default() })).collect();
    // (appended behind the others: positions 0 and 1 are "the minimal" and "the typical" hello for the deep families below)
    for (n, h) in [("minimal", &minimal), ("typical", &typical), ("padded517", &padded), ("big", &big), ("max-record", &max), ("record-version-0300", &tls10)].into_iter().chain(rv.iter().map(|(n, h)| (n.as_str(), h))) {
        let b = tls::bytes(h);
        let l = b.len();
        v.push((n.to_string(), b, l, true));
    }
    // opaque client-chosen fields (random, session id, an extension body) that contain bytes reading like the start of a
    // handshake record: a cut exactly in front of them must not restart anything
    {
        let mut h = typical.clone();
        h.exts.push(Ext::Other(0x0033, vec![0x16, 0x03, 0x04, 0x00, 0x20, 0x01, 0x00, 0x00, 0x1c, 0x03, 0x03, 0x16, 0x03, 0x00]));
        let mut b = tls::bytes(&h);
        b[11..17].copy_from_slice(&[0x16, 0x03, 0x01, 0x02, 0x00, 0x01]);
        b[44..50].copy_from_slice(&[0x16, 0x03, 0x03, 0x00, 0x40, 0x01]);
        b[60..65].copy_from_slice(&[0x16, 0x03, 0x02, 0xff, 0xff]);
        let l = b.len();
        v.push(("record-header-bytes-inside-opaque-fields".to_string(), b, l, true));
    }
    // hello followed by further records in the same stream
    let mut with_tail = tls::bytes(&typical);
    let l = with_tail.len();
    with_tail.extend(tls::record(0x14, 0x0303, &[1]));
    with_tail.extend(tls::record(0x17, 0x0303, &[9; 40]));
    v.push(("hello+ccs+appdata".into(), with_tail, l, true));
    // records that are not a ClientHello
    let server_hello = {
        let mut b = vec![0x03, 0x03];
        b.extend([5u8; 32]);
        b.push(0);
        b.extend([0x13, 0x01, 0]);
        let mut hs = vec![2, 0, 0, b.len() as u8];
        hs.extend(b);
        tls::record(0x16, 0x0303, &hs)
    };
    let l = server_hello.len();
    v.push(("server-hello".into(), server_hello, l, false));
    let alert = tls::record(0x15, 0x0303, &[2, 40]);
    let l = alert.len();
    v.push(("alert".into(), alert, l, false));
    let app = tls::record(0x17, 0x0303, &[1; 30]);
    let l = app.len();
    v.push(("application-data".into(), app, l, false));
    let cke = tls::record(0x16, 0x0303, &[16, 0, 0, 4, 1, 2, 3, 4]);
    let l = cke.len();
    v.push(("client-key-exchange".into(), cke, l, false));
    v
}

/// the typical hello followed by application-data records up to 65560 stream bytes
fn bulk_tail_stream() -> (String, Vec<u8>, usize) {
    let ss = streams();
    let mut b = ss[1].1.clone();
    let l = b.len();
    while b.len() < 65560 {
        let n = (65560 - b.len()).saturating_sub(5).min(16000);
        if n == 0 {
            b.resize(65560, 0);
            break;
        }
        b.extend(tls::record(0x17, 0x0303, &vec![9; n]));
    }
    ("typical+64KiB-of-application-data".to_string(), b, l)
}
fn reference_obs(stream: &[u8], rec_len: usize, is_hello: bool) -> Option<Obs> {
    if !is_hello {
        return None;
    }
    huginn_net_tls::parse_tls_client_hello(&stream[..rec_len]).ok().flatten().map(|s| obs_of_sig(&s))
}

/// cuts: strictly increasing positions in 1..len; segments are the pieces between them
fn pieces<'a>(stream: &'a [u8], cuts: &[usize]) -> Vec<&'a [u8]> {
    let mut out = vec![];
    let mut prev = 0;
    for &c in cuts {
        out.push(&stream[prev..c]);
        prev = c;
    }
    out.push(&stream[prev..]);
    out
}

fn check_partition(r: &mut Report, name: &str, stream: &[u8], rec_len: usize, exp: &Option<Obs>, cuts: &[usize], packet_level: bool) {
    let segs = pieces(stream, cuts);
    // index of the segment that completes the first record
    let mut acc = 0;
    let mut completing = None;
    for (i, p) in segs.iter().enumerate() {
        acc += p.len();
        if acc >= rec_len && completing.is_none() {
            completing = Some(i);
        }
    }
    let expected: Vec<Option<&Obs>> = (0..segs.len()).map(|i| if Some(i) == completing { exp.as_ref() } else { None }).collect();
    // (a) reader API
    r.exec(segs.len() as u64);
    let got = guarded(|| {
        let mut rd = huginn_net_tls::TlsClientHelloReader::new();
        segs.iter().map(|p| rd.add_bytes(p).ok().flatten().map(|s| obs_of_sig(&s))).collect::<Vec<_>>()
    });
    match got {
        Err(p) => r.dev("C08/panic", "panic", || json!({"stream": name, "cuts": cuts, "route": "reader", "detail": p})),
        Ok(g) => {
            r.outcome(&(name, g.iter().map(|x| x.is_some()).collect::<Vec<_>>()));
            if g.iter().map(|x| x.as_ref()).collect::<Vec<_>>() != expected {
                let class = classify(&g, &expected);
                r.dev(format!("C08/reader/{class}"), class, || json!({"stream": name, "stream_hex": hex(&stream[..stream.len().min(600)]), "cuts": cuts, "route": "reader", "expected_on_segment": completing, "got_on_segments": g.iter().enumerate().filter(|(_, x)| x.is_some()).map(|(i, _)| i).collect::<Vec<_>>()}));
            }
        }
    }
    if !packet_level {
        return;
    }
    // (b) packet-level pipeline, fresh flow table
    r.exec(segs.len() as u64);
    let mut seq = 1000u32;
    let frames: Vec<Vec<u8>> = segs
        .iter()
        .map(|p| {
            let f = pkt::build(&Spec { flags: ACK | PSH, seq, ack: 1, payload: p.to_vec(), sport: 40001, dport: 443, ..Spec::default() });
            seq = seq.wrapping_add(p.len() as u32);
            f
        })
        .collect();
    // the same segments as they look in a whole connection: after the SYN, and with FIN on the segment that carries the
    // last byte (a client that sends its hello and half-closes); the result must not depend on either
    let shape = (cuts.iter().sum::<usize>() + cuts.len()) % 4;
    let shape_name = ["data only", "after SYN", "after SYN, FIN on the last segment", "after SYN and SYN+ACK, the SYN+ACK repeated behind the first data segment"][shape];
    let mut frames = frames;
    if shape == 2 {
        if let Some(l) = frames.last_mut() {
            let off = if l[0] >> 4 == 6 { 40 } else { (l[0] & 0x0f) as usize * 4 };
            l[off + 13] |= 0x01;
        }
    }
    // ... nor on bytes that follow the IP packet inside the captured frame (Ethernet padding of short segments, a
    // captured frame check sequence): every other partition is delivered that way
    let trailer = (cuts.iter().sum::<usize>() + cuts.len()) % 2 == 1;
    if trailer {
        frames = frames.iter().map(|f| pkt::ethernet_with_trailer(f)).collect();
    }
    let got = guarded(|| {
        let mut a = TlsSeq::new(8);
        if shape >= 1 {
            let _ = a.feed(&pkt::build(&Spec { flags: crate::gen::pkt::SYN, seq: 999, sport: 40001, dport: 443, opts: vec![2, 4, 5, 0xb4], ..Spec::default() }));
        }
        let synack = pkt::build(&Spec { src: 2, dst: 1, flags: crate::gen::pkt::SYN | ACK, seq: 4999, ack: 1000, sport: 443, dport: 40001, opts: vec![2, 4, 5, 0xb4], ..Spec::default() });
        if shape == 3 {
            let _ = a.feed(&synack);
        }
        frames
            .iter()
            .enumerate()
            .map(|(i, f)| {
                let x = a.feed(f);
                if shape == 3 && i == 0 {
                    let _ = a.feed(&synack);
                }
                x
            })
            .collect::<Vec<TlsRes>>()
    });
    match got {
        Err(p) => r.dev("C08/panic", "panic", || json!({"stream": name, "cuts": cuts, "route": "packets", "detail": p})),
        Ok(g) => {
            let ok = g.iter().enumerate().all(|(i, x)| match (expected[i], x.is_empty()) {
                (None, true) => true,
                (Some(e), false) => x.ja4.as_deref() == Some(&e.ja4.0) && x.ja4_r.as_deref() == Some(&e.ja4.1) && x.ja4_o.as_deref() == Some(&e.ja4_o.0) && x.ja4_ro.as_deref() == Some(&e.ja4_o.1) && x.src.as_deref() == Some("10.0.0.1:40001") && x.dst.as_deref() == Some("10.0.0.2:443"),
                _ => false,
            });
            if !ok {
                let gi: Vec<usize> = g.iter().enumerate().filter(|(_, x)| !x.is_empty()).map(|(i, _)| i).collect();
                let class = if gi.is_empty() && completing.is_some() && exp.is_some() {
                    "no-result"
                } else if gi.len() > 1 {
                    "more-than-one-result"
                } else if gi.first().copied() != completing || exp.is_none() {
                    "result-on-wrong-segment-or-for-non-hello"
                } else {
                    "result-differs-from-single-segment"
                };
                r.dev(format!("C08/packets/{class}"), class, || json!({"stream": name, "cuts": cuts, "route": "packets", "shape": shape_name, "ethernet_frames_with_padding_and_fcs": trailer, "expected_on_segment": completing, "got_on_segments": gi}));
            }
        }
    }
}
fn classify(g: &[Option<Obs>], expected: &[Option<&Obs>]) -> &'static str {
    let n = g.iter().filter(|x| x.is_some()).count();
    let e = expected.iter().filter(|x| x.is_some()).count();
    if n == 0 && e == 1 {
        "no-result"
    } else if n > 1 {
        "more-than-one-result"
    } else if g.iter().position(|x| x.is_some()) != expected.iter().position(|x| x.is_some()) {
        "result-on-wrong-segment-or-for-non-hello"
    } else {
        "result-differs-from-single-segment"
    }
}

/// enumerate cut sets: all k-subsets of positions in lo..len (strictly increasing)
fn for_each_cuts(len: usize, lo: usize, k: usize, stride: usize, f: &mut dyn FnMut(&[usize])) {
    fn rec(len: usize, start: usize, k: usize, stride: usize, cur: &mut Vec<usize>, f: &mut dyn FnMut(&[usize])) {
        if k == 0 {
            f(cur);
            return;
        }
        let mut p = start;
        while p < len {
            cur.push(p);
            rec(len, p + 1, k - 1, stride, cur, f);
            cur.pop();
            p += stride;
        }
    }
    rec(len, lo, k, stride, &mut vec![], f);
}

pub fn run(thorough: bool) -> Outcome {
    let ss = streams();
    // work items: (stream index, number of cuts, first cut) so that slices are balanced
    let mut items: Vec<(usize, usize, usize)> = vec![];
    for (si, (_n, b, _l, _h)) in ss.iter().enumerate() {
        items.push((si, 0, 0));
        let small = b.len() <= 600;
        for first in 5..b.len() {
            items.push((si, 1, first));
            if small || thorough && b.len() <= 2000 {
                items.push((si, 2, first));
            }
        }
    }
    let rep = par_slices(items.len(), 512, |rg| {
        let mut r = Report::new();
        for i in rg {
            let (si, k, first) = items[i];
            let (name, b, rec_len, is_hello) = &ss[si];
            let exp = reference_obs(b, *rec_len, *is_hello);
            if *is_hello && exp.is_none() {
                r.machinery_error(format!("family hello {name} does not parse in one piece"));
                continue;
            }
            match k {
                0 => check_partition(&mut r, name, b, *rec_len, &exp, &[], true),
                1 => check_partition(&mut r, name, b, *rec_len, &exp, &[first], true),
                _ => {
                    for second in (first + 1)..b.len() {
                        check_partition(&mut r, name, b, *rec_len, &exp, &[first, second], true);
                    }
                }
            }
            if i % 5003 == 0 {
                r.sample(|| json!({"stream": name, "length": b.len(), "record_length": rec_len, "cuts_k": k, "first_cut": first}));
            }
        }
        r
    });
    let mut total = rep;
    // long hellos: 3-partitions at field boundaries +-1; the all-1-byte-after-header partition
    for (name, b, rec_len, is_hello) in &ss {
        if b.len() <= 600 {
            continue;
        }
        let exp = reference_obs(b, *rec_len, *is_hello);
        let marks: Vec<usize> = [5usize, 6, 9, 10, 11, 43, 44, 45, 76, 77, 78, 79, 80, 100, 101, b.len() / 2, rec_len - 2, rec_len - 1].iter().copied().filter(|&x| x >= 5 && x < b.len()).collect();
        for &a in &marks {
            for &c in &marks {
                if a < c {
                    check_partition(&mut total, name, b, *rec_len, &exp, &[a, c], true);
                }
            }
        }
    }
    // the segment that completes the hello also carries as much further data as an IP packet can hold (more than 64 KiB
    // reach the reader before it has answered)
    {
        let (name, b, rec_len) = bulk_tail_stream();
        let exp = reference_obs(&b, rec_len, true);
        for cuts in [vec![100usize], vec![rec_len / 2], vec![rec_len - 1], vec![70, rec_len + 30_000], vec![rec_len - 1, rec_len + 1]] {
            check_partition(&mut total, &name, &b, rec_len, &exp, &cuts, true);
        }
    }
    for (name, b, rec_len, is_hello) in &ss {
        if b.len() > 2000 {
            continue;
        }
        let exp = reference_obs(b, *rec_len, *is_hello);
        let cuts: Vec<usize> = (5..b.len()).collect();
        check_partition(&mut total, name, b, *rec_len, &exp, &cuts, true);
    }
    // n-partitions of the minimal hello (reader + packets)
    let (name, b, rec_len, is_hello) = &ss[0];
    let exp = reference_obs(b, *rec_len, *is_hello);
    let maxk = if thorough { 6 } else { 3 };
    for k in 3..=maxk {
        let firsts: Vec<usize> = (5..b.len()).collect();
        let rep = par_slices(firsts.len(), firsts.len(), |rg| {
            let mut r = Report::new();
            for i in rg {
                let first = firsts[i];
                for_each_cuts(b.len(), first + 1, k - 1, 1, &mut |rest| {
                    let mut cuts = vec![first];
                    cuts.extend_from_slice(rest);
                    check_partition(&mut r, name, b, *rec_len, &exp, &cuts, k <= 3);
                });
            }
            r
        });
        total = total.merge(rep);
    }
    // the analyzer's own per-packet path (analyze_pcap) on every 2-partition of the typical hello
    let (name, b, rec_len, is_hello) = &ss[1];
    let exp = reference_obs(b, *rec_len, *is_hello);
    for cut in 5..b.len() {
        let frames: Vec<Vec<u8>> = vec![
            pkt::build(&Spec { flags: ACK | PSH, seq: 1000, ack: 1, payload: b[..cut].to_vec(), sport: 40001, dport: 443, ..Spec::default() }),
            pkt::build(&Spec { flags: ACK | PSH, seq: 1000 + cut as u32, ack: 1, payload: b[cut..].to_vec(), sport: 40001, dport: 443, ..Spec::default() }),
        ];
        total.exec(2);
        match tls_pcap(&frames, None, 8) {
            Ok(v) if v.len() == 1 && v[0].ja4_r.as_deref() == exp.as_ref().map(|e| e.ja4.1.as_str()) => {}
            other => total.dev("C08/analyze_pcap/result-count-or-content", "analyze_pcap", || json!({"stream": name, "cuts": [cut], "route": "analyze_pcap", "got": format!("{:?}", other.map(|v| v.len()))})),
        }
    }
    // a slow client: the reader of a flow lives 20 s of REAL time, so two segments 150 ms apart are one ClientHello
    {
        let cut = b.len() / 2;
        let f1 = pkt::build(&Spec { flags: ACK | PSH, seq: 1000, ack: 1, payload: b[..cut].to_vec(), sport: 40001, dport: 443, ..Spec::default() });
        let f2 = pkt::build(&Spec { flags: ACK | PSH, seq: 1000 + cut as u32, ack: 1, payload: b[cut..].to_vec(), sport: 40001, dport: 443, ..Spec::default() });
        total.exec(2);
        let got = guarded(|| {
            let mut a = TlsSeq::new(8);
            let x = a.feed(&f1);
            std::thread::sleep(std::time::Duration::from_millis(150));
            (x, a.feed(&f2))
        });
        match got {
            Ok((x, y)) if x.is_empty() && y.ja4_r.as_deref() == exp.as_ref().map(|e| e.ja4.1.as_str()) => {}
            other => total.dev("C08/packets/slow-connection", "slow", || json!({"stream": name, "cuts": [cut], "route": "packets", "detail": "segments 150 ms of real time apart", "got": format!("{:?}", other.map(|(x, y)| (x.ja4, y.ja4)))})),
        }
    }
    Outcome {
        report: total,
        rule: "every in-order partition with first segment >= 5 bytes: all 2-partitions of every stream (12 hellos up to the 16 KiB record incl. every record-layer version 0x0300..0x0304, one whose random, session id and an extension body contain bytes that read like handshake record headers, hello followed by CCS+application data, 4 non-hello records), all 3-partitions of streams <= 600 B (<= 2000 B thorough), field-boundary 3-partitions of long hellos, the all-1-byte partition, all k-partitions (k <= 4, 6 thorough) of the minimal hello; reader API and packet-level pipeline (fresh flow table), analyze_pcap on every 2-partition of the typical hello; packet route also after a SYN and with FIN on the last segment; one hello with 150 ms of real time between its segments; distinct = distinct (stream, per-segment result pattern)".into(),
        exhaustive: true,
        bounds: json!({"streams": ss.iter().map(|x| (x.0.clone(), x.1.len())).collect::<Vec<_>>(), "max_parts_minimal_hello": maxk + 1}),
    }
}

pub fn replay(ex: &Value) -> Report {
    let mut r = Report::new();
    let ss = streams();
    let name = ex["stream"].as_str().unwrap_or("");
    let cuts: Vec<usize> = ex["cuts"].as_array().map(|a| a.iter().filter_map(|x| x.as_u64().map(|y| y as usize)).collect()).unwrap_or_default();
    if name == "typical+64KiB-of-application-data" {
        let (n, b, l) = bulk_tail_stream();
        let exp = reference_obs(&b, l, true);
        check_partition(&mut r, &n, &b, l, &exp, &cuts, true);
        return r;
    }
    match ss.iter().find(|x| x.0 == name) {
        Some((n, b, l, h)) => {
            let exp = reference_obs(b, *l, *h);
            check_partition(&mut r, n, b, *l, &exp, &cuts, true)
        }
        None => r.machinery_error("bad replay file"),
    }
    r
}
