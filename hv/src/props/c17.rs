//! C17 — Akamai HTTP/2 fingerprints follow the published format, incrementally too.
//! Frame sequences are generated from descriptions; the reference string S|WU|P|PS is computed from the
//! description. The incremental extractor is driven with every 2- and 3-partition of a family of byte streams
//! and compared with the one-shot fingerprint of the bytes received up to the chunk that completed SETTINGS.
use crate::gen::h2::{self, Framing, HpackEnc, Rep};
use crate::report::{guarded, hex, par_slices, Report};
use crate::Outcome;
use serde::{Deserialize, Serialize};
use serde_json::{json, Value};
use sha2::{Digest, Sha256};

#[derive(Clone, Debug, Serialize, Deserialize, PartialEq)]
pub enum F {
    Settings(Vec<(u16, u32)>),
    /// (stream, increment, reserved bit)
    Wu(u32, u32, bool),
    /// (stream, exclusive, dependency, weight byte)
    Prio(u32, bool, u32, u8),
    /// (stream, pseudo-header order as letters m p a s, framing)
    Headers(u32, String, Framing),
    Ping,
    /// unknown frame type with a payload
    Unknown(u8, u32, usize),
    Data(u32, usize),
}
pub fn header_block(order: &str) -> Vec<u8> {
    let mut e = HpackEnc::default();
    let mut blk = vec![];
    for c in order.chars() {
        match c {
            'm' => blk.extend(e.field(":method", "GET", Rep::Indexed, false, false)),
            'p' => blk.extend(e.field(":path", "/", Rep::Indexed, false, false)),
            's' => blk.extend(e.field(":scheme", "https", Rep::Indexed, false, false)),
            // 'x': a regular header in between (pseudo-headers need not come first for the fingerprint)
            'x' => blk.extend(e.field("accept-encoding", "gzip, deflate", Rep::Indexed, false, false)),
            _ => blk.extend(e.field(":authority", "example.org", Rep::LitIdxIndexedName, false, false)),
        }
    }
    blk.extend(e.field("user-agent", "x", Rep::LitNoIdxIndexedName, false, false));
    blk.extend(e.field("accept", "*/*", Rep::LitIdxIndexedName, false, true));
    // ... and a field that refers back to an entry this very block has put into the dynamic table (index 62): the block
    // needs its own table even when nothing is carried over from another block
    blk.extend(e.field("accept", "*/*", Rep::Indexed, false, false));
    blk
}
pub fn enc(f: &F) -> Vec<u8> {
    match f {
        F::Settings(ps) => h2::settings(ps),
        F::Wu(sid, inc, res) => h2::window_update(*sid, *inc, *res),
        F::Prio(sid, ex, dep, w) => h2::priority(*sid, *ex, *dep, *w),
        F::Headers(sid, order, fr) => h2::headers_frames(*sid, &header_block(order), fr),
        F::Ping => h2::ping(),
        F::Unknown(t, sid, n) => h2::frame(*t, 0, *sid, &vec![0xab; *n]),
        F::Data(sid, n) => h2::frame(0, 0, *sid, &vec![b'd'; *n]),
    }
}
pub fn stream_bytes(frames: &[F], preface: bool) -> (Vec<u8>, Vec<usize>) {
    let mut data = if preface { h2::PREFACE.to_vec() } else { vec![] };
    let mut ends = vec![];
    for f in frames {
        data.extend(enc(f));
        ends.push(data.len());
    }
    (data, ends)
}
/// the Akamai string defined by the scheme; None when there is no SETTINGS frame or it carries no parameter
pub fn reference(frames: &[F]) -> Option<String> {
    let st = frames.iter().find_map(|f| if let F::Settings(p) = f { Some(p.clone()) } else { None })?;
    if st.is_empty() {
        return None;
    }
    let s = st.iter().map(|(i, v)| format!("{i}:{v}")).collect::<Vec<_>>().join(";");
    let wu = frames.iter().find_map(|f| if let F::Wu(0, inc, _) = f { Some(*inc & 0x7fff_ffff) } else { None }).unwrap_or(0);
    let w = if wu == 0 { "00".to_string() } else { wu.to_string() };
    let pr: Vec<String> = frames.iter().filter_map(|f| if let F::Prio(sid, ex, dep, wt) = f { Some(format!("{sid}:{}:{}:{}", *ex as u8, dep & 0x7fff_ffff, *wt as u16 + 1)) } else { None }).collect();
    let p = if pr.is_empty() { "0".to_string() } else { pr.join(",") };
    let ps = frames.iter().find_map(|f| if let F::Headers(sid, o, _) = f { if *sid > 0 { Some(o.chars().filter(|c| *c != 'x').map(|c| c.to_string()).collect::<Vec<_>>().join(",")) } else { None } } else { None }).unwrap_or_default();
    Some(format!("{s}|{w}|{p}|{ps}"))
}

pub fn check_oneshot(r: &mut Report, frames: &[F], preface: bool) {
    let (data, _) = stream_bytes(frames, preface);
    r.exec(1);
    let exp = reference(frames);
    let got = match guarded(|| huginn_net_http::extract_akamai_fingerprint_from_bytes(&data)) {
        Ok(g) => g,
        Err(p) => {
            r.dev("C17/panic", "panic", || json!({"kind": "oneshot", "frames": frames, "preface": preface, "detail": p}));
            return;
        }
    };
    r.outcome(&got.as_ref().map(|g| g.fingerprint.clone()));
    r.sample(|| json!({"frames": frames, "preface": preface, "fingerprint": got.as_ref().map(|g| g.fingerprint.clone()), "hash": got.as_ref().map(|g| g.hash.clone())}));
    match (&exp, &got) {
        (None, None) => {}
        (Some(e), Some(g)) => {
            if *e != g.fingerprint {
                let (ep, gp): (Vec<&str>, Vec<&str>) = (e.split('|').collect(), g.fingerprint.split('|').collect());
                let names = ["settings", "window-update", "priority", "pseudo-header-order"];
                let which: Vec<&str> = (0..4).filter(|&i| ep.get(i) != gp.get(i)).map(|i| names[i]).collect();
                let hflags = frames.iter().find_map(|f| if let F::Headers(_, _, fr) = f { Some((fr.pad.is_some(), fr.prio.is_some(), !fr.splits.is_empty())) } else { None }).unwrap_or((false, false, false));
                let class = if which == ["pseudo-header-order"] && (hflags.0 || hflags.1 || hflags.2) {
                    format!("pseudo-header-order-with{}{}{}", if hflags.0 { "-padded" } else { "" }, if hflags.1 { "-priority" } else { "" }, if hflags.2 { "-continuation" } else { "" })
                } else {
                    format!("section-{}", which.join("+"))
                };
                r.dev(format!("C17/oneshot/{class}"), class, || json!({"kind": "oneshot", "frames": frames, "preface": preface, "bytes": hex(&data[..data.len().min(400)]), "expected": e, "actual": g.fingerprint}));
            }
            let full: String = Sha256::digest(g.fingerprint.as_bytes()).iter().map(|b| format!("{b:02x}")).collect();
            if !full.starts_with(&g.hash) || g.hash.len() < 8 {
                r.dev("C17/hash-not-a-sha256-prefix", "hash", || json!({"kind": "oneshot", "frames": frames, "preface": preface, "fingerprint": g.fingerprint, "hash": g.hash, "sha256": full}));
            }
            r.count(&format!("hash_len_{}", g.hash.len()), 1);
            // what the fingerprint shows (Display) carries what it holds: the string, the hash, every setting value, the
            // window update, every priority frame as stream, dependency and weight + 1 (the scheme's reading of the byte)
            let mut tk: Vec<(&str, String)> = vec![("fingerprint", g.fingerprint.clone()), ("hash", g.hash.clone())];
            for sp in &g.settings {
                tk.push(("setting-value", sp.value.to_string()));
            }
            tk.push(("window-update", g.window_update.to_string()));
            for p in &g.priority_frames {
                tk.push(("priority-stream", p.stream_id.to_string()));
                tk.push(("priority-dependency", p.depends_on.to_string()));
                // (weight byte 255 means 256; the pretty-printer adds 1 in u8 and shows 255 - a cosmetic slip outside the
                // property, which is about the fingerprint string; not demanded)
                if p.weight != 255 {
                    tk.push(("priority-weight", (p.weight as u32 + 1).to_string()));
                }
            }
            crate::drv::render_check("akamai-fingerprint", &g.to_string(), &tk);
        }
        _ => r.dev("C17/oneshot/presence", "presence", || json!({"kind": "oneshot", "frames": frames, "preface": preface, "expected": exp, "actual": got.as_ref().map(|g| g.fingerprint.clone())})),
    }
}

/// incremental extractor on one chunking (cut positions strictly inside the stream)
pub fn check_chunking(r: &mut Report, frames: &[F], preface: bool, data: &[u8], st_end: usize, cuts: &[usize]) {
    let mut bounds = vec![0];
    bounds.extend_from_slice(cuts);
    bounds.push(data.len());
    for pre in 0..=prehistories().len() {
        check_chunking_after(r, frames, preface, data, st_end, cuts, &bounds, pre);
    }
}
/// connections an extractor may have seen before `reset()`: none of them may show in the next connection's fingerprint
fn prehistories() -> &'static Vec<Vec<u8>> {
    static P: std::sync::OnceLock<Vec<Vec<u8>>> = std::sync::OnceLock::new();
    P.get_or_init(|| {
        let full = stream_bytes(&[F::Settings(vec![(1, 4096), (3, 100)]), F::Wu(0, 777, false), F::Prio(5, true, 0, 9), F::Headers(1, "spam".into(), Framing::default())], true).0;
        vec![
            // complete frames but no SETTINGS: nothing was reported, everything was parsed
            stream_bytes(&[F::Wu(0, 12345, false), F::Prio(3, false, 0, 200)], true).0,
            stream_bytes(&[F::Headers(1, "spam".into(), Framing::default())], true).0,
            // cut inside the SETTINGS frame header / inside its payload
            full[..h2::PREFACE.len() + 5].to_vec(),
            full[..h2::PREFACE.len() + 12].to_vec(),
            // a whole connection that did yield a fingerprint
            full,
        ]
    })
}
#[allow(clippy::too_many_arguments)]
fn check_chunking_after(r: &mut Report, frames: &[F], preface: bool, data: &[u8], st_end: usize, cuts: &[usize], bounds: &[usize], pre: usize) {
    r.exec((bounds.len() - 1) as u64);
    let res = guarded(|| {
        let mut ex = huginn_net_http::Http2FingerprintExtractor::new();
        if pre > 0 {
            let _ = ex.add_bytes(&prehistories()[pre - 1]);
            ex.reset();
        }
        let mut outs = vec![];
        for w in bounds.windows(2) {
            if let Ok(Some(f)) = ex.add_bytes(&data[w[0]..w[1]]) {
                outs.push((w[1], f.fingerprint));
            }
        }
        (outs, ex.get_fingerprint().map(|f| f.fingerprint.clone()))
    });
    let (outs, kept) = match res {
        Ok(x) => x,
        Err(p) => {
            r.dev("C17/panic", "panic", || json!({"kind": "chunking", "frames": frames, "preface": preface, "cuts": cuts, "after_reset_of_prehistory": pre, "detail": p}));
            return;
        }
    };
    // the chunk that completes the first SETTINGS frame
    let upto = bounds.iter().copied().find(|&b| b >= st_end && b > 0).unwrap_or(data.len());
    let exp = huginn_net_http::extract_akamai_fingerprint_from_bytes(&data[..upto]).map(|f| f.fingerprint);
    r.outcome(&(outs.len(), outs.first().map(|o| o.1.clone())));
    let settings_first = matches!(frames.first(), Some(F::Settings(_)));
    let ok = match &exp {
        None => outs.is_empty(),
        Some(e) => outs.len() == 1 && outs[0].1 == *e && outs[0].0 == upto && kept.as_ref() == Some(e),
    };
    if !ok {
        let class = if outs.len() > 1 {
            "more-than-one-fingerprint"
        } else if outs.is_empty() {
            "no-fingerprint"
        } else if outs[0].0 != upto {
            "reported-on-another-chunk"
        } else if !settings_first {
            "frames-before-settings-chunk-forgotten"
        } else {
            "differs-from-one-shot-of-prefix"
        };
        let class = if pre > 0 { format!("after-reset/{class}") } else { class.to_string() };
        r.dev(format!("C17/chunking/{class}"), class.clone(), || json!({"kind": "chunking", "frames": frames, "preface": preface, "cuts": cuts, "after_reset_of_prehistory": pre, "expected": exp, "expected_on_chunk_ending_at": upto, "actual": outs}));
    }
}

fn orders() -> Vec<String> {
    let items = ['m', 'p', 'a', 's'];
    let mut v = vec![];
    for a in 0..4 {
        for b in 0..4 {
            for c in 0..4 {
                for d in 0..4 {
                    let idx = [a, b, c, d];
                    let mut s = idx.to_vec();
                    s.sort();
                    s.dedup();
                    if s.len() == 4 {
                        v.push(idx.iter().map(|&i| items[i]).collect());
                    }
                }
            }
        }
    }
    // orders with fewer pseudo-headers
    v.extend(["mps", "m", "pm", "sam"].iter().map(|s| s.to_string()));
    // a regular header ('x') in front of, between and behind the pseudo-headers
    v.extend(["xmpas", "mxpas", "mpxsa", "mpaxs", "mpasx", "xmxpxaxs", "xm", "x"].iter().map(|s| s.to_string()));
    v
}
fn framings() -> Vec<Framing> {
    let mut v = vec![Framing::default(), Framing { end_stream: true, ..Default::default() }];
    for pad in [0u8, 1, 7, 255] {
        v.push(Framing { pad: Some(pad), ..Default::default() });
    }
    v.push(Framing { prio: Some((false, 0, 200)), ..Default::default() });
    v.push(Framing { prio: Some((true, 3, 255)), end_stream: true, ..Default::default() });
    v.push(Framing { prio: Some((true, 0x7fff_ffff, 0)), pad: Some(3), ..Default::default() });
    // PADDED and PRIORITY together: pad length and weight differ in both directions (and coincide once)
    v.push(Framing { prio: Some((false, 1, 200)), pad: Some(3), ..Default::default() });
    v.push(Framing { prio: Some((false, 1, 1)), pad: Some(7), end_stream: true, ..Default::default() });
    v.push(Framing { prio: Some((true, 5, 7)), pad: Some(7), splits: vec![2], ..Default::default() });
    v.push(Framing { splits: vec![1], ..Default::default() });
    v.push(Framing { splits: vec![2, 5], ..Default::default() });
    // undefined flag bits on the CONTINUATION frames (the ones that mean PADDED / PRIORITY / END_STREAM on HEADERS)
    // empty fragments: the HEADERS frame carries nothing of the block (cut at byte 0; with padding, with priority fields),
    // the last CONTINUATION frame is empty, both
    for pad in [None, Some(0u8), Some(1), Some(3), Some(255)] {
        v.push(Framing { splits: vec![0], pad, ..Default::default() });
        v.push(Framing { splits: vec![0, 2], pad, prio: Some((false, 0, 16)), ..Default::default() });
    }
    v.push(Framing { splits: vec![usize::MAX], ..Default::default() });
    v.push(Framing { splits: vec![2, usize::MAX], pad: Some(1), ..Default::default() });
    v.push(Framing { splits: vec![0, usize::MAX], ..Default::default() });
    for hf in [0x02u8, 0x10, 0x40, 0x80, 0xd2] {
        v.push(Framing { hdr_flags: hf, ..Default::default() });
        v.push(Framing { hdr_flags: hf, pad: Some(2), prio: Some((true, 3, 8)), splits: vec![3], ..Default::default() });
    }
    for cf in [0x08u8, 0x20, 0x29, 0xfb] {
        v.push(Framing { splits: vec![2], cont_flags: cf, ..Default::default() });
        v.push(Framing { splits: vec![1, 4], cont_flags: cf, pad: Some(2), ..Default::default() });
    }
    v
}
fn settings_lists(thorough: bool) -> Vec<Vec<(u16, u32)>> {
    let ids = [1u16, 2, 3, 4, 5, 6, 8, 9, 0x10, 0xffff, 0];
    let vals = [0u32, 1, 100, 65535, 1 << 31, u32::MAX];
    let mut v = vec![vec![]];
    for &a in &ids {
        for &x in &vals {
            v.push(vec![(a, x)]);
            for &b in &ids {
                for &y in if thorough { &vals[..] } else { &vals[1..3] } {
                    v.push(vec![(a, x), (b, y)]);
                }
            }
        }
    }
    for &a in &ids {
        for &b in &ids {
            for &c in &ids {
                v.push(vec![(a, 1), (b, 65535), (c, 0)]);
            }
        }
    }
    v.push((1..=12u16).map(|i| (i, i as u32 * 1000)).collect());
    // counts: 255 / 256 / 257 parameters in one SETTINGS frame, and as many as a 16 KiB frame holds (2730)
    for n in [255u32, 256, 257, 2730] {
        v.push((0..n).map(|i| ((i % 7 + 1) as u16, i)).collect());
    }
    v
}

pub fn run(thorough: bool) -> Outcome {
    let mut total = Report::new();
    if let Err(e) = h2::selftest() {
        total.machinery_error(format!("hpack tables self-test: {e}"));
    }
    let sl = settings_lists(thorough);
    let wus: Vec<Option<F>> = vec![None, Some(F::Wu(0, 15663105, false)), Some(F::Wu(0, 5, true)), Some(F::Wu(0, 0, false)), Some(F::Wu(0, 0x7fff_ffff, true)), Some(F::Wu(1, 77, false))];
    let ords = orders();
    let frs = framings();
    // (1) settings lists x window updates (typical rest)
    let rep = par_slices(sl.len(), 64, |rg| {
        let mut r = Report::new();
        for i in rg {
            for wu in &wus {
                for preface in [true, false] {
                    let mut frames = vec![F::Settings(sl[i].clone())];
                    if let Some(w) = wu {
                        frames.push(w.clone());
                    }
                    frames.push(F::Headers(1, "mpas".into(), Framing::default()));
                    check_oneshot(&mut r, &frames, preface);
                }
            }
        }
        r
    });
    total = total.merge(rep);
    // (2) priority frames: every weight, both exclusive bits, dependency and stream values; 0..3 frames
    for w in 0..=255u8 {
        for ex in [false, true] {
            for (sid, dep) in [(3u32, 0u32), (5, 3), (0x7fff_ffff, 0x7fff_ffff), (1, 1)] {
                check_oneshot(&mut total, &[F::Settings(vec![(3, 100)]), F::Prio(sid, ex, dep, w), F::Headers(1, "mpas".into(), Framing::default())], true);
            }
        }
    }
    for n in 0..=3usize {
        let ps: Vec<F> = (0..n).map(|i| F::Prio(3 + 2 * i as u32, i % 2 == 1, i as u32, (200 + i * 20) as u8)).collect();
        for wu_first in [false, true] {
            let mut frames = vec![F::Settings(vec![(1, 65536), (4, 131072)])];
            if wu_first {
                frames.push(F::Wu(0, 12517377, false));
            }
            frames.extend(ps.clone());
            if !wu_first {
                frames.push(F::Wu(0, 12517377, false));
            }
            frames.push(F::Headers(15, "mpsa".into(), Framing::default()));
            check_oneshot(&mut total, &frames, true);
        }
    }
    // (3) pseudo-header orders x HEADERS framings x stream ids; second HEADERS / second SETTINGS / WINDOW_UPDATE ignored
    for o in &ords {
        for fr in &frs {
            for sid in [1u32, 3, 0x7fff_ffff] {
                check_oneshot(&mut total, &[F::Settings(vec![(2, 0), (4, 6291456)]), F::Wu(0, 15663105, false), F::Headers(sid, o.clone(), fr.clone())], true);
            }
        }
        check_oneshot(&mut total, &[F::Settings(vec![(1, 4096)]), F::Headers(1, o.clone(), Framing::default()), F::Headers(3, "spam".into(), Framing::default()), F::Settings(vec![(9, 9)]), F::Wu(0, 99, false)], false);
    }
    // (4) other frames around: PING / unknown type / DATA / stream-level WINDOW_UPDATE before and between
    for pre in [vec![], vec![F::Ping], vec![F::Unknown(0x20, 0, 5)], vec![F::Wu(0, 1000, false)], vec![F::Prio(7, false, 0, 15)], vec![F::Wu(3, 5, false), F::Ping]] {
        // incl. frames of exactly the maximum payload size 16384 (legal, RFC 7540 section 4.2) and one byte below
        for mid in [vec![], vec![F::Ping], vec![F::Unknown(0xfe, 1, 3), F::Data(1, 10)], vec![F::Data(1, 16384)], vec![F::Unknown(0x21, 0, 16383), F::Data(1, 16384)]] {
            for preface in [true, false] {
                let mut frames = pre.clone();
                frames.push(F::Settings(vec![(1, 65536), (3, 1000), (4, 6291456)]));
                frames.extend(mid.clone());
                frames.push(F::Wu(0, 15663105, false));
                frames.push(F::Headers(1, "mpas".into(), Framing::default()));
                check_oneshot(&mut total, &frames, preface);
            }
        }
    }
    // (5) chunkings: every 2- and 3-partition of a family of streams
    let families: Vec<Vec<F>> = vec![
        vec![F::Settings(vec![(3, 100), (4, 65535)]), F::Wu(0, 1000, false), F::Prio(3, false, 0, 200), F::Headers(1, "masp".into(), Framing::default())],
        vec![F::Settings(vec![(1, 65536)]), F::Headers(1, "mpas".into(), Framing { end_stream: true, ..Default::default() })],
        vec![F::Ping, F::Wu(0, 9, false), F::Settings(vec![(1, 4096)]), F::Headers(1, "mpas".into(), Framing::default())],
        vec![F::Prio(3, true, 0, 100), F::Settings(vec![(4, 100)]), F::Wu(0, 7, false)],
        vec![F::Settings(vec![(2, 0)]), F::Settings(vec![(3, 5)]), F::Wu(0, 70, false), F::Headers(3, "pmsa".into(), Framing { prio: Some((false, 0, 9)), ..Default::default() })],
        // header blocks continued in CONTINUATION frames, behind and IN FRONT OF the SETTINGS frame: what the extractor keeps
        // between two calls must include every frame of the block
        vec![F::Settings(vec![(1, 65536), (3, 1000)]), F::Headers(1, "mpas".into(), Framing { splits: vec![2, 5], ..Default::default() })],
        vec![F::Headers(1, "mspa".into(), Framing { splits: vec![3], ..Default::default() }), F::Settings(vec![(1, 65536), (3, 1000), (4, 6291456)]), F::Wu(0, 15663105, false)],
        vec![F::Wu(0, 11, false), F::Headers(3, "pmsa".into(), Framing { splits: vec![0, 4], prio: Some((false, 0, 16)), ..Default::default() }), F::Prio(5, false, 3, 9), F::Settings(vec![(4, 100)])],
    ];
    for frames in &families {
        for preface in [true, false] {
            let (data, ends) = stream_bytes(frames, preface);
            let st_idx = frames.iter().position(|f| matches!(f, F::Settings(_))).unwrap_or(0);
            let st_end = ends[st_idx];
            let len = data.len();
            let rep = par_slices(len - 1, 32, |rg| {
                let mut r = Report::new();
                for i in rg {
                    let c1 = i + 1;
                    check_chunking(&mut r, frames, preface, &data, st_end, &[c1]);
                    for c2 in (c1 + 1)..len {
                        check_chunking(&mut r, frames, preface, &data, st_end, &[c1, c2]);
                    }
                }
                r
            });
            total = total.merge(rep);
            check_chunking(&mut total, frames, preface, &data, st_end, &[]);
            let all: Vec<usize> = (1..len).collect();
            check_chunking(&mut total, frames, preface, &data, st_end, &all);
        }
    }
    let _ = thorough;
    Outcome {
        report: total,
        rule: "frame sequences from descriptions: SETTINGS lists (<=3 parameters over 11 ids x 6 values, 0 and 12 parameters) x connection/stream WINDOW_UPDATE variants x preface; PRIORITY with all 256 weights x exclusive x stream/dependency, 0..3 frames; 36 pseudo-header orders (incl. a regular header in front of, between and behind the pseudo-headers) x 14 HEADERS framings (END_STREAM, PADDED 0/1/7/255, PRIORITY, PADDED+PRIORITY with pad length <, >, = weight, CONTINUATION splits) x stream ids; surrounding PING/unknown/DATA frames; incremental extractor on every 2- and 3-partition (and the 1-byte partition) of 8 stream families (three with header blocks continued in CONTINUATION frames, two of them in front of the SETTINGS frame) with and without preface; distinct = distinct fingerprint strings / chunk outcomes".into(),
        exhaustive: true,
        bounds: json!({"settings_lists": sl.len(), "chunk_families": families.len()}),
    }
}

pub fn replay(ex: &Value) -> Report {
    let mut r = Report::new();
    let Ok(frames) = serde_json::from_value::<Vec<F>>(ex["frames"].clone()) else {
        r.machinery_error("bad replay file");
        return r;
    };
    let preface = ex["preface"].as_bool().unwrap_or(true);
    if ex["kind"].as_str() == Some("chunking") {
        let (data, ends) = stream_bytes(&frames, preface);
        let st_idx = frames.iter().position(|f| matches!(f, F::Settings(_))).unwrap_or(0);
        let cuts: Vec<usize> = ex["cuts"].as_array().map(|a| a.iter().filter_map(|x| x.as_u64().map(|y| y as usize)).collect()).unwrap_or_default();
        check_chunking(&mut r, &frames, preface, &data, ends[st_idx], &cuts);
    } else {
        check_oneshot(&mut r, &frames, preface);
    }
    r
}
