//! C02 — the lookup index is transparent: best match == optimum of a full database scan.
//! Oracle: a full scan written here over the public `entries` in file order with the public
//! `calculate_distance` / `get_quality_score`: first entry with the minimum accepted distance.
//! (1) bundled database x observations derived from every bundled signature with every field perturbed;
//! (2) every database of <= N signatures (with label splits) over a signature alphabet mixing concrete and
//! wildcard version / payload class / HTTP version x every observation of a concrete alphabet.
use crate::report::{guarded, par_slices, Report};
use crate::Outcome;
use huginn_net_db::db::FingerprintCollection;
use huginn_net_db::db_matching_trait::{DatabaseSignature, FingerprintDb, IndexKey, ObservedFingerprint};
use huginn_net_db::http::{self, Header, Version};
use huginn_net_db::observable_signals::{HttpRequestObservation, HttpResponseObservation, TcpObservation};
use huginn_net_db::tcp::{self, IpVersion, PayloadSize, Quirk, TcpOption, Ttl, WindowSize};
use huginn_net_db::{Database, Label, Type};
use serde_json::{json, Value};
use std::fmt::Display;

fn full_scan<OF, DS>(entries: &[(Label, Vec<DS>)], obs: &OF) -> Option<(usize, usize, u32)>
where
    OF: ObservedFingerprint,
    DS: DatabaseSignature<OF>,
{
    let mut best: Option<(usize, usize, u32)> = None;
    for (li, (_l, sigs)) in entries.iter().enumerate() {
        for (si, s) in sigs.iter().enumerate() {
            if let Some(d) = s.calculate_distance(obs) {
                if best.map(|b| d < b.2).unwrap_or(true) {
                    best = Some((li, si, d));
                }
            }
        }
    }
    best
}

fn check_lookup<OF, DS, K>(r: &mut Report, coll: &FingerprintCollection<OF, DS, K>, obs: &OF, table: &str, ctx: &dyn Fn() -> Value)
where
    OF: ObservedFingerprint<Key = K> + Display,
    DS: DatabaseSignature<OF> + Display,
    K: IndexKey,
{
    r.exec(1);
    let exp = full_scan(&coll.entries, obs);
    let got = match guarded(|| coll.find_best_match(obs).map(|(l, s, q)| (l as *const Label, s as *const DS, q))) {
        Ok(g) => g,
        Err(p) => {
            r.dev(format!("C02/{table}/panic"), "panic", || json!({"table": table, "obs": obs.to_string(), "ctx": ctx(), "detail": p}));
            return;
        }
    };
    let got_idx = got.map(|(l, s, q)| {
        let li = coll.entries.iter().position(|(lab, _)| std::ptr::eq(lab, l));
        let si = li.and_then(|li| coll.entries[li].1.iter().position(|x| std::ptr::eq(x, s)));
        (li, si, q)
    });
    r.outcome(&(table, exp.map(|e| (e.0, e.1, e.2)), got_idx.is_some()));
    let ok = match (exp, got_idx) {
        (None, None) => true,
        (Some((li, si, d)), Some((gl, gs, q))) => gl == Some(li) && gs == Some(si) && q.to_bits() == coll.entries[li].1[si].get_quality_score(d).to_bits(),
        _ => false,
    };
    if !ok {
        let class = match (exp, got_idx) {
            (Some(_), None) => "index-hides-acceptable-entry",
            (None, Some(_)) => "index-reports-unacceptable-entry",
            (Some((li, si, _)), Some((gl, gs, _))) if gl != Some(li) || gs != Some(si) => "index-changes-winner",
            _ => "quality-does-not-belong-to-distance",
        };
        let key_detail = if class == "index-hides-acceptable-entry" && table.starts_with("http") { format!("{}", obs.to_string().split(':').next().unwrap_or("")) } else { String::new() };
        r.dev(format!("C02/{table}/{class}{}", if key_detail.is_empty() { String::new() } else { format!("/obs-version-{key_detail}") }), class, || {
            json!({"table": table, "obs": obs.to_string(), "ctx": ctx(), "full_scan": exp.map(|(li, si, d)| json!({"label": li, "sig": coll.entries[li].1[si].to_string(), "distance": d})), "index": got_idx.map(|(l, s, q)| json!({"label": l, "sig": s, "quality": q}))})
        });
    }
}

// ---------- observations derived from bundled signatures ----------
fn tcp_obs_from_sig(s: &tcp::Signature) -> Vec<TcpObservation> {
    let mut out = vec![];
    let vers: Vec<IpVersion> = if s.version == IpVersion::Any { vec![IpVersion::V4, IpVersion::V6] } else { vec![s.version] };
    let pcs: Vec<PayloadSize> = if s.pclass == PayloadSize::Any { vec![PayloadSize::Zero, PayloadSize::NonZero] } else { vec![s.pclass] };
    let ittl = match &s.ittl {
        Ttl::Value(n) if *n >= 7 => Ttl::Distance(n - 7, 7),
        other => other.clone(),
    };
    let mss = s.mss.or(Some(1460));
    let wsize = if s.wsize == WindowSize::Any { WindowSize::Value(8191) } else { s.wsize.clone() };
    for v in &vers {
        for p in &pcs {
            let base = TcpObservation { version: *v, ittl: ittl.clone(), olen: s.olen, mss, wsize: wsize.clone(), wscale: s.wscale.or(Some(7)), olayout: s.olayout.clone(), quirks: s.quirks.clone(), pclass: *p };
            out.push(base.clone());
            // perturb every field
            out.push(TcpObservation { version: if *v == IpVersion::V4 { IpVersion::V6 } else { IpVersion::V4 }, ..base.clone() });
            out.push(TcpObservation { pclass: if *p == PayloadSize::Zero { PayloadSize::NonZero } else { PayloadSize::Zero }, ..base.clone() });
            for t in [Ttl::Distance(50, 14), Ttl::Distance(121, 7), Ttl::Distance(250, 5), Ttl::Value(200), Ttl::Bad(0)] {
                out.push(TcpObservation { ittl: t, ..base.clone() });
            }
            out.push(TcpObservation { olen: base.olen.wrapping_add(4), ..base.clone() });
            for m in [None, Some(1400), Some(536)] {
                out.push(TcpObservation { mss: m, ..base.clone() });
            }
            for w in [WindowSize::Mss(4), WindowSize::Mss(44), WindowSize::Mtu(2), WindowSize::Mod(1024), WindowSize::Value(65535), WindowSize::Value(8192)] {
                out.push(TcpObservation { wsize: w, ..base.clone() });
            }
            for w in [None, Some(0), Some(2), Some(14)] {
                out.push(TcpObservation { wscale: w, ..base.clone() });
            }
            let mut l = base.olayout.clone();
            l.push(TcpOption::Nop);
            out.push(TcpObservation { olayout: l, ..base.clone() });
            let mut l = base.olayout.clone();
            l.pop();
            out.push(TcpObservation { olayout: l, ..base.clone() });
            let mut q = base.quirks.clone();
            q.push(Quirk::Ecn);
            out.push(TcpObservation { quirks: q, ..base.clone() });
            let mut q = base.quirks.clone();
            q.pop();
            out.push(TcpObservation { quirks: q, ..base.clone() });
            let mut q = base.quirks.clone();
            q.reverse();
            out.push(TcpObservation { quirks: q, ..base.clone() });
        }
    }
    out
}
fn http_obs_lists(s: &http::Signature) -> Vec<(Version, Vec<Header>, Vec<Header>, String)> {
    let mut out = vec![];
    let req: Vec<Header> = s.horder.iter().filter(|h| !h.optional).map(|h| Header { optional: false, ..h.clone() }).collect();
    let all: Vec<Header> = s.horder.iter().map(|h| Header { optional: false, ..h.clone() }).collect();
    for v in [Version::V10, Version::V11, Version::V20, Version::V30] {
        for ho in [req.clone(), all.clone(), req.iter().skip(1).cloned().collect::<Vec<_>>(), { let mut x = all.clone(); x.push(Header::new("X-Extra")); x }] {
            for sw in [s.expsw.clone(), format!("{}/1.0 (x)", s.expsw), String::new(), "zzz".to_string()] {
                out.push((v, ho.clone(), s.habsent.clone(), sw));
            }
        }
    }
    out
}

fn bundled(r: &mut Report) {
    let db = match Database::load_default() {
        Ok(d) => d,
        Err(e) => {
            r.machinery_error(format!("bundled database does not load: {e}"));
            return;
        }
    };
    let mut tcp_obs: Vec<TcpObservation> = vec![];
    for coll in [&db.tcp_request, &db.tcp_response] {
        for (_l, sigs) in &coll.entries {
            for s in sigs {
                tcp_obs.extend(tcp_obs_from_sig(s));
            }
        }
    }
    for (name, coll) in [("tcp-request", &db.tcp_request), ("tcp-response", &db.tcp_response)] {
        let rep = par_slices(tcp_obs.len(), 64, |rg| {
            let mut r = Report::new();
            for i in rg {
                check_lookup(&mut r, coll, &tcp_obs[i], name, &|| json!({"database": "bundled"}));
            }
            r
        });
        *r = std::mem::take(r).merge(rep);
    }
    let mut http_obs = vec![];
    for (_l, sigs) in db.http_request.entries.iter().chain(db.http_response.entries.iter()) {
        for s in sigs {
            http_obs.extend(http_obs_lists(s));
        }
    }
    let rep = par_slices(http_obs.len(), 64, |rg| {
        let mut r = Report::new();
        for i in rg {
            let (v, ho, ha, sw) = http_obs[i].clone();
            let q = HttpRequestObservation { version: v, horder: ho.clone(), habsent: ha.clone(), expsw: sw.clone() };
            check_lookup(&mut r, &db.http_request, &q, "http-request", &|| json!({"database": "bundled"}));
            let p = HttpResponseObservation { version: v, horder: ho, habsent: ha, expsw: sw };
            check_lookup(&mut r, &db.http_response, &p, "http-response", &|| json!({"database": "bundled"}));
        }
        r
    });
    *r = std::mem::take(r).merge(rep);
}

// ---------- generated databases ----------
fn label(i: usize) -> Label {
    Label { ty: Type::Specified, class: Some("c".into()), name: format!("L{i}"), flavor: None }
}
/// all ways to attach n signatures (in order) to consecutive labels: compositions of n, plus labels that carry no signature
fn splits(n: usize) -> Vec<Vec<usize>> {
    // parts of size 0 are labels without signatures (legal in the p0f grammar): before, between and after the others
    match n {
        0 => vec![vec![], vec![0]],
        1 => vec![vec![1], vec![0, 1], vec![1, 0]],
        2 => vec![vec![2], vec![1, 1], vec![0, 2], vec![2, 0], vec![1, 0, 1], vec![0, 1, 1], vec![0, 1, 0, 1, 0]],
        _ => vec![vec![3], vec![2, 1], vec![1, 2], vec![1, 1, 1], vec![0, 3], vec![1, 0, 2], vec![2, 0, 1], vec![0, 1, 0, 1, 0, 1], vec![1, 1, 0, 1]],
    }
}
fn tcp_sig_alphabet() -> Vec<tcp::Signature> {
    let mut v = vec![];
    for ver in [IpVersion::V4, IpVersion::V6, IpVersion::Any] {
        for pc in [PayloadSize::Zero, PayloadSize::NonZero, PayloadSize::Any] {
            for ol in [vec![TcpOption::Mss], vec![TcpOption::Mss, TcpOption::Nop]] {
                for ittl in [64u8, 128] {
                    for w in [WindowSize::Any, WindowSize::Value(8192)] {
                        v.push(tcp::Signature { version: ver, ittl: Ttl::Value(ittl), olen: 0, mss: None, wsize: w.clone(), wscale: None, olayout: ol.clone(), quirks: vec![Quirk::Df], pclass: pc });
                    }
                }
            }
        }
    }
    v
}
fn tcp_obs_alphabet() -> Vec<TcpObservation> {
    let mut v = vec![];
    for ver in [IpVersion::V4, IpVersion::V6] {
        for pc in [PayloadSize::Zero, PayloadSize::NonZero] {
            for ol in [vec![TcpOption::Mss], vec![TcpOption::Mss, TcpOption::Nop], vec![TcpOption::Nop]] {
                for t in [Ttl::Distance(57, 7), Ttl::Distance(120, 8)] {
                    for w in [WindowSize::Value(8192), WindowSize::Mss(4)] {
                        v.push(TcpObservation { version: ver, ittl: t.clone(), olen: 0, mss: Some(1460), wsize: w.clone(), wscale: Some(7), olayout: ol.clone(), quirks: vec![Quirk::Df], pclass: pc });
                    }
                }
            }
        }
    }
    v
}
fn http_sig_alphabet() -> Vec<http::Signature> {
    let mut v = vec![];
    for ver in [Version::V10, Version::V11, Version::Any] {
        for ho in [vec![Header::new("Host")], vec![Header::new("Host"), Header::new("Cookie").optional()], vec![Header::new("Accept").with_value("x")]] {
            for sw in ["", "a"] {
                v.push(http::Signature { version: ver, horder: ho.clone(), habsent: vec![], expsw: sw.to_string() });
            }
        }
    }
    v
}
fn http_obs_alphabet() -> Vec<(Version, Vec<Header>, String)> {
    let mut v = vec![];
    for ver in [Version::V10, Version::V11, Version::V20, Version::V30] {
        for ho in [vec![Header::new("Host")], vec![Header::new("Host"), Header::new("Cookie")], vec![Header::new("Accept").with_value("x")], vec![Header::new("Accept").with_value("y")]] {
            for sw in ["", "a", "b"] {
                v.push((ver, ho.clone(), sw.to_string()));
            }
        }
    }
    v
}
fn build_entries<DS: Clone>(alpha: &[DS], idx: &[usize], split: &[usize]) -> Vec<(Label, Vec<DS>)> {
    let mut out = vec![];
    let mut k = 0;
    for (li, &n) in split.iter().enumerate() {
        out.push((label(li), idx[k..k + n].iter().map(|&i| alpha[i].clone()).collect()));
        k += n;
    }
    out
}
/// wide alphabets for 2-signature databases: every field takes a second (and special) value at each point of
/// the version x payload-class x layout product, so that an index keyed on any field is exercised
fn tcp_sig_alphabet_wide() -> Vec<tcp::Signature> {
    let mut v = vec![];
    for ver in [IpVersion::V4, IpVersion::V6, IpVersion::Any] {
        for pc in [PayloadSize::Zero, PayloadSize::NonZero, PayloadSize::Any] {
            for ol in [vec![TcpOption::Mss], vec![TcpOption::Mss, TcpOption::Nop]] {
                let base = tcp::Signature { version: ver, ittl: Ttl::Value(64), olen: 0, mss: None, wsize: WindowSize::Any, wscale: None, olayout: ol.clone(), quirks: vec![Quirk::Df], pclass: pc };
                v.push(base.clone());
                v.push(tcp::Signature { ittl: Ttl::Value(128), ..base.clone() });
                v.push(tcp::Signature { ittl: Ttl::Bad(64), ..base.clone() });
                v.push(tcp::Signature { wsize: WindowSize::Value(8192), ..base.clone() });
                v.push(tcp::Signature { wsize: WindowSize::Mod(1024), ..base.clone() });
                v.push(tcp::Signature { wsize: WindowSize::Mss(4), ..base.clone() });
                v.push(tcp::Signature { mss: Some(1460), ..base.clone() });
                v.push(tcp::Signature { mss: Some(0), wscale: Some(0), ..base.clone() });
                v.push(tcp::Signature { wscale: Some(7), ..base.clone() });
                v.push(tcp::Signature { olen: 4, ..base.clone() });
                v.push(tcp::Signature { quirks: vec![Quirk::Df, Quirk::FlowID], ..base.clone() });
                v.push(tcp::Signature { quirks: vec![Quirk::Df, Quirk::NonZeroID], ..base.clone() });
                v.push(tcp::Signature { quirks: vec![], ..base.clone() });
                v.push(tcp::Signature { quirks: vec![Quirk::Ecn, Quirk::Df], ..base.clone() });
            }
        }
    }
    v
}
fn tcp_obs_alphabet_wide() -> Vec<TcpObservation> {
    let mut v = vec![];
    for ver in [IpVersion::V4, IpVersion::V6] {
        for pc in [PayloadSize::Zero, PayloadSize::NonZero] {
            for ol in [vec![TcpOption::Mss], vec![TcpOption::Mss, TcpOption::Nop], vec![TcpOption::Nop]] {
                let base = TcpObservation { version: ver, ittl: Ttl::Distance(57, 7), olen: 0, mss: Some(1460), wsize: WindowSize::Value(8192), wscale: Some(7), olayout: ol.clone(), quirks: vec![Quirk::Df], pclass: pc };
                v.push(base.clone());
                v.push(TcpObservation { ittl: Ttl::Distance(120, 8), ..base.clone() });
                v.push(TcpObservation { ittl: Ttl::Value(200), ..base.clone() });
                v.push(TcpObservation { wsize: WindowSize::Mss(4), ..base.clone() });
                v.push(TcpObservation { wsize: WindowSize::Mod(4096), ..base.clone() });
                v.push(TcpObservation { mss: None, wscale: None, ..base.clone() });
                v.push(TcpObservation { olen: 4, ..base.clone() });
                v.push(TcpObservation { quirks: vec![Quirk::Df, Quirk::FlowID], ..base.clone() });
                v.push(TcpObservation { quirks: vec![Quirk::Df, Quirk::NonZeroID], ..base.clone() });
                v.push(TcpObservation { quirks: vec![], ..base.clone() });
                v.push(TcpObservation { quirks: vec![Quirk::Df, Quirk::Ecn], ..base.clone() });
            }
        }
    }
    v
}
fn http_sig_alphabet_wide() -> Vec<http::Signature> {
    let mut v = vec![];
    for ver in [Version::V10, Version::V11, Version::Any] {
        for ho in [vec![Header::new("Host")], vec![Header::new("Host"), Header::new("Cookie").optional()], vec![Header::new("Accept").with_value("x")], vec![Header::new("Host"), Header::new("Accept").with_value("x"), Header::new("Connection")]] {
            for ha in [vec![], vec![Header::new("Via")], vec![Header::new("Host")]] {
                for sw in ["", "a", "Apache"] {
                    v.push(http::Signature { version: ver, horder: ho.clone(), habsent: ha.clone(), expsw: sw.to_string() });
                }
            }
        }
    }
    v
}
fn http_obs_alphabet_wide() -> Vec<(Version, Vec<Header>, Vec<Header>, String)> {
    let mut v = vec![];
    for ver in [Version::V10, Version::V11, Version::V20, Version::V30] {
        for ho in [vec![Header::new("Host")], vec![Header::new("Host"), Header::new("Cookie")], vec![Header::new("Accept").with_value("x")], vec![Header::new("Accept").with_value("y")], vec![Header::new("Host"), Header::new("Accept").with_value("x"), Header::new("Connection")]] {
            for ha in [vec![], vec![Header::new("Via")]] {
                for sw in ["", "a", "b"] {
                    v.push((ver, ho.clone(), ha.clone(), sw.to_string()));
                }
            }
        }
    }
    v
}
fn generated_wide(r: &mut Report) {
    let ta = tcp_sig_alphabet_wide();
    let to = tcp_obs_alphabet_wide();
    let total = ta.len() * ta.len();
    let rep = par_slices(total, 256, |rg| {
        let mut r = Report::new();
        for i in rg {
            let idx = [i % ta.len(), i / ta.len()];
            for sp in splits(2) {
                let coll: FingerprintCollection<TcpObservation, tcp::Signature, _> = FingerprintCollection::new(build_entries(&ta, &idx, &sp));
                r.states += 1;
                for o in &to {
                    check_lookup(&mut r, &coll, o, "generated-tcp", &|| json!({"signatures": idx.iter().map(|&i| ta[i].to_string()).collect::<Vec<_>>(), "labels": sp}));
                }
            }
        }
        r
    });
    *r = std::mem::take(r).merge(rep);
    let ha = http_sig_alphabet_wide();
    let ho = http_obs_alphabet_wide();
    let total = ha.len() * ha.len();
    let rep = par_slices(total, 256, |rg| {
        let mut r = Report::new();
        for i in rg {
            let idx = [i % ha.len(), i / ha.len()];
            for sp in splits(2) {
                let cq: FingerprintCollection<HttpRequestObservation, http::Signature, _> = FingerprintCollection::new(build_entries(&ha, &idx, &sp));
                let cp: FingerprintCollection<HttpResponseObservation, http::Signature, _> = FingerprintCollection::new(build_entries(&ha, &idx, &sp));
                r.states += 2;
                for (v, h, a, sw) in &ho {
                    let ctx = || json!({"signatures": idx.iter().map(|&i| ha[i].to_string()).collect::<Vec<_>>(), "labels": sp});
                    check_lookup(&mut r, &cq, &HttpRequestObservation { version: *v, horder: h.clone(), habsent: a.clone(), expsw: sw.clone() }, "generated-http-request", &ctx);
                    check_lookup(&mut r, &cp, &HttpResponseObservation { version: *v, horder: h.clone(), habsent: a.clone(), expsw: sw.clone() }, "generated-http-response", &ctx);
                }
            }
        }
        r
    });
    *r = std::mem::take(r).merge(rep);
}

/// Databases and observations whose index-key fields are NEAR each other (option layouts that differ only in the eol
/// padding count, in one unknown option number, in a trailing nop, in order; HTTP versions next to each other): if the
/// distance function ever accepts a near miss in a key field, the indexed lookup must still find what the scan finds.
fn generated_near_keys(r: &mut Report) {
    use TcpOption::*;
    let layouts: Vec<Vec<TcpOption>> = vec![vec![Mss], vec![Mss, Nop], vec![Mss, Eol(0)], vec![Mss, Eol(1)], vec![Mss, Eol(2)], vec![Mss, Eol(3), Eol(2), Eol(1), Eol(0)], vec![Mss, Eol(1), Nop], vec![Mss, Eol(1), Eol(0)], vec![Mss, Unknown(9)], vec![Mss, Unknown(10)], vec![Nop, Mss], vec![Mss, Nop, Nop], vec![]];
    let mut ta = vec![];
    for ver in [IpVersion::V4, IpVersion::Any] {
        for pc in [PayloadSize::Zero, PayloadSize::Any] {
            for ol in &layouts {
                for quirks in [vec![Quirk::Df], vec![]] {
                    ta.push(tcp::Signature { version: ver, ittl: Ttl::Value(64), olen: 0, mss: None, wsize: WindowSize::Any, wscale: None, olayout: ol.clone(), quirks, pclass: pc });
                }
            }
        }
    }
    let mut to = vec![];
    for ver in [IpVersion::V4, IpVersion::V6] {
        for pc in [PayloadSize::Zero, PayloadSize::NonZero] {
            for ol in &layouts {
                for quirks in [vec![Quirk::Df], vec![]] {
                    to.push(TcpObservation { version: ver, ittl: Ttl::Distance(57, 7), olen: 0, mss: Some(1460), wsize: WindowSize::Value(8192), wscale: Some(7), olayout: ol.clone(), quirks, pclass: pc });
                }
            }
        }
    }
    let total = ta.len() * ta.len();
    let rep = par_slices(total, 256, |rg| {
        let mut r = Report::new();
        for i in rg {
            let idx = [i % ta.len(), i / ta.len()];
            for sp in [vec![2usize], vec![1, 1]] {
                let coll: FingerprintCollection<TcpObservation, tcp::Signature, _> = FingerprintCollection::new(build_entries(&ta, &idx, &sp));
                r.states += 1;
                for o in &to {
                    check_lookup(&mut r, &coll, o, "generated-tcp", &|| json!({"signatures": idx.iter().map(|&i| ta[i].to_string()).collect::<Vec<_>>(), "labels": sp, "family": "near-keys"}));
                }
            }
        }
        r
    });
    *r = std::mem::take(r).merge(rep);
}

fn generated(r: &mut Report, max_tcp: usize, max_http: usize) {
    let ta = tcp_sig_alphabet();
    let to = tcp_obs_alphabet();
    let ha = http_sig_alphabet();
    let ho = http_obs_alphabet();
    for n in 1..=max_tcp.max(max_http) {
        // TCP
        let total = if n <= max_tcp { ta.len().pow(n as u32) } else { 0 };
        let rep = par_slices(total, 128, |rg| {
            let mut r = Report::new();
            for mut i in rg {
                let mut idx = vec![];
                for _ in 0..n {
                    idx.push(i % ta.len());
                    i /= ta.len();
                }
                for sp in splits(n) {
                    let coll: FingerprintCollection<TcpObservation, tcp::Signature, _> = FingerprintCollection::new(build_entries(&ta, &idx, &sp));
                    r.states += 1;
                    for o in &to {
                        check_lookup(&mut r, &coll, o, "generated-tcp", &|| json!({"signatures": idx.iter().map(|&i| ta[i].to_string()).collect::<Vec<_>>(), "labels": sp}));
                    }
                }
            }
            r
        });
        *r = std::mem::take(r).merge(rep);
        // HTTP (request and response collections share the signature type)
        let total = if n <= max_http { ha.len().pow(n as u32) } else { 0 };
        let rep = par_slices(total, 128, |rg| {
            let mut r = Report::new();
            for mut i in rg {
                let mut idx = vec![];
                for _ in 0..n {
                    idx.push(i % ha.len());
                    i /= ha.len();
                }
                for sp in splits(n) {
                    let cq: FingerprintCollection<HttpRequestObservation, http::Signature, _> = FingerprintCollection::new(build_entries(&ha, &idx, &sp));
                    let cp: FingerprintCollection<HttpResponseObservation, http::Signature, _> = FingerprintCollection::new(build_entries(&ha, &idx, &sp));
                    r.states += 2;
                    for (v, h, sw) in &ho {
                        let ctx = || json!({"signatures": idx.iter().map(|&i| ha[i].to_string()).collect::<Vec<_>>(), "labels": sp});
                        check_lookup(&mut r, &cq, &HttpRequestObservation { version: *v, horder: h.clone(), habsent: vec![], expsw: sw.clone() }, "generated-http-request", &ctx);
                        check_lookup(&mut r, &cp, &HttpResponseObservation { version: *v, horder: h.clone(), habsent: vec![], expsw: sw.clone() }, "generated-http-response", &ctx);
                    }
                }
            }
            r
        });
        *r = std::mem::take(r).merge(rep);
    }
}

/// The reported match, not only the lookup: the same exchange through every analyzer that can be handed the database
/// -- the TCP and HTTP analyzers and the unified analyzer under each of its protocol-switch combinations with matching
/// on -- must report one and the same (label, quality) for each message, and for this traffic (built after bundled
/// signatures) the database has an accepting entry, so "nothing" is not an answer.
fn analyzer_routes(r: &mut Report) {
    use crate::gen::pkt::{self, Spec, ACK, PSH, SYN};
    let d = crate::drv::db();
    let heads: [(&str, &str); 4] = [
        ("GET / HTTP/1.1\r\nHost: example.com\r\nUser-Agent: curl/7.68.0\r\nAccept: */*\r\n\r\n", "HTTP/1.1 200 OK\r\nDate: Mon, 01 Jan 2024 00:00:00 GMT\r\nServer: Apache/2.4.1 (Unix)\r\nLast-Modified: Mon, 01 Jan 2024 00:00:00 GMT\r\nAccept-Ranges: bytes\r\nContent-Length: 4\r\nConnection: close\r\nContent-Type: text/html\r\n\r\nbody"),
        ("GET / HTTP/1.0\r\nUser-Agent: Wget/1.12 (linux-gnu)\r\nAccept: */*\r\nHost: example.com\r\nConnection: Keep-Alive\r\n\r\n", "HTTP/1.1 200 OK\r\nServer: nginx/1.2.1\r\nDate: Mon, 01 Jan 2024 00:00:00 GMT\r\nContent-Type: text/html\r\nContent-Length: 4\r\nLast-Modified: Mon, 01 Jan 2024 00:00:00 GMT\r\nConnection: keep-alive\r\nAccept-Ranges: bytes\r\n\r\nbody"),
        ("GET / HTTP/1.1\r\nHost: example.com\r\nUser-Agent: Mozilla/5.0 (X11; Linux x86_64; rv:10.0) Gecko/20100101 Firefox/10.0\r\nAccept: text/html,application/xhtml+xml,application/xml;q=0.9,*/*;q=0.8\r\nAccept-Language: en-us,en;q=0.5\r\nAccept-Encoding: gzip, deflate\r\nConnection: keep-alive\r\n\r\n", "HTTP/1.1 404 Not Found\r\nServer: lighttpd/1.4.28\r\nContent-Type: text/html\r\nContent-Length: 4\r\nDate: Mon, 01 Jan 2024 00:00:00 GMT\r\n\r\nbody"),
        ("GET /x HTTP/1.1\r\nHost: nobody.example\r\nX-Unknown: 1\r\n\r\n", "HTTP/1.1 200 OK\r\nX-Unknown: 1\r\n\r\n"),
    ];
    let mut matched = 0;
    for (hi, (req, resp)) in heads.iter().enumerate() {
        let (c, s) = ((1u8, 40000u16 + hi as u16), (2u8, 80u16));
        // a Linux-like SYN (bundled signature 4:64:0:*:mss*20,7:mss,sok,ts,nop,ws:df,id+:0) and a plain SYN+ACK
        let mut o = vec![2, 4, 5, 0xb4, 4, 2, 8, 10, 0, 0, 0, 9, 0, 0, 0, 0, 1, 3, 3, 7];
        if hi % 2 == 1 {
            o = vec![2, 4, 5, 0xb4, 1, 3, 3, 8, 1, 1, 4, 2];
        }
        let frames = vec![
            pkt::build(&Spec { src: c.0, sport: c.1, dst: s.0, dport: s.1, flags: SYN, seq: 999, window: if hi % 2 == 0 { 29200 } else { 8192 }, ttl: if hi % 2 == 0 { 64 } else { 128 }, opts: o, ..Spec::default() }),
            pkt::build(&Spec { src: s.0, sport: s.1, dst: c.0, dport: c.1, flags: SYN | ACK, seq: 4999, ack: 1000, ..Spec::default() }),
            pkt::build(&Spec { src: c.0, sport: c.1, dst: s.0, dport: s.1, flags: ACK | PSH, seq: 1000, ack: 5000, payload: req.as_bytes().to_vec(), ..Spec::default() }),
            pkt::build(&Spec { src: s.0, sport: s.1, dst: c.0, dport: c.1, flags: ACK | PSH, seq: 5000, ack: 1000 + req.len() as u32, payload: resp.as_bytes().to_vec(), ..Spec::default() }),
        ];
        type Ans = (Option<(Option<String>, String)>, Option<(Option<String>, String)>, Option<(Option<String>, String)>);
        let summarise = |t: &[crate::drv::TcpRes], h: &[crate::drv::HttpRes]| -> Ans {
            let os = t.iter().find_map(|x| x.syn.as_ref().and(x.os.clone()).map(|(l, q)| (l, q)));
            let rq = h.iter().find_map(|x| x.request.as_ref().map(|q| (q.browser.clone(), q.quality.clone())));
            let rs = h.iter().find_map(|x| x.response.as_ref().map(|q| (q.server.clone(), q.quality.clone())));
            (os, rq, rs)
        };
        let base = guarded(|| {
            let mut t = crate::drv::TcpSeq::new(Some(d), 8);
            let mut h = crate::drv::HttpSeq::new(Some(d), 8);
            let tr: Vec<_> = frames.iter().map(|f| t.feed(f)).collect();
            let hr: Vec<_> = frames.iter().map(|f| h.feed(f)).collect();
            summarise(&tr, &hr)
        });
        let Ok(base) = base else {
            r.dev("C02/analyzer-route/panic", "panic", || json!({"kind": "analyzer-route", "exchange": hi}));
            continue;
        };
        matched += [&base.0, &base.1, &base.2].iter().filter(|x| x.as_ref().map(|y| y.0.is_some()).unwrap_or(false)).count();
        for bits in 0..8u8 {
            let cfg = huginn_net::AnalysisConfig { http_enabled: bits & 1 != 0, tcp_enabled: bits & 2 != 0, tls_enabled: bits & 4 != 0, matcher_enabled: true };
            let (he, te) = (cfg.http_enabled, cfg.tcp_enabled);
            let got = guarded(|| {
                let mut a = huginn_net::HuginnNet::new(Some(d), 8, Some(cfg)).expect("analyzer");
                let rs: Vec<_> = frames.iter().map(|f| crate::drv::uni_res(&a.analyze_tcp(f))).collect();
                summarise(&rs.iter().map(|x| x.tcp.clone()).collect::<Vec<_>>(), &rs.iter().map(|x| x.http.clone()).collect::<Vec<_>>())
            });
            r.exec(frames.len() as u64);
            let Ok(got) = got else {
                r.dev("C02/analyzer-route/panic", "panic", || json!({"kind": "analyzer-route", "exchange": hi, "switches": bits}));
                continue;
            };
            r.outcome(&("route", hi, bits, &got));
            for (what, on, b, g) in [("tcp-syn", te, &base.0, &got.0), ("http-request", he, &base.1, &got.1), ("http-response", he, &base.2, &got.2)] {
                if on && b != g {
                    r.dev(format!("C02/analyzer-route/unified-{what}-match-differs-from-the-protocol-analyzer"), "route", || json!({"kind": "analyzer-route", "exchange": hi, "switches": {"http": he, "tcp": te, "tls": bits & 4 != 0, "matcher": true}, "protocol_analyzer": format!("{b:?}"), "unified": format!("{g:?}")}));
                }
            }
        }
    }
    if matched < 6 {
        r.machinery_error(format!("analyzer-route: only {matched} messages of the route traffic are matched by the bundled database; the comparison would be vacuous"));
    }
}

/// Counts: databases with 255 .. 257 and 65535 .. 65537 labels (one signature each) and one label with that many
/// signatures; the last entry is the exact one, the first an approximate one, the rest cannot accept the observation.
/// A position that does not fit the integer type it is kept in shows here and nowhere else.
fn large_databases(r: &mut Report) {
    let sig = |ittl: u8, ol: Vec<TcpOption>| tcp::Signature { version: IpVersion::V4, ittl: Ttl::Value(ittl), olen: 0, mss: None, wsize: WindowSize::Any, wscale: None, olayout: ol, quirks: vec![Quirk::Df], pclass: PayloadSize::Zero };
    let obs = TcpObservation { version: IpVersion::V4, ittl: Ttl::Distance(57, 7), olen: 0, mss: Some(1460), wsize: WindowSize::Value(8192), wscale: Some(7), olayout: vec![TcpOption::Mss], quirks: vec![Quirk::Df], pclass: PayloadSize::Zero };
    for n in [255usize, 256, 257, 65535, 65536, 65537] {
        for exact_at in [n - 1, n - 2] {
            let sigs: Vec<tcp::Signature> = (0..n)
                .map(|i| {
                    if i == exact_at {
                        sig(64, vec![TcpOption::Mss])
                    } else if i == 0 {
                        sig(128, vec![TcpOption::Mss])
                    } else {
                        sig(64, vec![TcpOption::Mss, TcpOption::Nop, TcpOption::Unknown((i % 200) as u8 + 20)])
                    }
                })
                .collect();
            // (a) one label per signature
            let entries: Vec<(Label, Vec<tcp::Signature>)> = sigs.iter().enumerate().map(|(i, s)| (label(i), vec![s.clone()])).collect();
            let coll = FingerprintCollection::new(entries);
            check_lookup(r, &coll, &obs, "tcp:large", &|| json!({"kind": "large-database", "labels": n, "signatures_per_label": 1, "exact_entry": exact_at}));
            // (b) one label with all signatures, after two small labels
            let entries: Vec<(Label, Vec<tcp::Signature>)> = vec![(label(0), vec![]), (label(1), vec![sig(255, vec![TcpOption::Nop])]), (label(2), sigs)];
            let coll = FingerprintCollection::new(entries);
            check_lookup(r, &coll, &obs, "tcp:large", &|| json!({"kind": "large-database", "labels": 3, "signatures_in_last_label": n, "exact_entry": exact_at}));
        }
    }
}

pub fn run(thorough: bool) -> Outcome {
    let mut r = Report::new();
    bundled(&mut r);
    large_databases(&mut r);
    analyzer_routes(&mut r);
    let _ = thorough;
    let max_sigs = 3;
    generated(&mut r, max_sigs, 3);
    generated_wide(&mut r);
    generated_near_keys(&mut r);
    Outcome {
        report: r,
        rule: "lookups compared with a full scan: bundled database x observations derived from every bundled signature with each field perturbed (TCP: both tables; HTTP: 4 versions x header-list variants x software strings); every generated database of <= N signatures (72 TCP / 18 HTTP signature alphabet, every split into labels) x every observation of the concrete alphabets (48 TCP / 48 HTTP); large databases: 255..257 and 65535..65537 labels of one signature, and one label with that many signatures, the exact entry last or last but one; analyzer routes: 4 exchanges (SYN, SYN+ACK, request, response; three after bundled signatures, one unknown to the database) through the TCP and HTTP analyzers and the unified analyzer under all 8 protocol-switch combinations with matching on: the same (label, quality) everywhere; distinct = distinct (table, scan result) outcomes".into(),
        exhaustive: true,
        bounds: json!({"max_signatures_per_generated_tcp_database": max_sigs, "max_signatures_per_generated_http_database": 3, "tcp_sig_alphabet": 72, "http_sig_alphabet": 18, "wide_tcp_sig_alphabet_for_2_signature_databases": tcp_sig_alphabet_wide().len(), "wide_http_sig_alphabet": http_sig_alphabet_wide().len()}),
    }
}

pub fn replay(ex: &Value) -> Report {
    // a lookup needs its database: re-run the quick exploration and keep deviations on the recorded observation
    let mut r = Report::new();
    let o = run(false).report;
    let want = ex["obs"].as_str().unwrap_or("").to_string();
    for (k, d) in o.devs {
        if d.example["obs"].as_str() == Some(&want) || want.is_empty() {
            r.devs.insert(k, d);
        }
    }
    r.exec(1);
    r
}
