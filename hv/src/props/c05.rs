//! C05 — HTTP/1.x heads are reported faithfully and independently of the body.
//! Heads are generated from the RFC 7230 grammar over small alphabets (all header lists up to a length over
//! names x values, all methods/targets/versions/status lines, Accept-Language lists with q-values and optional
//! whitespace), each followed by every body of a body alphabet. Oracle: the reference expectation computed
//! from the description (refm::http) and `result(head ++ body) == result(head)`.
use crate::drv::{req_obs, resp_obs, HttpSeq};
use crate::gen::pkt::{self, Spec, ACK, PSH, SYN};
use crate::refm::http::{diff_request, diff_response, expect, Msg};
use crate::report::{guarded, par_slices, Report};
use crate::Outcome;
use huginn_net_http::http_process::HttpProcessors;
use serde_json::{json, Value};

pub fn bodies() -> Vec<(&'static str, Vec<u8>)> {
    let mut big = vec![];
    for i in 0..8192u32 {
        big.push((i.wrapping_mul(2654435761) >> 24) as u8);
    }
    vec![
        ("empty", vec![]),
        ("text", b"x".to_vec()),
        ("text-with-crlf", b"a\r\nb".to_vec()),
        ("blank-line-crlf", b"\r\n\r\n".to_vec()),
        ("blank-line-lf", b"\n\n".to_vec()),
        ("header-like", b"X: y\r\n\r\n".to_vec()),
        ("header-like-lf", b"tail\nfoo: bar\n\nzzz".to_vec()),
        ("gzip-magic", vec![0x1f, 0x8b, 8, 0, 0xff, 0xfe]),
        ("single-0x80", vec![0x80]),
        ("utf8-text", "grüße".as_bytes().to_vec()),
        ("binary-8k", big),
        // a body that quotes another protocol's opening bytes (an h2c upgrade sent optimistically, an upload about HTTP/2)
        ("h2-preface-in-text", b"see: PRI * HTTP/2.0\r\n\r\nSM\r\n\r\n and so on".to_vec()),
    ]
}

/// every concatenation of up to three atoms: text, a non-UTF-8 byte, both line-ending styles, both blank-line
/// styles, a header-like line — so that binary bytes, later blank lines and header-like text occur in every order
pub fn atom_bodies() -> Vec<(String, Vec<u8>)> {
    // ... and the opening bytes of every protocol the analyzers recognise: HTTP/2 preface and a SETTINGS frame, an HTTP/1
    // request line and status line, a TLS handshake record header
    let atoms: [(&str, &[u8]); 12] = [
        ("x", b"x"),
        ("80", &[0x80]),
        ("crlf", b"\r\n"),
        ("lf", b"\n"),
        ("crlfcrlf", b"\r\n\r\n"),
        ("lflf", b"\n\n"),
        ("hdr", b"X: y\r\n"),
        ("h2preface", b"PRI * HTTP/2.0\r\n\r\nSM\r\n\r\n"),
        ("h2settings", &[0, 0, 6, 4, 0, 0, 0, 0, 0, 0, 3, 0, 0, 0, 100]),
        ("reqline", b"GET /other HTTP/1.1\r\nHost: y\r\n"),
        ("statusline", b"HTTP/1.1 500 Oops\r\nServer: z\r\n"),
        ("tlsrec", &[0x16, 3, 1, 0, 5, 1, 0, 0, 1, 0]),
    ];
    let mut out: Vec<(String, Vec<u8>)> = vec![];
    let mut cur: Vec<(String, Vec<u8>)> = vec![(String::new(), vec![])];
    for _ in 0..3 {
        let mut next = vec![];
        for (n, b) in &cur {
            for (an, ab) in atoms {
                let mut nb = b.clone();
                nb.extend_from_slice(ab);
                next.push((format!("{n}{}{an}", if n.is_empty() { "" } else { "." }), nb));
            }
        }
        out.extend(next.clone());
        cur = next;
    }
    out
}

pub fn check_msg(r: &mut Report, p: &HttpProcessors, m: &Msg, family: &str) {
    let fixed: Vec<(String, Vec<u8>)> = bodies().into_iter().map(|(n, b)| (n.to_string(), b)).collect();
    let all: Vec<(String, Vec<u8>)> = if family == "start-line" || family == "status-line" { fixed.into_iter().chain(atom_bodies()).collect() } else { fixed };
    check_msg_bodies(r, p, m, family, &all)
}
pub fn check_msg_bodies(r: &mut Report, p: &HttpProcessors, m: &Msg, family: &str, all_bodies: &[(String, Vec<u8>)]) {
    let head = m.head1("\r\n");
    let e = expect(m);
    let mut base: Option<String> = None;
    for (bname, body) in all_bodies.iter().cloned() {
        let mut data = head.clone();
        data.extend(&body);
        r.exec(1);
        let got = guarded(|| if m.request { p.parse_request(&data).map(|x| (format!("{:?}", req_obs(&x)), diff_request(&e, &req_obs(&x)))) } else { p.parse_response(&data).map(|x| (format!("{:?}", resp_obs(&x)), diff_response(&e, &resp_obs(&x)))) });
        let ctx = || json!({"family": family, "msg": m, "body": bname, "head": String::from_utf8_lossy(&head)});
        match got {
            Err(pn) => r.dev("C05/panic", "panic", || json!({"ctx": ctx(), "detail": pn})),
            Ok(None) => {
                let class = if body.is_empty() { "head-not-reported".to_string() } else if std::str::from_utf8(&body).is_err() { "non-utf8-body-suppresses-result".to_string() } else { "body-suppresses-result".to_string() };
                r.dev(format!("C05/{class}"), class.clone(), || json!({"ctx": ctx(), "expected": format!("{e:?}")}));
            }
            Ok(Some((repr, diffs))) => {
                r.outcome(&repr);
                if body.is_empty() {
                    r.sample(|| json!({"head": String::from_utf8_lossy(&head), "reported": repr}));
                    if !diffs.is_empty() {
                        let class = diffs.join("+");
                        r.dev(format!("C05/field/{class}"), class.clone(), || json!({"ctx": ctx(), "expected": format!("{e:?}"), "actual": repr}));
                    }
                    base = Some(repr);
                } else if let Some(b) = &base {
                    if *b != repr {
                        r.dev("C05/body-changes-result", "body-changes-result", || json!({"ctx": ctx(), "without_body": b, "with_body": repr}));
                    }
                } else if !diffs.is_empty() {
                    let class = diffs.join("+");
                    r.dev(format!("C05/field/{class}"), class.clone(), || json!({"ctx": ctx(), "expected": format!("{e:?}"), "actual": repr}));
                }
            }
        }
    }
}

const SPECIAL: [&str; 6] = ["user-agent", "accept-language", "cookie", "referer", "host", "server"];
fn dup_special(list: &[(String, String)]) -> bool {
    let mut seen = std::collections::BTreeSet::new();
    list.iter().any(|(n, _)| {
        let l = n.to_ascii_lowercase();
        !seen.insert(l.clone()) && SPECIAL.contains(&l.as_str())
    })
}
fn s(x: &str) -> String {
    x.to_string()
}

pub fn header_lists(request: bool, max: usize) -> Vec<Vec<(String, String)>> {
    let names: Vec<&str> = if request { vec!["Host", "host", "HOST", "User-Agent", "Accept", "Accept-Language", "Accept-Encoding", "Cookie", "Referer", "Cache-Control", "Connection", "X-A", "Via", "Keep-Alive"] } else { vec!["Server", "server", "Content-Type", "Date", "Set-Cookie", "Content-Length", "Connection", "X-A", "ETag", "Accept-Ranges", "Vary", "Keep-Alive"] };
    let values = ["v", " v ", "\tw\t", "a:b", "\u{fc}ber", "", "a, b;q=0.5", "x=1; y=2", "k=[v]", "en-US,en;q=0.9", "sid=YWJjZA==; prefs=lang=en; bare; =v; e="];
    let hdrs: Vec<(String, String)> = names.iter().flat_map(|n| values.iter().map(move |v| (s(n), s(v)))).collect();
    let mut out: Vec<Vec<(String, String)>> = vec![vec![]];
    let mut cur: Vec<Vec<(String, String)>> = vec![vec![]];
    for depth in 0..max {
        let mut next = vec![];
        for l in &cur {
            for (i, h) in hdrs.iter().enumerate() {
                // beyond length 2 thin the value alphabet (every name, three values)
                if depth >= 2 && i % values.len() > 2 {
                    continue;
                }
                let mut n = l.clone();
                n.push(h.clone());
                if !dup_special(&n) {
                    next.push(n);
                }
            }
        }
        out.extend(next.clone());
        cur = next;
    }
    out
}

pub fn lang_values() -> Vec<String> {
    let tags = ["en", "fr", "de", "es-MX", "fil-PH", "en_US"];
    let qs = [None, Some("1"), Some("0.9"), Some("0.5"), Some("0.1")];
    let mut items: Vec<Vec<String>> = vec![];
    for t in tags {
        for q in qs {
            for ws in ["", " "] {
                items.push(vec![match q {
                    None => s(t),
                    Some(q) => format!("{t};{ws}q={q}"),
                }]);
            }
        }
    }
    let flat: Vec<String> = items.into_iter().flatten().collect();
    let mut out = vec![];
    for a in &flat {
        out.push(a.clone());
        for b in &flat {
            for sep in [",", ", "] {
                out.push(format!("{a}{sep}{b}"));
            }
        }
    }
    // triples over a thinner alphabet
    let thin: Vec<&String> = flat.iter().step_by(3).collect();
    for a in &thin {
        for b in &thin {
            for c in &thin {
                out.push(format!("{a},{b}, {c}"));
            }
        }
    }
    out
}

pub fn run(thorough: bool) -> Outcome {
    let mut msgs: Vec<(Msg, &'static str)> = vec![];
    // start lines
    for method in ["GET", "POST", "PUT", "DELETE", "HEAD", "OPTIONS", "PATCH", "TRACE", "CONNECT", "PROPFIND", "PROPPATCH", "MKCOL", "COPY", "MOVE", "LOCK", "UNLOCK"] {
        for target in ["/", "/a?b=c", "*", "http://h.example/x%20y"] {
            for version in ["HTTP/1.0", "HTTP/1.1"] {
                msgs.push((Msg::request(version, method, target, vec![(s("Host"), s("h.example")), (s("User-Agent"), s("curl/8.0"))]), "start-line"));
            }
        }
    }
    for status in [100u16, 200, 204, 404, 599] {
        for reason in ["", "OK", "Not Found"] {
            for version in ["HTTP/1.0", "HTTP/1.1"] {
                msgs.push((Msg::response(version, status, reason, vec![(s("Server"), s("nginx/1.2")), (s("Content-Type"), s("text/html"))]), "status-line"));
            }
        }
    }
    // the shortest well-formed heads: a start line and the blank line, nothing else (17 .. 20 bytes for a response with an
    // empty reason phrase)
    for version in ["HTTP/1.0", "HTTP/1.1"] {
        for status in [100u16, 200, 204, 304, 404] {
            for reason in ["", "K", "OK"] {
                msgs.push((Msg::response(version, status, reason, vec![]), "minimal-head"));
            }
        }
        for (method, target) in [("GET", "/"), ("HEAD", "/"), ("OPTIONS", "*"), ("GET", "/a")] {
            msgs.push((Msg::request(version, method, target, vec![]), "minimal-head"));
        }
    }
    // header lists
    let max = if thorough { 3 } else { 2 };
    for l in header_lists(true, max) {
        msgs.push((Msg::request("HTTP/1.1", "GET", "/p?q=1", l), "request-headers"));
    }
    for l in header_lists(false, max) {
        msgs.push((Msg::response("HTTP/1.1", 200, "OK", l), "response-headers"));
    }
    // header names that merely begin with, end with or contain the name of a header the analyzer treats specially (Cookie2 of
    // RFC 2965, Cookie-Consent, X-Cookie, Referer-Policy, Server-Timing ...): alone, before and after the real one
    {
        let near_req: [(&str, &[&str]); 5] = [("Cookie", &["Cookie2", "Cookie-Consent", "X-Cookie", "Set-Cookie", "Cookies"]), ("Referer", &["Referer-Policy", "X-Referer", "Referers"]), ("User-Agent", &["User-Agent-Extra", "X-User-Agent", "User-Agents"]), ("Accept-Language", &["Accept-Language-X", "X-Accept-Language"]), ("Host", &["Hostname", "X-Host", "Host-Id"])];
        for (real, nears) in near_req {
            for near in nears {
                let real_v = if real == "Cookie" { "sid=abc; theme=dark" } else if real == "Accept-Language" { "fr-CH, fr;q=0.9" } else { "real.example" };
                let near_v = if real == "Cookie" { "$Version=1; other=2" } else if real == "Accept-Language" { "de" } else { "near.example" };
                for l in [vec![(s(near), s(near_v))], vec![(s(real), s(real_v)), (s(near), s(near_v))], vec![(s(near), s(near_v)), (s(real), s(real_v))], vec![(s("Host"), s("h.example")), (s(&near.to_ascii_lowercase()), s(near_v)), (s("Accept"), s("*/*"))]] {
                    if !dup_special(&l) {
                        msgs.push((Msg::request("HTTP/1.1", "GET", "/p", l), "near-miss-header-names"));
                    }
                }
            }
        }
        for near in ["Server-Timing", "X-Server", "Servers", "Server-Id"] {
            for l in [vec![(s(near), s("near/1.0"))], vec![(s("Server"), s("real/2.0")), (s(near), s("near/1.0"))], vec![(s(near), s("near/1.0")), (s("Server"), s("real/2.0"))]] {
                msgs.push((Msg::response("HTTP/1.1", 200, "OK", l), "near-miss-header-names"));
            }
        }
    }
    // long lists: 99 and 100 headers
    for n in [98usize, 99, 100] {
        let mut l: Vec<(String, String)> = vec![(s("Host"), s("h"))];
        for i in 0..(n - 1) {
            l.push((format!("X-H{i}"), format!("v{i}")));
        }
        msgs.push((Msg::request("HTTP/1.1", "GET", "/", l.clone()), "long-list"));
        msgs.push((Msg::response("HTTP/1.0", 200, "OK", l), "long-list"));
    }
    // Accept-Language
    for v in lang_values() {
        msgs.push((Msg::request("HTTP/1.1", "GET", "/", vec![(s("Host"), s("h")), (s("Accept-Language"), v), (s("User-Agent"), s("Mozilla/5.0"))]), "accept-language"));
    }
    let n = msgs.len();
    let rep = par_slices(n, 256, |rg| {
        let mut r = Report::new();
        let p = HttpProcessors::new();
        for i in rg {
            check_msg(&mut r, &p, &msgs[i].0, msgs[i].1);
        }
        r
    });
    let mut total = rep;
    // packet-level route: SYN, then the head (+ body) in one data segment, for the start-line and long-list families
    let d = crate::drv::db();
    for (m, fam) in msgs.iter().filter(|(_, f)| *f == "start-line" || *f == "status-line" || *f == "long-list") {
        for (bname, body) in bodies().into_iter().filter(|(b, _)| ["empty", "gzip-magic", "header-like", "h2-preface-in-text"].contains(b)) {
            let mut data = m.head1("\r\n");
            data.extend(&body);
            if data.len() > 60000 {
                continue;
            }
            total.exec(3);
            let (c, sv) = ((1u8, 40000u16), (2u8, 80u16));
            let syn = pkt::build(&Spec { src: c.0, sport: c.1, dst: sv.0, dport: sv.1, flags: SYN, seq: 999, ..Spec::default() });
            let seg = if m.request { pkt::build(&Spec { src: c.0, sport: c.1, dst: sv.0, dport: sv.1, flags: ACK | PSH, seq: 1000, ack: 1, payload: data.clone(), ..Spec::default() }) } else { pkt::build(&Spec { src: sv.0, sport: sv.1, dst: c.0, dport: c.1, flags: ACK | PSH, seq: 5000, ack: 1, payload: data.clone(), ..Spec::default() }) };
            let res = guarded(|| {
                let mut a = HttpSeq::new(Some(d), 8);
                a.feed(&syn);
                a.feed(&seg)
            });
            let e = expect(m);
            let ctx = || json!({"family": fam, "msg": m, "body": bname, "route": "packets"});
            match res {
                Err(p) => total.dev("C05/panic", "panic", || json!({"ctx": ctx(), "detail": p})),
                Ok(x) => {
                    let diffs = if m.request { x.request.as_ref().map(|q| diff_request(&e, q)) } else { x.response.as_ref().map(|q| diff_response(&e, q)) };
                    match diffs {
                        None => {
                            let class = if std::str::from_utf8(&body).is_err() { "non-utf8-body-suppresses-result" } else { "packets/head-not-reported" };
                            total.dev(format!("C05/{class}"), class, || json!({"ctx": ctx()}))
                        }
                        Some(dv) if !dv.is_empty() => total.dev(format!("C05/packets/field/{}", dv.join("+")), "packets-field", || json!({"ctx": ctx(), "diff": dv})),
                        _ => {}
                    }
                }
            }
        }
    }
    total = total.merge(large_bodies());
    Outcome {
        report: total,
        rule: "heads from the grammar: 16 methods x 4 targets x 2 versions; 5 status codes x 3 reasons x 2 versions; every header list of length <= 2 (3 thorough) over 14/12 names incl. case variants x 11 values (UTF-8, inner colon, brackets, empty, surrounding blanks and tabs); 98/99/100-header lists; Accept-Language lists of 1-3 tags with q-values and optional blanks; each followed by 12 bodies (binary, text with CRLF/LF blank lines, header-like, quoting the HTTP/2 preface; start and status lines: every concatenation of up to 3 of 12 atoms incl. the opening bytes of HTTP/2, HTTP/1 and TLS); parser route and packet route; large bodies: one POST exchange with every pair of 11 request / 11 response body sizes from 0 to the largest IPv4 TCP payload x request in 1 / 2 / 2+1 segments x 3 fill bytes, reports equal to the body-less exchange; distinct = distinct reported observations".into(),
        exhaustive: true,
        bounds: json!({"messages": n, "bodies": bodies().len(), "max_header_list": max}),
    }
}

/// "Any body leaves the result unchanged" at the sizes where buffering limits live: one exchange (SYN, SYN+ACK, POST with
/// a body of b1 bytes in one or two segments, response with a body of b2 bytes) for every pair of body sizes from 0 up to
/// the largest TCP payload an IPv4 packet can carry; the request and the response report must equal those of the
/// body-less exchange.
fn large_bodies() -> Report {
    let d = crate::drv::db();
    let req_head = b"POST /upload HTTP/1.1\r\nHost: big.example\r\nUser-Agent: curl/7.68.0\r\nAccept: */*\r\nContent-Type: application/octet-stream\r\n\r\n".to_vec();
    let resp_head = b"HTTP/1.1 200 OK\r\nServer: nginx/1.2.1\r\nContent-Type: text/html\r\nConnection: keep-alive\r\n\r\n".to_vec();
    let max1 = 65535 - 40 - req_head.len();
    let max2 = 65535 - 40 - resp_head.len();
    let sizes = |max: usize| vec![0usize, 1, 1460, 16_384, 32_768, 65_536 / 2 + 1, 60_000, 64_000, 64_800, max - 1, max];
    let run = |b1: usize, b2: usize, split: usize, fill: u8| {
        let (c, sv) = ((1u8, 40000u16), (2u8, 80u16));
        let mut frames = vec![
            pkt::build(&Spec { src: c.0, sport: c.1, dst: sv.0, dport: sv.1, flags: SYN, seq: 999, ..Spec::default() }),
            pkt::build(&Spec { src: sv.0, sport: sv.1, dst: c.0, dport: c.1, flags: SYN | ACK, seq: 4999, ack: 1000, ..Spec::default() }),
        ];
        let mut data = req_head.clone();
        data.extend(std::iter::repeat(fill).take(b1));
        let mut seq = 1000u32;
        // split == 2: the request arrives in two segments, cut in the middle of the body; split == 3: the body is followed
        // by a second body-sized segment (more request bytes than any limit per direction)
        let cut = if split >= 2 && b1 > 1 { req_head.len() + b1 / 2 } else { data.len() };
        for part in [&data[..cut], &data[cut..]] {
            if !part.is_empty() {
                frames.push(pkt::build(&Spec { src: c.0, sport: c.1, dst: sv.0, dport: sv.1, flags: ACK | PSH, seq, ack: 5000, payload: part.to_vec(), ..Spec::default() }));
                seq = seq.wrapping_add(part.len() as u32);
            }
        }
        if split == 3 && b1 > 0 {
            frames.push(pkt::build(&Spec { src: c.0, sport: c.1, dst: sv.0, dport: sv.1, flags: ACK | PSH, seq, ack: 5000, payload: vec![fill; b1.min(65000)], ..Spec::default() }));
        }
        let mut rdata = resp_head.clone();
        rdata.extend(std::iter::repeat(fill).take(b2));
        frames.push(pkt::build(&Spec { src: sv.0, sport: sv.1, dst: c.0, dport: c.1, flags: ACK | PSH, seq: 5000, ack: seq, payload: rdata, ..Spec::default() }));
        guarded(|| {
            let mut a = HttpSeq::new(Some(d), 8);
            let rs: Vec<_> = frames.iter().map(|f| a.feed(f)).collect();
            (rs.iter().filter_map(|x| x.request.clone()).collect::<Vec<_>>(), rs.iter().filter_map(|x| x.response.clone()).collect::<Vec<_>>())
        })
    };
    let mut r = Report::new();
    let base = match run(0, 0, 1, b'x') {
        Ok(b) if b.0.len() == 1 && b.1.len() == 1 => b,
        other => {
            r.machinery_error(format!("large-bodies: the body-less exchange is not reported once per direction: {other:?}"));
            return r;
        }
    };
    for &b1 in &sizes(max1) {
        for &b2 in &sizes(max2) {
            for split in [1usize, 2, 3] {
                for fill in [b'x', 0u8, b'\n'] {
                    r.exec(1);
                    let ctx = || json!({"kind": "large-bodies", "request_body": b1, "response_body": b2, "request_segments": split, "fill": fill});
                    match run(b1, b2, split, fill) {
                        Err(p) => r.dev("C05/panic", "panic", || json!({"ctx": ctx(), "detail": p})),
                        Ok(g) => {
                            r.outcome(&("large", g.0.len(), g.1.len()));
                            if g.0 != base.0 {
                                r.dev("C05/large-body/request-report-changes", "body-changes-result", || json!({"ctx": ctx(), "reports": g.0.len()}));
                            }
                            if g.1 != base.1 {
                                r.dev("C05/large-body/response-report-changes", "body-changes-result", || json!({"ctx": ctx(), "reports": g.1.len()}));
                            }
                        }
                    }
                }
            }
        }
    }
    r
}

pub fn replay(ex: &Value) -> Report {
    if ex["ctx"]["kind"].as_str() == Some("large-bodies") {
        return large_bodies();
    }
    let mut r = Report::new();
    match serde_json::from_value::<Msg>(ex["ctx"]["msg"].clone()) {
        Ok(m) => check_msg(&mut r, &HttpProcessors::new(), &m, "replay"),
        Err(_) => r.machinery_error("bad replay file"),
    }
    r
}
