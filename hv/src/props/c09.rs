//! C09 — HTTP stream reassembly is invariant to segmentation, sequence origin and arrival order.
//! Histories: SYN, SYN+ACK, then the data segments of a partition of the request / response bytes, with every
//! initial sequence number of an alphabet that straddles 2^32, in every arrival permutation (<= 4 segments) and
//! direction interleaving, on a fresh HTTP pipeline. Oracle: final request/response equal the single-segment
//! result, each at most once, from the sending direction, and never before the contiguous prefix received so far
//! holds the complete head (reference byte-range tracker).
use crate::drv::{HttpRes, HttpSeq};
use crate::gen::h2::{self, Framing, HpackEnc, Rep};
use crate::gen::pkt::{self, Spec, ACK, PSH, SYN};
use crate::report::{guarded, par_slices, Report};
use crate::Outcome;
use serde::{Deserialize, Serialize};
use serde_json::{json, Value};

#[derive(Clone, Debug, Serialize, Deserialize, PartialEq)]
pub struct Hist {
    pub stream: usize,
    pub client_isn: u32,
    pub server_isn: u32,
    /// data segments in arrival order: (from client, offset in that direction's byte stream, length)
    pub segs: Vec<(bool, usize, usize)>,
    /// how the handshake reaches the analyzer: 0 = SYN, SYN+ACK; 1 = SYN+ACK captured before the SYN; 2 = SYN, SYN+ACK and a
    /// retransmitted SYN+ACK; 3 = an earlier connection attempt between the same endpoints with the roles reversed (its
    /// lone SYN), then SYN, SYN+ACK; 4 = a stray SYN+ACK of the server long before, then SYN, SYN+ACK
    #[serde(default)]
    pub handshake: u8,
    /// connection teardown mixed into the exchange: 0 = none; 1 = the server's segment that carries its last byte also
    /// carries FIN; 2 = the client half-closes with an empty FIN right after the segment that carries its last byte;
    /// 3 = the client's last segment itself carries FIN (client segments in order; the response is then left open: the
    /// analyzer forgets a connection whose client has closed)
    #[serde(default)]
    pub fin: u8,
    /// TCP keep-alive probes on the idle connection before any data: a segment one byte BEFORE the first byte of the
    /// stream (sequence number = ISN) carrying one garbage byte (RFC 1122 4.2.3.6); bit 0 = from the client, bit 1 = from
    /// the server, bit 2 = the probes arrive twice
    #[serde(default)]
    pub probe: u8,
    /// TCP Fast Open style: the first `syn_bytes` bytes of the request travel in the SYN itself (they occupy the sequence
    /// numbers from ISN+1 on, like any first segment); `segs` then describe the rest of the client stream
    #[serde(default)]
    pub syn_bytes: usize,
}

pub fn streams() -> Vec<(&'static str, Vec<u8>, Vec<u8>)> {
    let req1 = b"GET /index.html HTTP/1.1\r\nHost: www.example.org\r\nUser-Agent: Mozilla/5.0 (X11) Firefox/99\r\nAccept: */*\r\n\r\n".to_vec();
    let resp1 = b"HTTP/1.1 200 OK\r\nServer: nginx/1.2.3\r\nContent-Type: text/html\r\nDate: Mon, 01 Jan 2024 00:00:00 GMT\r\nContent-Length: 12\r\n\r\nhello, world".to_vec();
    let mut e = HpackEnc::default();
    let mut b = vec![];
    for (n, v) in [(":method", "GET"), (":path", "/"), (":scheme", "https"), (":authority", "h2.example"), ("user-agent", "curl/8.0"), ("accept", "*/*")] {
        b.extend(e.field(n, v, Rep::Indexed, false, false));
    }
    let mut req2 = h2::PREFACE.to_vec();
    req2.extend(h2::settings(&[(3, 100)]));
    req2.extend(h2::headers_frames(1, &b, &Framing { end_stream: true, ..Default::default() }));
    let mut e = HpackEnc::default();
    let mut b = vec![];
    for (n, v) in [(":status", "200"), ("server", "h2o/2.2"), ("content-type", "text/plain")] {
        b.extend(e.field(n, v, Rep::LitNoIdxIndexedName, false, false));
    }
    let mut resp2 = h2::settings(&[]);
    resp2.extend(h2::headers_frames(1, &b, &Framing::default()));
    resp2.extend(h2::frame(0, 1, 1, b"body"));
    // bare-LF line ends with CRLF blank lines inside the bodies, and CRLF line ends with LF blank lines inside the bodies:
    // the head ends at the FIRST blank line of either style
    let req3 = b"POST /submit HTTP/1.1\nHost: lf.example\nUser-Agent: curl/8.0\nContent-Length: 14\n\nab\r\n\r\ncd\r\n\r\nef".to_vec();
    let resp3 = b"HTTP/1.1 200 OK\nServer: Apache\nContent-Type: text/plain\n\nline\r\n\r\nX: y\r\n\r\n".to_vec();
    let req4 = b"POST /submit HTTP/1.1\r\nHost: crlf.example\r\nUser-Agent: curl/8.0\r\nContent-Length: 9\r\n\r\nab\n\ncd\n\nX".to_vec();
    let resp4 = b"HTTP/1.1 404 Not Found\r\nServer: nginx/1.2.3\r\nContent-Type: text/html\r\n\r\nline\n\nX: y\n\n".to_vec();
    // HTTP/2 header blocks spread over HEADERS + CONTINUATION frames, the first fragment ending on a field boundary after
    // the pseudo-headers (so that it decodes on its own): the head is complete only with the END_HEADERS frame
    let mut e = HpackEnc::default();
    let mut b = vec![];
    let mut cuts = vec![];
    for (i, (n, v)) in [(":method", "GET"), (":path", "/"), (":scheme", "https"), (":authority", "h2c.example"), ("user-agent", "curl/8.0"), ("accept-language", "fr")].iter().enumerate() {
        b.extend(e.field(n, v, Rep::Indexed, false, false));
        if i == 2 || i == 4 {
            cuts.push(b.len());
        }
    }
    let mut req5 = h2::PREFACE.to_vec();
    req5.extend(h2::settings(&[(3, 100)]));
    req5.extend(h2::headers_frames(1, &b, &Framing { end_stream: true, splits: cuts, ..Default::default() }));
    let mut e = HpackEnc::default();
    let mut b = vec![];
    let mut cuts = vec![];
    for (i, (n, v)) in [(":status", "200"), ("server", "h2o/2.2"), ("content-type", "text/plain")].iter().enumerate() {
        b.extend(e.field(n, v, Rep::LitNoIdxIndexedName, false, false));
        if i == 0 {
            cuts.push(b.len());
        }
    }
    let mut resp5 = h2::settings(&[]);
    resp5.extend(h2::headers_frames(1, &b, &Framing { splits: cuts, ..Default::default() }));
    resp5.extend(h2::frame(0, 1, 1, b"body"));
    // bodies that are not text (JPEG magic, lone continuation bytes, 0xff): the head must be found wherever the body bytes land
    let mut req6 = b"POST /upload HTTP/1.1\r\nHost: bin.example\r\nUser-Agent: curl/8.0\r\nContent-Type: image/jpeg\r\nContent-Length: 12\r\n\r\n".to_vec();
    req6.extend([0xff, 0xd8, 0xff, 0xe0, 0x00, 0x10, 0x80, 0xbf, 0xc3, 0x28, 0xfe, 0xff]);
    let mut resp6 = b"HTTP/1.1 200 OK\r\nServer: nginx/1.2.3\r\nContent-Type: application/octet-stream\r\n\r\n".to_vec();
    resp6.extend([0x1f, 0x8b, 0x08, 0x00, 0xff, 0xfe, 0x80, 0x00, 0xc0, 0xaf]);
    vec![("http1", req1, resp1), ("http2", req2, resp2), ("http1-lf-head-crlf-blank-lines-in-body", req3, resp3), ("http1-crlf-head-lf-blank-lines-in-body", req4, resp4), ("http2-continuation", req5, resp5), ("http1-binary-bodies", req6, resp6)]
}
/// number of bytes of the direction's stream that must be contiguous from the start for the head to be complete
fn head_len(stream: usize, client: bool, bytes: &[u8]) -> usize {
    if stream != 1 && stream != 4 {
        // HTTP/1: the first blank line of either style ends the head
        let crlf = bytes.windows(4).position(|w| w == b"\r\n\r\n").map(|i| i + 4).unwrap_or(bytes.len());
        let lf = bytes.windows(2).position(|w| w == b"\n\n").map(|i| i + 2).unwrap_or(bytes.len());
        crlf.min(lf)
    } else {
        // HTTP/2: up to the end of the HEADERS frame
        let mut off = if client { h2::PREFACE.len() } else { 0 };
        loop {
            let len = ((bytes[off] as usize) << 16) | ((bytes[off + 1] as usize) << 8) | bytes[off + 2] as usize;
            let (t, fl) = (bytes[off + 3], bytes[off + 4]);
            off += 9 + len;
            // HEADERS or CONTINUATION carrying END_HEADERS completes the head
            if (t == 1 || t == 9) && fl & 0x4 != 0 {
                return off;
            }
        }
    }
}

fn frame_for(h: &Hist, req: &[u8], resp: &[u8], s: &(bool, usize, usize)) -> Vec<u8> {
    let (client, off, len) = *s;
    let (bytes, isn) = if client { (req, h.client_isn) } else { (resp, h.server_isn) };
    let seq = isn.wrapping_add(1).wrapping_add(off as u32);
    let (src, sport, dst, dport) = if client { (1u8, 40000u16, 2u8, 80u16) } else { (2, 80, 1, 40000) };
    let last = off + len == bytes.len();
    let fin = if last && ((h.fin == 1 && !client) || (h.fin == 3 && client)) { 1u8 } else { 0 };
    pkt::build(&Spec { src, sport, dst, dport, flags: ACK | PSH | fin, seq, ack: 1, payload: bytes[off..off + len].to_vec(), ..Spec::default() })
}
fn summary(x: &HttpRes) -> (Option<String>, Option<String>) {
    (x.request.as_ref().map(|q| format!("{}>{} {} {:?} {:?} {:?}", q.src, q.dst, q.sig, q.method, q.uri, q.headers)), x.response.as_ref().map(|q| format!("{}>{} {} {:?} {:?}", q.src, q.dst, q.sig, q.status, q.headers)))
}

pub fn check(r: &mut Report, ss: &[(&'static str, Vec<u8>, Vec<u8>)], refs: &[(Option<String>, Option<String>)], h: &Hist) {
    let (name, req, resp) = &ss[h.stream];
    // every third history opens with an ECN-setup handshake (RFC 3168: SYN+ECE+CWR answered by SYN+ACK+ECE), as hosts with
    // ECN switched on send it: further flag bits on the handshake segments change nothing about where the streams begin
    let ecn = (h.segs.iter().map(|s| s.1 + 2 * s.2).sum::<usize>() + h.segs.len()) % 3 == 0;
    let syn = pkt::build(&Spec { src: 1, sport: 40000, dst: 2, dport: 80, flags: SYN | if ecn { 0xc0 } else { 0 }, seq: h.client_isn, payload: req[..h.syn_bytes.min(req.len())].to_vec(), ..Spec::default() });
    let synack = pkt::build(&Spec { src: 2, sport: 80, dst: 1, dport: 40000, flags: SYN | ACK | if ecn { 0x40 } else { 0 }, seq: h.server_isn, ack: h.client_isn.wrapping_add(1), ..Spec::default() });
    let frames: Vec<Vec<u8>> = h.segs.iter().map(|s| frame_for(h, req, resp, s)).collect();
    // every other history is captured on an Ethernet link that shows the padding of short frames and the frame check
    // sequence behind the IP packet: bytes that are not part of any segment
    let trailer = (h.segs.iter().map(|s| s.1 + s.2).sum::<usize>() + h.segs.len()) % 2 == 1;
    let (syn, synack, frames) = if trailer { (pkt::ethernet_with_trailer(&syn), pkt::ethernet_with_trailer(&synack), frames.iter().map(|f| pkt::ethernet_with_trailer(f)).collect()) } else { (syn, synack, frames) };
    r.exec(2 + frames.len() as u64);
    let got = guarded(|| {
        let mut a = HttpSeq::new(None, 8);
        let (first, second) = match h.handshake {
            1 => {
                let x = a.feed(&synack);
                (a.feed(&syn), x)
            }
            2 => {
                let x = a.feed(&syn);
                let y = a.feed(&synack);
                let _ = a.feed(&synack);
                (x, y)
            }
            3 => {
                let _ = a.feed(&pkt::build(&Spec { src: 2, sport: 80, dst: 1, dport: 40000, flags: SYN, seq: 77, ..Spec::default() }));
                (a.feed(&syn), a.feed(&synack))
            }
            4 => {
                let _ = a.feed(&pkt::build(&Spec { src: 2, sport: 80, dst: 1, dport: 40000, flags: SYN | ACK, seq: 4242, ack: 99, ..Spec::default() }));
                (a.feed(&syn), a.feed(&synack))
            }
            _ => (a.feed(&syn), a.feed(&synack)),
        };
        let mut out = vec![summary(&first), summary(&second)];
        for _ in 0..(if h.probe & 4 != 0 { 2 } else { 1 }) {
            if h.probe & 1 != 0 {
                let _ = a.feed(&pkt::build(&Spec { src: 1, sport: 40000, dst: 2, dport: 80, flags: ACK, seq: h.client_isn, ack: 1, payload: vec![0], ..Spec::default() }));
            }
            if h.probe & 2 != 0 {
                let _ = a.feed(&pkt::build(&Spec { src: 2, sport: 80, dst: 1, dport: 40000, flags: ACK, seq: h.server_isn, ack: 1, payload: vec![b'G'], ..Spec::default() }));
            }
        }
        for (i, f) in frames.iter().enumerate() {
            out.push(summary(&a.feed(f)));
            let sg = h.segs[i];
            if h.fin == 2 && sg.0 && sg.1 + sg.2 == req.len() {
                let _ = a.feed(&pkt::build(&Spec { src: 1, sport: 40000, dst: 2, dport: 80, flags: ACK | 1, seq: h.client_isn.wrapping_add(1).wrapping_add(req.len() as u32), ack: 1, ..Spec::default() }));
            }
        }
        out
    });
    let got = match got {
        Ok(g) => g,
        Err(p) => {
            r.dev("C09/panic", "panic", || json!({"history": h, "stream": name, "detail": p}));
            return;
        }
    };
    r.outcome(&(h.stream, got.iter().map(|g| (g.0.is_some(), g.1.is_some())).collect::<Vec<_>>()));
    let (exp_req, exp_resp) = &refs[h.stream];
    // reference byte-range tracker per direction
    let (hl_c, hl_s) = (head_len(h.stream, true, req), head_len(h.stream, false, resp));
    let mut have_c: Vec<(usize, usize)> = if h.syn_bytes > 0 { vec![(0, h.syn_bytes.min(req.len()))] } else { vec![] };
    let mut have_s: Vec<(usize, usize)> = vec![];
    let prefix = |have: &[(usize, usize)]| -> usize {
        let mut v = have.to_vec();
        v.sort();
        let mut p = 0;
        for (o, l) in v {
            if o <= p {
                p = p.max(o + l);
            } else {
                break;
            }
        }
        p
    };
    let mut seen_req = 0;
    let mut seen_resp = 0;
    let wrapish = h.client_isn > u32::MAX - 400 || h.server_isn > u32::MAX - 400;
    let in_order = {
        let c: Vec<usize> = h.segs.iter().filter(|s| s.0).map(|s| s.1).collect();
        let sv: Vec<usize> = h.segs.iter().filter(|s| !s.0).map(|s| s.1).collect();
        c.windows(2).all(|w| w[0] < w[1]) && sv.windows(2).all(|w| w[0] < w[1])
    };
    let tag = format!("{}{}", if wrapish { "sequence-wrap" } else { "no-wrap" }, if in_order { "" } else { "+out-of-order" });
    let mut dev = |r: &mut Report, class: &str, detail: String| {
        r.dev(format!("C09/{name}/{class}/{tag}"), class, || json!({"history": h, "stream": name, "detail": detail, "per_packet": got.iter().map(|g| (g.0.is_some(), g.1.is_some())).collect::<Vec<_>>()}));
    };
    if got[0].0.is_some() || got[0].1.is_some() || got[1].0.is_some() || got[1].1.is_some() {
        dev(r, "result-on-handshake-packet", String::new());
    }
    for (i, s) in h.segs.iter().enumerate() {
        if s.0 {
            have_c.push((s.1, s.2));
        } else {
            have_s.push((s.1, s.2));
        }
        let g = &got[i + 2];
        if let Some(q) = &g.0 {
            seen_req += 1;
            if prefix(&have_c) < hl_c {
                dev(r, "request-reported-before-its-head-is-contiguous", format!("segment {i}: contiguous prefix {} < head {hl_c}", prefix(&have_c)));
            } else if Some(q) != exp_req.as_ref() {
                dev(r, "request-differs-from-single-segment-result", format!("segment {i}: {q}"));
            }
            if !s.0 {
                dev(r, "request-reported-on-a-server-segment", format!("segment {i}"));
            }
        }
        if let Some(q) = &g.1 {
            seen_resp += 1;
            if prefix(&have_s) < hl_s {
                dev(r, "response-reported-before-its-head-is-contiguous", format!("segment {i}: contiguous prefix {} < head {hl_s}", prefix(&have_s)));
            } else if Some(q) != exp_resp.as_ref() {
                dev(r, "response-differs-from-single-segment-result", format!("segment {i}: {q}"));
            }
            if s.0 {
                dev(r, "response-reported-on-a-client-segment", format!("segment {i}"));
            }
        }
    }
    if seen_req > 1 || seen_resp > 1 {
        dev(r, "reported-more-than-once", format!("{seen_req} requests, {seen_resp} responses"));
    }
    if prefix(&have_c) >= req.len() && seen_req == 0 {
        dev(r, "request-never-reported", String::new());
    }
    if prefix(&have_s) >= resp.len() && seen_resp == 0 && h.fin != 3 {
        dev(r, "response-never-reported", String::new());
    }
}

fn perms(n: usize) -> Vec<Vec<usize>> {
    crate::gen::tls::perms(&(0..n).collect::<Vec<_>>())
}
/// all partitions of 0..len into k consecutive pieces
fn partitions(len: usize, k: usize) -> Vec<Vec<(usize, usize)>> {
    let mut out = vec![];
    fn rec(len: usize, start: usize, k: usize, cur: &mut Vec<(usize, usize)>, out: &mut Vec<Vec<(usize, usize)>>) {
        if k == 1 {
            cur.push((start, len - start));
            out.push(cur.clone());
            cur.pop();
            return;
        }
        for end in (start + 1)..=(len - (k - 1)) {
            cur.push((start, end - start));
            rec(len, end, k - 1, cur, out);
            cur.pop();
        }
    }
    rec(len, 0, k, &mut vec![], &mut out);
    out
}

pub fn histories(ss: &[(&'static str, Vec<u8>, Vec<u8>)], thorough: bool) -> Vec<Hist> {
    let mut v = vec![];
    for (si, (_n, req, resp)) in ss.iter().enumerate() {
        let isns = |len: usize| -> Vec<u32> { vec![0, 1, 1 << 31, u32::MAX, u32::MAX - len as u32, u32::MAX - (len / 2) as u32, u32::MAX - 1, 0x12345678, (1u32 << 31) - 10] };
        // one direction at a time: every 2- and 3-partition x ISN x arrival permutation; the other direction whole
        for client in [true, false] {
            let bytes = if client { req } else { resp };
            let other = if client { resp.len() } else { req.len() };
            for k in 1..=3usize {
                let parts = partitions(bytes.len(), k);
                let stride = if k == 3 && !thorough { 7 } else { 1 };
                for (pi, part) in parts.iter().enumerate() {
                    if pi % stride != 0 {
                        continue;
                    }
                    for isn in isns(bytes.len()) {
                        for perm in perms(k) {
                            let mut segs: Vec<(bool, usize, usize)> = perm.iter().map(|&i| (client, part[i].0, part[i].1)).collect();
                            // the other direction in one piece, before or after
                            let whole = (!client, 0, other);
                            if client {
                                segs.push(whole);
                            } else {
                                segs.insert(0, whole);
                            }
                            v.push(Hist { stream: si, client_isn: if client { isn } else { 7000 }, server_isn: if client { 9000 } else { isn }, segs, handshake: 0, fin: 0, probe: 0, syn_bytes: 0 });
                        }
                    }
                }
            }
        }
        // both directions in two pieces each: every cut pair on a stride, every interleaving that keeps nothing fixed
        let cstep = if thorough { 1 } else { 11 };
        for c1 in (1..req.len()).step_by(cstep) {
            for c2 in (1..resp.len()).step_by(cstep) {
                let a = [(true, 0, c1), (true, c1, req.len() - c1)];
                let b = [(false, 0, c2), (false, c2, resp.len() - c2)];
                for order in perms(4) {
                    let all = [a[0], a[1], b[0], b[1]];
                    let segs: Vec<(bool, usize, usize)> = order.iter().map(|&i| all[i]).collect();
                    for (ci, sidx) in [(u32::MAX - 20, u32::MAX - 30), (0x1000, 0x2000)] {
                        v.push(Hist { stream: si, client_isn: ci, server_isn: sidx, segs: segs.clone(), handshake: 0, fin: 0, probe: 0, syn_bytes: 0 });
                    }
                }
            }
        }
        // four pieces of the request in all 24 arrival orders (cut positions on a stride)
        let step = if thorough { 3 } else { 23 };
        for c1 in (1..req.len()).step_by(step) {
            for c2 in ((c1 + 1)..req.len()).step_by(step) {
                for c3 in ((c2 + 1)..req.len()).step_by(step) {
                    let part = [(0, c1), (c1, c2 - c1), (c2, c3 - c2), (c3, req.len() - c3)];
                    for perm in perms(4) {
                        for isn in [u32::MAX - (c2 as u32), 5] {
                            let mut segs: Vec<(bool, usize, usize)> = perm.iter().map(|&i| (true, part[i].0, part[i].1)).collect();
                            segs.push((false, 0, resp.len()));
                            v.push(Hist { stream: si, client_isn: isn, server_isn: 1, segs, handshake: 0, fin: 0, probe: 0, syn_bytes: 0 });
                        }
                    }
                }
            }
        }
        // request bytes in the SYN (TCP Fast Open), at the initial sequence numbers around the wrap and elsewhere
        for k in [1usize, 10, 40] {
            if k >= req.len() {
                continue;
            }
            for ci in [u32::MAX, u32::MAX - 1, u32::MAX - k as u32, u32::MAX - req.len() as u32, 0, 1, 0x1000, 1 << 31] {
                let rest = req.len() - k;
                v.push(Hist { stream: si, client_isn: ci, server_isn: 0x2000, segs: vec![(true, k, rest), (false, 0, resp.len())], handshake: 0, fin: 0, probe: 0, syn_bytes: k });
                for c1 in (1..rest).step_by(19) {
                    v.push(Hist { stream: si, client_isn: ci, server_isn: u32::MAX, segs: vec![(true, k, c1), (true, k + c1, rest - c1), (false, 0, resp.len())], handshake: 0, fin: 0, probe: 0, syn_bytes: k });
                    v.push(Hist { stream: si, client_isn: ci, server_isn: 7, segs: vec![(true, k + c1, rest - c1), (true, k, c1), (false, 0, resp.len())], handshake: 0, fin: 0, probe: 0, syn_bytes: k });
                }
            }
        }
        // keep-alive probes before the data
        for probe in [1u8, 2, 3, 7] {
            for (ci, sidx) in [(0x1000u32, 0x2000u32), (u32::MAX - 20, u32::MAX - 30), (0, 0), (u32::MAX, u32::MAX)] {
                v.push(Hist { stream: si, client_isn: ci, server_isn: sidx, segs: vec![(true, 0, req.len()), (false, 0, resp.len())], handshake: 0, fin: 0, probe, syn_bytes: 0 });
                for c1 in (1..req.len()).step_by(17) {
                    for c2 in (1..resp.len()).step_by(17) {
                        let (a, b, c, d) = ((true, 0, c1), (true, c1, req.len() - c1), (false, 0, c2), (false, c2, resp.len() - c2));
                        v.push(Hist { stream: si, client_isn: ci, server_isn: sidx, segs: vec![a, b, c, d], handshake: 0, fin: 0, probe, syn_bytes: 0 });
                        v.push(Hist { stream: si, client_isn: ci, server_isn: sidx, segs: vec![b, a, d, c], handshake: 0, fin: 0, probe, syn_bytes: 0 });
                    }
                }
            }
        }
        // teardown flags inside the exchange
        for fin in 1..=3u8 {
            for (ci, sidx) in [(0x1000u32, 0x2000u32), (u32::MAX - 20, u32::MAX - 30)] {
                v.push(Hist { stream: si, client_isn: ci, server_isn: sidx, segs: vec![(true, 0, req.len()), (false, 0, resp.len())], handshake: 0, fin, probe: 0, syn_bytes: 0 });
                for c1 in (1..req.len()).step_by(13) {
                    for c2 in (1..resp.len()).step_by(13) {
                        let (a, b, c, d) = ((true, 0, c1), (true, c1, req.len() - c1), (false, 0, c2), (false, c2, resp.len() - c2));
                        v.push(Hist { stream: si, client_isn: ci, server_isn: sidx, segs: vec![a, b, c, d], handshake: 0, fin, probe: 0, syn_bytes: 0 });
                        // the server's pieces swapped (the FIN-carrying one first); the client's stay in order
                        v.push(Hist { stream: si, client_isn: ci, server_isn: sidx, segs: vec![a, b, d, c], handshake: 0, fin, probe: 0, syn_bytes: 0 });
                    }
                }
            }
        }
        // the handshake itself out of order, repeated, or preceded by stale packets between the same endpoints: both
        // directions whole and in two pieces (cuts on a stride), in order and with the response first
        for hs in 1..=4u8 {
            for (ci, sidx) in [(0x1000u32, 0x2000u32), (u32::MAX - 20, u32::MAX - 30)] {
                v.push(Hist { stream: si, client_isn: ci, server_isn: sidx, segs: vec![(true, 0, req.len()), (false, 0, resp.len())], handshake: hs, fin: 0, probe: 0, syn_bytes: 0 });
                v.push(Hist { stream: si, client_isn: ci, server_isn: sidx, segs: vec![(false, 0, resp.len()), (true, 0, req.len())], handshake: hs, fin: 0, probe: 0, syn_bytes: 0 });
                for c1 in (1..req.len()).step_by(13) {
                    for c2 in (1..resp.len()).step_by(13) {
                        v.push(Hist { stream: si, client_isn: ci, server_isn: sidx, segs: vec![(true, 0, c1), (true, c1, req.len() - c1), (false, 0, c2), (false, c2, resp.len() - c2)], handshake: hs, fin: 0, probe: 0, syn_bytes: 0 });
                    }
                }
            }
        }
    }
    v
}

/// Slow connections: the flow table keeps entries for a lifetime measured in REAL time (60 s), so a connection whose
/// packets are 150 ms apart must be reassembled like a fast one. All streams wait at the same time (about 0.6 s in all).
fn slow_connections(r: &mut Report, ss: &[(&'static str, Vec<u8>, Vec<u8>)], refs: &[(Option<String>, Option<String>)]) {
    let mut runs: Vec<(usize, HttpSeq, Vec<Vec<u8>>, Vec<(Option<String>, Option<String>)>)> = vec![];
    for (si, (_n, req, resp)) in ss.iter().enumerate() {
        let h = Hist { stream: si, client_isn: 0x7000, server_isn: 0x9000, segs: vec![(true, 0, req.len() / 2), (true, req.len() / 2, req.len() - req.len() / 2), (false, 0, resp.len() / 2), (false, resp.len() / 2, resp.len() - resp.len() / 2)], handshake: 0, fin: 0, probe: 0, syn_bytes: 0 };
        let mut frames = vec![pkt::build(&Spec { src: 1, sport: 40000, dst: 2, dport: 80, flags: SYN, seq: h.client_isn, ..Spec::default() }), pkt::build(&Spec { src: 2, sport: 80, dst: 1, dport: 40000, flags: SYN | ACK, seq: h.server_isn, ack: h.client_isn.wrapping_add(1), ..Spec::default() })];
        frames.extend(h.segs.iter().map(|sg| frame_for(&h, req, resp, sg)));
        runs.push((si, HttpSeq::new(None, 8), frames, vec![]));
    }
    for step in 0..6 {
        if step > 0 {
            std::thread::sleep(std::time::Duration::from_millis(150));
        }
        for (_, a, frames, out) in runs.iter_mut() {
            let f = frames[step].clone();
            match guarded(|| summary(&a.feed(&f))) {
                Ok(x) => out.push(x),
                Err(_) => out.push((Some("panic".into()), None)),
            }
        }
    }
    for (si, _, _, out) in runs {
        r.exec(6);
        let req = out.iter().filter_map(|x| x.0.clone()).collect::<Vec<_>>();
        let resp = out.iter().filter_map(|x| x.1.clone()).collect::<Vec<_>>();
        let (er, es) = &refs[si];
        r.outcome(&("slow", si, req.len(), resp.len()));
        if req != er.iter().cloned().collect::<Vec<_>>() || resp != es.iter().cloned().collect::<Vec<_>>() {
            r.dev(format!("C09/{}/slow-connection-differs-from-single-segment-result", ss[si].0), "slow", || json!({"kind": "slow", "stream": ss[si].0, "detail": "packets 150 ms of real time apart", "requests": req.len(), "responses": resp.len()}));
        }
    }
}

pub fn run(thorough: bool) -> Outcome {
    let ss = streams();
    // single-segment reference results
    let mut pre = Report::new();
    let refs: Vec<(Option<String>, Option<String>)> = ss
        .iter()
        .enumerate()
        .map(|(si, (_n, req, resp))| {
            // reference: each direction cut exactly behind its head, in order (what the head alone yields); the undivided
            // stream is one of the histories compared with it
            let (hc, hs_) = (head_len(si, true, req), head_len(si, false, resp));
            let mut segs = vec![(true, 0, hc)];
            if hc < req.len() {
                segs.push((true, hc, req.len() - hc));
            }
            segs.push((false, 0, hs_));
            if hs_ < resp.len() {
                segs.push((false, hs_, resp.len() - hs_));
            }
            let h = Hist { stream: si, client_isn: 1000, server_isn: 5000, segs, handshake: 0, fin: 0, probe: 0, syn_bytes: 0 };
            let syn = pkt::build(&Spec { src: 1, sport: 40000, dst: 2, dport: 80, flags: SYN, seq: 1000, ..Spec::default() });
            let mut a = HttpSeq::new(None, 8);
            a.feed(&syn);
            let (mut q, mut p) = (None, None);
            for sg in &h.segs {
                let (x, y) = summary(&a.feed(&frame_for(&h, req, resp, sg)));
                q = q.or(x);
                p = p.or(y);
            }
            (q, p)
        })
        .collect();
    for (i, rf) in refs.iter().enumerate() {
        if rf.0.is_none() || rf.1.is_none() {
            pre.machinery_error(format!("stream {} is not reported even when each direction is cut exactly behind its head", ss[i].0));
        }
        pre.sample(|| json!({"stream": ss[i].0, "request": rf.0, "response": rf.1}));
    }
    let hs = histories(&ss, thorough);
    let rep = par_slices(hs.len(), 512, |rg| {
        let mut r = Report::new();
        for i in rg {
            check(&mut r, &ss, &refs, &hs[i]);
        }
        r
    });
    slow_connections(&mut pre, &ss, &refs);
    Outcome {
        report: pre.merge(rep),
        rule: "HTTP/1 (CRLF heads; bare-LF heads whose bodies contain CRLF blank lines; CRLF heads whose bodies contain LF blank lines; bodies that are not UTF-8) and HTTP/2 (single HEADERS frame; HEADERS + CONTINUATION frames) exchanges after SYN/SYN+ACK, reference = each direction cut exactly behind its head: every 1-, 2- and 3-partition (3-partitions on a stride in quick) of each direction x 9 initial sequence numbers (0, 1, 2^31, 2^31-10, 2^32-1, 2^32-2, 2^32-len, 2^32-len/2, 0x12345678) x every arrival permutation; both directions in two pieces each in all 24 interleavings (with and without wrap); four request pieces in all 24 orders; the handshake in 4 further shapes (SYN+ACK before SYN, retransmitted SYN+ACK, a stale SYN or SYN+ACK of the reversed orientation first) x whole and two-piece directions; teardown inside the exchange (FIN on the server's last segment, an empty client FIN between request and response, FIN on the client's last segment) x whole and two-piece directions; the first 1 / 10 / 40 request bytes inside the SYN (Fast Open) x 8 initial sequence numbers incl. 2^32-1; keep-alive probes (one garbage byte at sequence number ISN) from either or both sides before the data, once or twice; every stream once with 150 ms of real time between its packets; distinct = distinct per-packet report patterns".into(),
        exhaustive: true,
        bounds: json!({"histories": hs.len(), "streams": ss.iter().map(|s| (s.0, s.1.len(), s.2.len())).collect::<Vec<_>>()}),
    }
}

pub fn replay(ex: &Value) -> Report {
    let mut r = Report::new();
    let ss = streams();
    let refs: Vec<(Option<String>, Option<String>)> = run_refs(&ss);
    if ex["kind"].as_str() == Some("slow") {
        slow_connections(&mut r, &ss, &refs);
        return r;
    }
    match serde_json::from_value::<Hist>(ex["history"].clone()) {
        Ok(h) => check(&mut r, &ss, &refs, &h),
        Err(_) => r.machinery_error("bad replay file"),
    }
    r
}
fn run_refs(ss: &[(&'static str, Vec<u8>, Vec<u8>)]) -> Vec<(Option<String>, Option<String>)> {
    ss.iter()
        .enumerate()
        .map(|(si, (_n, req, resp))| {
            let h = Hist { stream: si, client_isn: 1000, server_isn: 5000, segs: vec![(true, 0, req.len()), (false, 0, resp.len())], handshake: 0, fin: 0, probe: 0, syn_bytes: 0 };
            let syn = pkt::build(&Spec { src: 1, sport: 40000, dst: 2, dport: 80, flags: SYN, seq: 1000, ..Spec::default() });
            let mut a = HttpSeq::new(None, 8);
            a.feed(&syn);
            let q = summary(&a.feed(&frame_for(&h, req, resp, &h.segs[0]))).0;
            let p = summary(&a.feed(&frame_for(&h, req, resp, &h.segs[1]))).1;
            (q, p)
        })
        .collect()
}
