//! C07 — connections are analysed in isolation: results do not depend on other traffic.
//! A connection alphabet (TCP handshake with timestamps, ClientHello in 1-3 segments, HTTP/1 exchange, HTTP/2
//! exchanges incl. adversarial HPACK blocks, garbage after SYN, connections sharing an address or port) is
//! combined pairwise (thorough: triples) in every order-preserving interleaving on one analyzer instance; the
//! result of every packet must equal the result of the same packet when its connection is analysed alone.
use crate::drv::{set_clock, HttpSeq, TcpSeq, TlsSeq};
use crate::gen::h2::{self, Framing, HpackEnc, Rep};
use crate::gen::pkt::{self, Spec, ACK, PSH, SYN};
use crate::gen::tls::{self, Ext, Hello};
use crate::props::c19::ts_opts;
use crate::report::{guarded, par_slices, Report};
use crate::Outcome;
use serde_json::{json, Value};

#[derive(Clone)]
pub struct Conn {
    pub name: String,
    /// (frame, arrival clock in ms)
    pub pkts: Vec<(Vec<u8>, u64)>,
}
const T0: u64 = 1_700_000_000_000;

pub struct Ends {
    pub cip: u8,
    pub cport: u16,
    pub sip: u8,
    pub sport: u16,
    pub v6: bool,
}
pub fn seg(e: &Ends, from_client: bool, flags: u8, seq: u32, payload: &[u8], ts: Option<u32>) -> Vec<u8> {
    let (src, sport, dst, dport) = if from_client { (e.cip, e.cport, e.sip, e.sport) } else { (e.sip, e.sport, e.cip, e.cport) };
    let mut opts = vec![];
    if flags & SYN != 0 {
        opts.extend([2, 4, 5, 0xb4]);
    }
    if let Some(t) = ts {
        opts.extend(ts_opts(t, 0));
    }
    while opts.len() % 4 != 0 {
        opts.push(1);
    }
    pkt::build(&Spec { v6: e.v6, src, dst, sport, dport, flags, seq, ack: if flags & ACK != 0 { 1 } else { 0 }, opts, payload: payload.to_vec(), ..Spec::default() })
}
fn s(x: &str) -> String {
    x.to_string()
}
pub fn hello_bytes(sni: &str) -> Vec<u8> {
    tls::bytes(&Hello { exts: vec![Ext::Sni(s(sni)), Ext::Other(23, vec![]), Ext::Alpn(vec![s("h2")]), Ext::SigAlgs(vec![0x0403, 0x0804]), Ext::SupVer(vec![0x0304, 0x0303])], ..Hello::default() })
}
pub fn h2_request(fields: &[(&str, &str, Rep)], extra_prefix: &[u8], raw_suffix: &[u8]) -> Vec<u8> {
    let mut e = HpackEnc::default();
    let mut b = extra_prefix.to_vec();
    b.extend(e.field(":method", "GET", Rep::Indexed, false, false));
    b.extend(e.field(":path", "/", Rep::Indexed, false, false));
    b.extend(e.field(":scheme", "https", Rep::Indexed, false, false));
    for (n, v, rep) in fields {
        b.extend(e.field(n, v, *rep, false, false));
    }
    b.extend(raw_suffix);
    let mut d = h2::PREFACE.to_vec();
    d.extend(h2::settings(&[(3, 100)]));
    d.extend(h2::headers_frames(1, &b, &Framing { end_stream: true, ..Default::default() }));
    d
}
pub fn h2_response(fields: &[(&str, &str, Rep)], raw_suffix: &[u8]) -> Vec<u8> {
    let mut e = HpackEnc::default();
    let mut b = vec![];
    b.extend(e.field(":status", "200", Rep::Indexed, false, false));
    for (n, v, rep) in fields {
        b.extend(e.field(n, v, *rep, false, false));
    }
    b.extend(raw_suffix);
    let mut d = h2::settings(&[]);
    d.extend(h2::headers_frames(1, &b, &Framing::default()));
    d
}

/// an HTTP exchange: SYN, SYN+ACK, request in the given segments, response in the given segments
pub fn http_conn(name: &str, e: &Ends, req: &[u8], req_cuts: &[usize], resp: &[u8], resp_cuts: &[usize], t: u64) -> Conn {
    let mut pkts = vec![(seg(e, true, SYN, 1000, &[], None), t), (seg(e, false, SYN | ACK, 5000, &[], None), t + 1)];
    let mut prev = 0;
    let mut clock = t + 2;
    for &c in req_cuts.iter().chain([req.len()].iter()) {
        pkts.push((seg(e, true, ACK | PSH, 1001 + prev as u32, &req[prev..c], None), clock));
        prev = c;
        clock += 1;
    }
    let mut prev = 0;
    for &c in resp_cuts.iter().chain([resp.len()].iter()) {
        pkts.push((seg(e, false, ACK | PSH, 5001 + prev as u32, &resp[prev..c], None), clock));
        prev = c;
        clock += 1;
    }
    Conn { name: s(name), pkts }
}

pub fn connections() -> Vec<Conn> {
    let mut v = vec![];
    // 0: TCP handshake with timestamps on three packets (client 100 Hz, server 1000 Hz)
    let e = Ends { cip: 1, cport: 40001, sip: 2, sport: 80, v6: false };
    v.push(Conn { name: s("tcp-handshake-ts"), pkts: vec![(seg(&e, true, SYN, 1000, &[], Some(500_000)), T0), (seg(&e, false, SYN | ACK, 5000, &[], Some(9_000_000)), T0 + 20), (seg(&e, true, ACK, 1001, &[], Some(500_100)), T0 + 1000), (seg(&e, false, ACK | PSH, 5001, b"x", Some(9_002_000)), T0 + 2020)] });
    // 1: same host pair, other client port (shares addresses with 0), IPv6 handshake separately
    let e = Ends { cip: 1, cport: 40002, sip: 2, sport: 80, v6: false };
    v.push(Conn { name: s("tcp-handshake-ts-other-port"), pkts: vec![(seg(&e, true, SYN, 1000, &[], Some(77_000)), T0 + 5), (seg(&e, false, SYN | ACK, 5000, &[], Some(123_000)), T0 + 30), (seg(&e, true, ACK, 1001, &[], Some(77_250)), T0 + 1005)] });
    // two clients that picked the same ephemeral port towards the same server endpoint (IPv6 and IPv4): only the client
    // address tells the connections apart; timestamps on every packet so that the uptime tracker is involved
    for (v6, base) in [(true, 21u8), (false, 24u8)] {
        for (k, (cip, ts_c, ts_s, t)) in [(base, 300_000u32, 4_000_000u32, T0 + 40), (base + 2, 910_000, 8_800_000, T0 + 60)].into_iter().enumerate() {
            let e = Ends { cip, cport: 45000, sip: base + 1, sport: 80, v6 };
            v.push(Conn { name: format!("tcp{}-handshake-ts-same-client-port-{}", if v6 { 6 } else { 4 }, ["a", "b"][k]), pkts: vec![(seg(&e, true, SYN, 1000, &[], Some(ts_c)), t), (seg(&e, false, SYN | ACK, 5000, &[], Some(ts_s)), t + 30), (seg(&e, true, ACK, 1001, &[], Some(ts_c + 100)), t + 1000), (seg(&e, false, ACK | PSH, 5001, b"x", Some(ts_s + 2000)), t + 2030)] });
        }
    }
    // 2-4: ClientHello in 1, 2, 3 segments
    for (i, cuts) in [vec![], vec![40usize], vec![5usize, 90]].iter().enumerate() {
        let e = Ends { cip: 3, cport: 41000 + i as u16, sip: 4, sport: 443, v6: i == 2 };
        let b = hello_bytes(&format!("host{i}.example"));
        let mut pkts = vec![(seg(&e, true, SYN, 1000, &[], None), T0 + 3)];
        let mut prev = 0;
        for &c in cuts.iter().chain([b.len()].iter()) {
            pkts.push((seg(&e, true, ACK | PSH, 1001 + prev as u32, &b[prev..c], None), T0 + 4 + prev as u64));
            prev = c;
        }
        v.push(Conn { name: format!("clienthello-{}-segments", cuts.len() + 1), pkts });
    }
    // 5: HTTP/1 exchange, request and response in two segments each
    let req = b"GET /a HTTP/1.1\r\nHost: one.example\r\nUser-Agent: Mozilla/5.0 (X11) Firefox/99\r\nAccept: */*\r\nCookie: sid=abc\r\n\r\n";
    let resp = b"HTTP/1.1 200 OK\r\nServer: nginx/1.2.3\r\nContent-Type: text/html\r\nContent-Length: 2\r\n\r\nhi";
    v.push(http_conn("http1-exchange", &Ends { cip: 5, cport: 42000, sip: 6, sport: 80, v6: false }, req, &[30], resp, &[20], T0 + 7));
    // 6: second HTTP/1 exchange sharing the server address and port
    let req2 = b"POST /b HTTP/1.0\r\nHost: two.example\r\nUser-Agent: curl/8.0\r\nReferer: http://r/\r\n\r\n";
    let resp2 = b"HTTP/1.0 404 Not Found\r\nServer: Apache\r\nDate: now\r\n\r\n";
    v.push(http_conn("http1-exchange-same-server", &Ends { cip: 7, cport: 42000, sip: 6, sport: 80, v6: false }, req2, &[], resp2, &[], T0 + 9));
    // 7: HTTP/2, static table only
    v.push(http_conn("h2-static-only", &Ends { cip: 8, cport: 43000, sip: 9, sport: 443, v6: false }, &h2_request(&[("accept", "*/*", Rep::LitNoIdx)], &[], &[]), &[], &h2_response(&[("server", "h2o", Rep::LitNoIdx)], &[]), &[], T0 + 11));
    // 8: HTTP/2, literal with incremental indexing (fills the dynamic table with a secret)
    v.push(http_conn("h2-literal-with-indexing", &Ends { cip: 10, cport: 43001, sip: 9, sport: 443, v6: false }, &h2_request(&[("x-secret", "tok-12345", Rep::LitIdxNewName), ("user-agent", "secret-agent", Rep::LitIdxIndexedName)], &[], &[]), &[20], &h2_response(&[("set-cookie", "session=deadbeef", Rep::LitIdxIndexedName)], &[]), &[], T0 + 13));
    // 9: HTTP/2 whose block references dynamic indexes 62 and 63 without inserting anything (invalid alone)
    v.push(http_conn("h2-references-foreign-dynamic-entries", &Ends { cip: 11, cport: 43002, sip: 9, sport: 443, v6: false }, &h2_request(&[("accept", "text/html", Rep::LitNoIdx)], &[], &[0xbe, 0xbf]), &[], &h2_response(&[], &[0xbe]), &[], T0 + 15));
    // 10: HTTP/2 starting with a dynamic table size update to 0, then literals with indexing and a self reference
    v.push(http_conn("h2-size-update-0", &Ends { cip: 12, cport: 43003, sip: 9, sport: 443, v6: true }, &h2_request(&[("x-a", "1", Rep::LitIdxNewName), ("x-a", "1", Rep::Indexed)], &[0x20], &[]), &[], &h2_response(&[("x-b", "2", Rep::LitIdxNewName)], &[]), &[], T0 + 17));
    // HTTP/2 blocks that change the decoder state and THEN fail (size update to 0, or an insertion, followed by the
    // invalid index 0), and a well-formed block that depends on its own insertion
    v.push(http_conn("h2-size-update-0-then-invalid-index", &Ends { cip: 16, cport: 43004, sip: 9, sport: 443, v6: false }, &h2_request(&[], &[0x20], &[0x80]), &[], &h2_response(&[], &[0x20, 0x80]), &[], T0 + 25));
    v.push(http_conn("h2-insert-then-invalid-index", &Ends { cip: 17, cport: 43005, sip: 9, sport: 443, v6: false }, &h2_request(&[("x-evil", "leak-me", Rep::LitIdxNewName)], &[], &[0x80]), &[], &h2_response(&[("x-evil-resp", "leak-me-too", Rep::LitIdxNewName)], &[0x80]), &[], T0 + 27));
    v.push(http_conn("h2-self-reference", &Ends { cip: 18, cport: 43006, sip: 9, sport: 443, v6: false }, &h2_request(&[("x-b", "1", Rep::LitIdxNewName)], &[], &[0xbe]), &[], &h2_response(&[("x-c", "2", Rep::LitIdxNewName)], &[0xbe]), &[], T0 + 29));
    // 11: garbage after a SYN (both directions)
    let e = Ends { cip: 13, cport: 44000, sip: 14, sport: 8080, v6: false };
    v.push(Conn { name: s("garbage-after-syn"), pkts: vec![(seg(&e, true, SYN, 1000, &[], None), T0 + 19), (seg(&e, true, ACK | PSH, 1001, &[0xff; 50], None), T0 + 20), (seg(&e, false, ACK | PSH, 5001, b"\x16\x03\x01\x00\x02\x01\x00", None), T0 + 21), (seg(&e, true, ACK | PSH, 1051, b"GET / HTTP/9.9\r\n\r\n", None), T0 + 22)] });
    // 12: TLS flow that shares the client address and port with the HTTP/1 client but talks to another server
    let e = Ends { cip: 5, cport: 42000, sip: 15, sport: 443, v6: false };
    let b = hello_bytes("shared-client.example");
    v.push(Conn { name: s("clienthello-sharing-client-endpoint"), pkts: vec![(seg(&e, true, SYN, 1000, &[], Some(1_000)), T0 + 23), (seg(&e, true, ACK | PSH, 1001, &b[..60], Some(1_050)), T0 + 523), (seg(&e, true, ACK | PSH, 1061, &b[60..], Some(1_100)), T0 + 1023)] });
    // twins that differ in exactly ONE component of the connection identity (client address, client port, server address,
    // server port) from a base connection: a ClientHello in two segments, an HTTP/1 exchange, a timestamped handshake each
    for (ci, (cip, cport, sip, sport)) in [(33u8, 48000u16, 34u8, 443u16), (37, 48000, 34, 443), (33, 48001, 34, 443), (33, 48000, 38, 443), (33, 48000, 34, 8443)].into_iter().enumerate() {
        let tag = ["base", "other-client-address", "other-client-port", "other-server-address", "other-server-port"][ci];
        let e = Ends { cip, cport, sip, sport, v6: false };
        let b = hello_bytes(&format!("one-component-{tag}.example"));
        v.push(Conn { name: format!("one-component-{tag}-clienthello"), pkts: vec![(seg(&e, true, SYN, 1000, &[], None), T0 + 41), (seg(&e, true, ACK | PSH, 1001, &b[..50], None), T0 + 42), (seg(&e, true, ACK | PSH, 1051, &b[50..], None), T0 + 43)] });
        let rq = format!("GET /{tag} HTTP/1.1\r\nHost: one.example\r\nUser-Agent: agent-{tag}\r\n\r\n");
        let rs = format!("HTTP/1.1 200 OK\r\nServer: srv-{tag}\r\nContent-Length: 0\r\n\r\n");
        let e = Ends { cip: cip + 10, cport, sip: sip + 10, sport: if sport == 443 { 80 } else { 8080 }, v6: true };
        v.push(http_conn(&format!("one-component-{tag}-http1-exchange"), &e, rq.as_bytes(), &[25], rs.as_bytes(), &[12], T0 + 45));
        let e = Ends { cip: cip + 20, cport, sip: sip + 20, sport, v6: false };
        let (tc, tsrv) = (100_000 + 7777 * ci as u32, 3_000_000 + 55_555 * ci as u32);
        v.push(Conn { name: format!("one-component-{tag}-tcp-handshake-ts"), pkts: vec![(seg(&e, true, SYN, 1000, &[], Some(tc)), T0 + 47), (seg(&e, false, SYN | ACK, 5000, &[], Some(tsrv)), T0 + 77), (seg(&e, true, ACK, 1001, &[], Some(tc + 100)), T0 + 1047), (seg(&e, false, ACK | PSH, 5001, b"x", Some(tsrv + 2000)), T0 + 2077)] });
    }
    // twins that differ in nothing but the IP version: an IPv4 connection and the IPv6 connection between the IPv4-mapped
    // forms of the same addresses (::ffff:a.b.c.d), same ports, same direction -- a timestamped handshake, a ClientHello
    // in two segments and an HTTP/1 exchange each
    for v6 in [false, true] {
        let fam = if v6 { "mapped-v6" } else { "plain-v4" };
        let map = |c: Conn| -> Conn {
            if !v6 {
                return c;
            }
            Conn {
                name: c.name,
                pkts: c
                    .pkts
                    .into_iter()
                    .map(|(mut f, t)| {
                        // the builder wrote 2001::<id>; rewrite both addresses to ::ffff:10.0.0.<id>
                        for o in [8usize, 24] {
                            let id = f[o + 15];
                            f[o..o + 16].copy_from_slice(&[0, 0, 0, 0, 0, 0, 0, 0, 0, 0, 0xff, 0xff, 10, 0, 0, id]);
                        }
                        (f, t)
                    })
                    .collect(),
            }
        };
        let (tc, tsrv) = if v6 { (640_000u32, 7_700_000u32) } else { (120_000, 2_500_000) };
        let e = Ends { cip: 31, cport: 46000, sip: 32, sport: 80, v6 };
        v.push(map(Conn { name: format!("twin-{fam}-tcp-handshake-ts"), pkts: vec![(seg(&e, true, SYN, 1000, &[], Some(tc)), T0 + 31), (seg(&e, false, SYN | ACK, 5000, &[], Some(tsrv)), T0 + 61), (seg(&e, true, ACK, 1001, &[], Some(tc + 100)), T0 + 1031), (seg(&e, false, ACK | PSH, 5001, b"x", Some(tsrv + 2000)), T0 + 2061)] }));
        let e = Ends { cip: 33, cport: 46001, sip: 34, sport: 443, v6 };
        let b = hello_bytes(&format!("twin-{fam}.example"));
        v.push(map(Conn { name: format!("twin-{fam}-clienthello"), pkts: vec![(seg(&e, true, SYN, 1000, &[], None), T0 + 33), (seg(&e, true, ACK | PSH, 1001, &b[..50], None), T0 + 34), (seg(&e, true, ACK | PSH, 1051, &b[50..], None), T0 + 35)] }));
        let rq = format!("GET /{fam} HTTP/1.1\r\nHost: twin.example\r\nUser-Agent: agent-{fam}\r\n\r\n");
        let rs = format!("HTTP/1.1 200 OK\r\nServer: srv-{fam}\r\nContent-Length: 0\r\n\r\n");
        v.push(map(http_conn(&format!("twin-{fam}-http1-exchange"), &Ends { cip: 35, cport: 46002, sip: 36, sport: 80, v6 }, rq.as_bytes(), &[25], rs.as_bytes(), &[12], T0 + 37)));
    }
    v
}

#[derive(Clone, Copy, PartialEq, Debug)]
pub enum An {
    Tcp,
    Http,
    Tls,
    Unified,
}
const ANALYZERS: [An; 4] = [An::Tcp, An::Http, An::Tls, An::Unified];

/// run a packet list through one fresh analyzer; returns one comparable string per packet
pub fn run_trace(an: An, pkts: &[(&Vec<u8>, u64)]) -> Result<Vec<String>, String> {
    let d = crate::drv::db();
    guarded(|| match an {
        An::Tcp => {
            let mut a = TcpSeq::new(Some(d), 8);
            pkts.iter()
                .map(|(f, t)| {
                    set_clock(*t);
                    format!("{:?}", a.feed(f))
                })
                .collect()
        }
        An::Http => {
            let mut a = HttpSeq::new(Some(d), 8);
            pkts.iter().map(|(f, _)| format!("{:?}", a.feed(f))).collect()
        }
        An::Tls => {
            let mut a = TlsSeq::new(8);
            pkts.iter().map(|(f, _)| format!("{:?}", a.feed(f))).collect()
        }
        An::Unified => {
            let mut a = huginn_net::HuginnNet::new(Some(d), 8, None).expect("analyzer");
            pkts.iter()
                .map(|(f, t)| {
                    set_clock(*t);
                    format!("{:?}", crate::drv::uni_res(&a.analyze_tcp(f)))
                })
                .collect()
        }
    })
}

/// all order-preserving interleavings of sequences with the given lengths, as lists of connection indexes
pub fn interleavings(lens: &[usize]) -> Vec<Vec<usize>> {
    fn rec(left: &mut Vec<usize>, cur: &mut Vec<usize>, out: &mut Vec<Vec<usize>>) {
        if left.iter().all(|&x| x == 0) {
            out.push(cur.clone());
            return;
        }
        for i in 0..left.len() {
            if left[i] > 0 {
                left[i] -= 1;
                cur.push(i);
                rec(left, cur, out);
                cur.pop();
                left[i] += 1;
            }
        }
    }
    let mut out = vec![];
    rec(&mut lens.to_vec(), &mut vec![], &mut out);
    out
}

fn check_group(r: &mut Report, conns: &[Conn], group: &[usize], alone: &[Vec<Vec<String>>]) {
    let lens: Vec<usize> = group.iter().map(|&g| conns[g].pkts.len()).collect();
    for order in interleavings(&lens) {
        for (ai, an) in ANALYZERS.iter().enumerate() {
            let mut idx = vec![0usize; group.len()];
            let mut trace: Vec<(&Vec<u8>, u64)> = vec![];
            let mut who = vec![];
            for &g in &order {
                let c = &conns[group[g]];
                trace.push((&c.pkts[idx[g]].0, c.pkts[idx[g]].1));
                who.push((g, idx[g]));
                idx[g] += 1;
            }
            r.exec(trace.len() as u64);
            let got = match run_trace(*an, &trace) {
                Ok(g) => g,
                Err(p) => {
                    r.dev(format!("C07/{an:?}/panic"), "panic", || json!({"analyzer": format!("{an:?}"), "connections": group.iter().map(|&g| conns[g].name.clone()).collect::<Vec<_>>(), "order": order, "detail": p}));
                    continue;
                }
            };
            r.outcome(&(ai, &got));
            for (k, (g, i)) in who.iter().enumerate() {
                let exp = &alone[group[*g]][ai][*i];
                if &got[k] != exp {
                    let names: Vec<String> = group.iter().map(|&x| conns[x].name.clone()).collect();
                    let victim = &conns[group[*g]].name;
                    let others: Vec<&String> = names.iter().filter(|n| *n != victim).collect();
                    r.dev(format!("C07/{an:?}/{victim}/disturbed-by/{}", others.iter().map(|x| x.as_str()).collect::<Vec<_>>().join("+")), "interference", || json!({"analyzer": format!("{an:?}"), "connections": names, "order": order, "packet_of": victim, "packet_index": i, "alone": exp, "interleaved": got[k]}));
                    break;
                }
            }
        }
    }
}

/// A table that is exactly as large as the number of connections: TLS connections that each need one slot at a time (a
/// hello in two segments; a hello whose segment also carries the next record, answered by a server handshake record; a
/// hello in one segment; garbage) in pairs on an analyzer with capacity 2, every interleaving; each connection's results
/// must equal those of the connection alone. A finished connection must not keep occupying a slot.
fn check_capacity_pressure(r: &mut Report) {
    let mk = |k: u8, kind: usize| -> Conn {
        let e = Ends { cip: 40 + k, cport: 47000 + k as u16, sip: 50 + k, sport: 443, v6: k % 2 == 1 };
        let b = hello_bytes(&format!("pressure{k}.example"));
        let t = T0 + 100 * k as u64;
        let mut pkts = vec![(seg(&e, true, SYN, 1000, &[], None), t)];
        match kind {
            0 => {
                pkts.push((seg(&e, true, ACK | PSH, 1001, &b[..45], None), t + 1));
                pkts.push((seg(&e, true, ACK | PSH, 1046, &b[45..], None), t + 2));
            }
            1 => {
                let mut x = b.clone();
                x.extend(tls::record(0x14, 0x0303, &[1]));
                x.extend([0x17, 0x03, 0x03, 0x00, 0x20, 9, 9, 9]);
                pkts.push((seg(&e, true, ACK | PSH, 1001, &x, None), t + 1));
                pkts.push((seg(&e, false, ACK | PSH, 5001, &tls::record(0x16, 0x0303, &[2, 0, 0, 38, 3, 3]), None), t + 2));
                pkts.push((seg(&e, false, ACK | PSH, 5012, &[0u8; 20], None), t + 3));
            }
            2 => pkts.push((seg(&e, true, ACK | PSH, 1001, &b, None), t + 1)),
            _ => {
                pkts.push((seg(&e, true, ACK | PSH, 1001, &[0x16, 3, 1, 0, 200, 1, 0, 0], None), t + 1));
                pkts.push((seg(&e, true, ACK | PSH, 1009, &[0xff; 30], None), t + 2));
            }
        }
        Conn { name: format!("pressure-{}", ["hello-in-two-segments", "hello-plus-next-record-then-server-handshake", "hello-in-one-segment", "unfinished-record"][kind]), pkts }
    };
    let run2 = |an: An, pkts: &[(&Vec<u8>, u64)]| -> Result<Vec<String>, String> {
        guarded(|| match an {
            An::Tls => {
                let mut a = TlsSeq::new(2);
                pkts.iter().map(|(f, _)| format!("{:?}", a.feed(f))).collect()
            }
            _ => {
                let cfg = huginn_net::AnalysisConfig { http_enabled: false, tcp_enabled: false, tls_enabled: true, matcher_enabled: false };
                let mut a = huginn_net::HuginnNet::new(None, 2, Some(cfg)).expect("analyzer");
                pkts.iter().map(|(f, _)| format!("{:?}", crate::drv::uni_res(&a.analyze_tcp(f)).tls)).collect()
            }
        })
    };
    for ka in 0..4usize {
        for kb in 0..4usize {
            let (a, b) = (mk(1, ka), mk(2 + (kb as u8 % 2), kb));
            for an in [An::Tls, An::Unified] {
                let alone: Vec<Vec<String>> = [&a, &b].iter().map(|c| run2(an, &c.pkts.iter().map(|(f, t)| (f, *t)).collect::<Vec<_>>()).unwrap_or_default()).collect();
                for order in interleavings(&[a.pkts.len(), b.pkts.len()]) {
                    let mut idx = [0usize; 2];
                    let mut trace = vec![];
                    let mut who = vec![];
                    for &g in &order {
                        let c = if g == 0 { &a } else { &b };
                        trace.push((&c.pkts[idx[g]].0, c.pkts[idx[g]].1));
                        who.push((g, idx[g]));
                        idx[g] += 1;
                    }
                    r.exec(trace.len() as u64);
                    let Ok(got) = run2(an, &trace) else {
                        r.dev(format!("C07/{an:?}/panic"), "panic", || json!({"kind": "capacity-pressure", "connections": [a.name.clone(), b.name.clone()], "order": order}));
                        continue;
                    };
                    r.outcome(&("pressure", ka, kb, got.iter().filter(|x| x.contains("ja4: Some")).count()));
                    for (k, (g, i)) in who.iter().enumerate() {
                        if alone[*g].get(*i) != Some(&got[k]) {
                            let (victim, other) = if *g == 0 { (&a.name, &b.name) } else { (&b.name, &a.name) };
                            r.dev(format!("C07/{an:?}/{victim}/disturbed-by/{other}/table-exactly-full"), "interference", || json!({"kind": "capacity-pressure", "analyzer": format!("{an:?}"), "capacity": 2, "connections": [a.name.clone(), b.name.clone()], "order": order, "packet_of": victim, "packet_index": i, "alone": alone[*g].get(*i), "interleaved": got[k]}));
                            break;
                        }
                    }
                }
            }
        }
    }
}

/// an HTTP exchange with chosen initial sequence numbers, optionally closed by FIN from both sides
fn http_conn_isn(name: &str, e: &Ends, req: &[u8], resp: &[u8], cisn: u32, sisn: u32, fin: bool, t: u64, syn_extra: u8) -> Conn {
    let mut pkts = vec![(seg(e, true, SYN | syn_extra, cisn, &[], None), t), (seg(e, false, SYN | ACK, sisn, &[], None), t + 1)];
    if !req.is_empty() {
        pkts.push((seg(e, true, ACK | PSH, cisn.wrapping_add(1), req, None), t + 2));
    }
    if !resp.is_empty() {
        pkts.push((seg(e, false, ACK | PSH, sisn.wrapping_add(1), resp, None), t + 3));
    }
    if fin {
        pkts.push((seg(e, true, ACK | 1, cisn.wrapping_add(1 + req.len() as u32), &[], None), t + 4));
        pkts.push((seg(e, false, ACK | 1, sisn.wrapping_add(1 + resp.len() as u32), &[], None), t + 5));
    }
    Conn { name: s(name), pkts }
}
/// (predecessors, successors) that reuse one 4-tuple: the successor starts after the predecessor's last packet
pub fn successions() -> Vec<(Conn, Conn)> {
    let mut v = vec![];
    let req = b"GET /first HTTP/1.1\r\nHost: first.example\r\nUser-Agent: curl/7.0\r\n\r\n";
    let resp = b"HTTP/1.1 200 OK\r\nServer: Apache\r\nContent-Length: 0\r\n\r\n";
    let req2 = b"GET /second HTTP/1.1\r\nHost: second.example\r\nUser-Agent: Mozilla/5.0 (X11) Firefox/99\r\nAccept: */*\r\n\r\n";
    let resp2 = b"HTTP/1.1 404 Not Found\r\nServer: nginx/1.2.3\r\nContent-Type: text/html\r\n\r\n";
    let e = Ends { cip: 40, cport: 46000, sip: 41, sport: 80, v6: false };
    // the successor's SYN plain, as an ECN-setup SYN (ECE|CWR), and with PSH / URG set: all of them open a connection
    let (q, a) = (h2_request(&[("x-later", "2", Rep::LitIdxNewName)], &[], &[]), h2_response(&[("server", "late", Rep::LitNoIdx)], &[]));
    let mut succs = vec![];
    for (tag, extra) in [("", 0u8), ("-ecn-syn", 0xc0), ("-syn-psh", 0x08), ("-syn-urg", 0x20)] {
        succs.push(http_conn_isn(&format!("successor-http1{tag}"), &e, req2, resp2, 700_000, 900_000, false, T0 + 100, extra));
        succs.push(http_conn_isn(&format!("successor-http2{tag}"), &e, &q, &a, 5, 4_294_967_000, false, T0 + 100, extra));
    }
    // a new connection whose sequence numbers continue right behind what the predecessor buffered
    succs.push(http_conn_isn("successor-http1-isn-behind-buffered-bytes-ecn-syn", &e, req2, resp2, 1000 + 20, 5000 + 10, false, T0 + 100, 0xc0));
    let preds = vec![
        http_conn_isn("complete-exchange", &e, req, resp, 1000, 5000, false, T0, 0),
        http_conn_isn("complete-exchange-then-fin", &e, req, resp, 1000, 5000, true, T0, 0),
        http_conn_isn("request-without-response", &e, req, &[], 1000, 5000, false, T0, 0),
        http_conn_isn("request-without-response-then-fin", &e, req, &[], 1000, 5000, true, T0, 0),
        http_conn_isn("handshake-only", &e, &[], &[], 1000, 5000, false, T0, 0),
        http_conn_isn("unfinished-head", &e, &req[..20], &resp[..10], 1000, 5000, false, T0, 0),
        http_conn_isn("binary-data", &e, &[0xffu8; 40], &[0x16, 3, 1, 0, 2, 1, 0], 1000, 5000, true, T0, 0),
    ];
    for p in &preds {
        for sc in &succs {
            v.push((p.clone(), sc.clone()));
        }
    }
    // TLS: the same client endpoint connects again
    let e = Ends { cip: 42, cport: 46001, sip: 43, sport: 443, v6: false };
    let hello = hello_bytes("first.example");
    let hello2 = hello_bytes("second.example");
    let tls_syn = |name: &str, isn: u32, parts: Vec<&[u8]>, t: u64, syn_extra: u8| -> Conn {
        let mut pkts = vec![(seg(&e, true, SYN | syn_extra, isn, &[], None), t)];
        let mut off = 1u32;
        for p in parts {
            pkts.push((seg(&e, true, ACK | PSH, isn.wrapping_add(off), p, None), t + off as u64));
            off += p.len() as u32;
        }
        Conn { name: s(name), pkts }
    };
    let tls = |name: &str, isn: u32, parts: Vec<&[u8]>, t: u64| -> Conn { tls_syn(name, isn, parts, t, 0) };
    let succ = tls("successor-clienthello", 800_000, vec![&hello2[..50], &hello2[50..]], T0 + 100);
    let succ_ecn = tls_syn("successor-clienthello-ecn-syn", 800_000, vec![&hello2[..50], &hello2[50..]], T0 + 100, 0xc0);
    for p in [tls("complete-clienthello", 1000, vec![&hello[..]], T0), tls("unfinished-clienthello", 1000, vec![&hello[..60]], T0), tls("record-header-only", 1000, vec![&hello[..5]], T0), tls("application-data", 1000, vec![&[0x17, 3, 3, 0, 2, 1, 2]], T0)] {
        v.push((p.clone(), succ.clone()));
        v.push((p, succ_ecn.clone()));
    }
    v
}
fn check_successions(r: &mut Report) {
    for (p, sc) in successions() {
        for an in ANALYZERS.iter() {
            // uptime is by design computed across packets of one endpoint pair: these connections carry no timestamps
            let alone = run_trace(*an, &sc.pkts.iter().map(|(f, t)| (f, *t)).collect::<Vec<_>>());
            let both = run_trace(*an, &p.pkts.iter().chain(sc.pkts.iter()).map(|(f, t)| (f, *t)).collect::<Vec<_>>());
            r.exec((p.pkts.len() + sc.pkts.len()) as u64);
            match (alone, both) {
                (Ok(a), Ok(b)) => {
                    let tail = &b[p.pkts.len()..];
                    r.outcome(&(format!("{an:?}"), &p.name, &sc.name, tail));
                    if let Some(i) = (0..a.len()).find(|&i| a[i] != tail[i]) {
                        r.dev(format!("C07/{an:?}/{}/disabled-by-earlier-connection-on-the-same-endpoints/{}", sc.name, p.name), "succession", || json!({"kind": "succession", "analyzer": format!("{an:?}"), "predecessor": p.name, "successor": sc.name, "packet_index": i, "alone": a[i], "after_predecessor": tail[i]}));
                    }
                }
                (a, b) => r.dev(format!("C07/{an:?}/panic"), "panic", || json!({"kind": "succession", "predecessor": p.name, "successor": sc.name, "detail": format!("{:?} {:?}", a.err(), b.err())})),
            }
        }
    }
}

pub fn run(thorough: bool) -> Outcome {
    let conns = connections();
    // isolated runs: per connection, per analyzer, per packet
    let mut pre = Report::new();
    let alone: Vec<Vec<Vec<String>>> = conns
        .iter()
        .map(|c| {
            ANALYZERS
                .iter()
                .map(|an| {
                    let t: Vec<(&Vec<u8>, u64)> = c.pkts.iter().map(|(f, t)| (f, *t)).collect();
                    match run_trace(*an, &t) {
                        Ok(v) => v,
                        Err(p) => {
                            pre.dev(format!("C07/{an:?}/panic-alone/{}", c.name), "panic", || json!({"connection": c.name, "detail": p}));
                            vec![String::new(); c.pkts.len()]
                        }
                    }
                })
                .collect()
        })
        .collect();
    for (ci, c) in conns.iter().enumerate() {
        pre.sample(|| json!({"connection": c.name, "packets": c.pkts.len(), "alone_http": alone[ci][1].iter().filter(|x| x.contains("Some(")).count(), "alone_tls": alone[ci][2].iter().filter(|x| x.contains("ja4: Some")).count()}));
    }
    let mut groups: Vec<Vec<usize>> = vec![];
    for a in 0..conns.len() {
        for b in (a + 1)..conns.len() {
            groups.push(vec![a, b]);
        }
    }
    if thorough {
        let mut short: Vec<usize> = (0..conns.len()).collect();
        short.sort_by_key(|&i| conns[i].pkts.len());
        let short: Vec<usize> = short.into_iter().take(8).collect();
        for a in 0..short.len() {
            for b in (a + 1)..short.len() {
                for c in (b + 1)..short.len() {
                    groups.push(vec![short[a], short[b], short[c]]);
                }
            }
        }
    }
    let rep = par_slices(groups.len(), groups.len(), |rg| {
        let mut r = Report::new();
        for i in rg {
            check_group(&mut r, &conns, &groups[i], &alone);
        }
        r
    });
    check_successions(&mut pre);
    check_capacity_pressure(&mut pre);
    Outcome {
        report: pre.merge(rep),
        rule: "41 connections (TCP handshakes with timestamps incl. IPv6 and two clients using the same ephemeral port towards one server endpoint, ClientHello in 1/2/3 segments incl. IPv6, two HTTP/1 exchanges sharing a server, HTTP/2 exchanges: static only / literal with indexing / referencing foreign dynamic entries / size update 0 / state change followed by a decoding error / self reference, garbage after SYN, a TLS flow sharing the HTTP client's endpoint, three x five connections that differ from a base in exactly one identity component (client address / client port / server address / server port), and three pairs of twins that differ only in IP version - IPv4 vs the IPv4-mapped IPv6 form of the same addresses and ports - as timestamped handshake, ClientHello and HTTP/1 exchange): every unordered pair (thorough: every triple of the 8 shortest) in every order-preserving interleaving on fresh TCP, HTTP, TLS and unified analyzers (capacity 8), each packet's result compared with the isolated run; plus successions on one 4-tuple: 7 HTTP predecessors (complete, closed by FIN, request only, handshake only, unfinished head, binary) x HTTP/1 and HTTP/2 successors with other initial sequence numbers whose SYN is plain, ECN-setup (ECE|CWR), SYN|PSH or SYN|URG, 4 TLS predecessors x a ClientHello successor (plain and ECN-setup SYN), the successor's results compared with its isolated run; capacity pressure: pairs of 4 kinds of TLS connections that need one table slot at a time on analyzers with capacity 2, every interleaving; distinct = distinct per-trace result vectors".into(),
        exhaustive: true,
        bounds: json!({"connections": conns.len(), "groups": groups.len(), "max_group": if thorough {3} else {2}}),
    }
}

pub fn replay(ex: &Value) -> Report {
    let mut r = Report::new();
    if ex["kind"].as_str() == Some("succession") {
        check_successions(&mut r);
        let want = format!("{}", ex["predecessor"].as_str().unwrap_or(""));
        r.devs.retain(|k, _| k.ends_with(&want));
        return r;
    }
    let conns = connections();
    let names: Vec<String> = ex["connections"].as_array().map(|a| a.iter().filter_map(|x| x.as_str().map(|s| s.to_string())).collect()).unwrap_or_default();
    let group: Vec<usize> = names.iter().filter_map(|n| conns.iter().position(|c| &c.name == n)).collect();
    if group.len() != names.len() || group.is_empty() {
        r.machinery_error("bad replay file");
        return r;
    }
    let alone: Vec<Vec<Vec<String>>> = conns.iter().map(|c| ANALYZERS.iter().map(|an| run_trace(*an, &c.pkts.iter().map(|(f, t)| (f, *t)).collect::<Vec<_>>()).unwrap_or_default()).collect()).collect();
    check_group(&mut r, &conns, &group, &alone);
    r
}
