//! C18 (engine E1 part) — the worker chosen for a packet is a function of its connection identity alone and always
//! a valid index. Base frames (IPv4 header lengths 5..15 / IPv6, Ethernet / raw) are taken with every truncation,
//! every worker count 1..=64, and every byte outside the identity fields rewritten to every value; the HTTP index must
//! also be equal for the swapped direction, the TCP index must depend on the source address only, the TLS index on
//! the directed 4-tuple. (The schedule-quantified accounting part of C18 is decided by the loom engine.)
use crate::gen::pkt::{self, Link, Spec, ACK, PSH, SYN};
use crate::report::{guarded, hex, par_slices, Report};
use crate::Outcome;
use serde_json::{json, Value};

#[derive(Clone, Copy, PartialEq, Debug)]
pub enum Pool {
    Tcp,
    Http,
    Tls,
}
pub const POOLS: [Pool; 3] = [Pool::Tcp, Pool::Http, Pool::Tls];

/// worker index exactly as each pool's `dispatch` computes it (None = the TLS pool discards the frame)
pub fn index(pool: Pool, frame: &[u8], workers: usize) -> Option<usize> {
    match pool {
        Pool::Tcp => Some(huginn_net_tcp::packet_hash::hash_source_ip(frame).checked_rem(workers).unwrap_or(0)),
        Pool::Http => Some(huginn_net_http::packet_hash::hash_flow(frame, workers)),
        Pool::Tls => huginn_net_tls::packet_hash::hash_flow(frame, workers),
    }
}

#[derive(Clone)]
pub struct Base {
    pub name: String,
    pub frame: Vec<u8>,
    /// offset of the IP header inside the frame
    pub ip: usize,
    pub v6: bool,
    pub ihl: usize,
}
pub fn bases() -> Vec<Base> {
    let mut v = vec![];
    for v6 in [false, true] {
        for ihl_field in 0..=15usize {
            if v6 && ihl_field != 5 {
                continue;
            }
            // a header-length field below 5 is read as 5 words by the analyzers (20 fixed header bytes)
            let ihl = ihl_field.max(5);
            for eth in [false, true] {
                // endpoints: distinct addresses and ports; the SAME address at both ends (loopback / hairpin traffic); the same
                // port at both ends; the lower address with the higher port (the plain header length only)
                let endpoints: &[(u8, u8, u16, u16, &str)] = if ihl_field == 5 { &[(7, 9, 41234, 8080, ""), (7, 7, 41234, 8080, "-same-address"), (7, 9, 8080, 8080, "-same-port"), (9, 7, 80, 41234, "-reversed-order")] } else { &[(7, 9, 41234, 8080, "")] };
                for &(src, dst, sport, dport, tag) in endpoints {
                    for (flags, payload, opts) in [(SYN, vec![], vec![2u8, 4, 5, 0xb4]), (ACK | PSH, b"GET / HTTP/1.1\r\nHost: x\r\n\r\n".to_vec(), vec![])] {
                        let ip = pkt::build(&Spec { v6, ip_opt_words: if v6 { 0 } else { (ihl - 5) as u8 }, flags, ack: if flags & ACK != 0 { 9 } else { 0 }, payload, opts, src, dst, sport, dport, ..Spec::default() });
                        let mut ip = ip;
                        if !v6 {
                            ip[0] = 0x40 | ihl_field as u8;
                        }
                        let frame = if eth { pkt::frame(Link::Ethernet, &ip) } else { ip };
                        if eth && ihl_field == 5 && tag.is_empty() {
                            // MAC addresses that read like the start of a raw IPv4 / IPv6 header: only the order in which the
                            // framings are tried tells the frame apart from a raw-IP one
                            for (mname, macs) in [("macs-like-ipv4-header", [0x45u8, 0, 0, 0x28, 0, 0, 0x40, 0, 0x40, 0x06, 0, 0]), ("macs-like-ipv6-header", [0x60, 0, 0, 0, 0, 0x14, 0x06, 0x40, 0x20, 0x01, 0, 0]), ("macs-like-loopback-1e-ipv4", [0x1e, 0, 0x5e, 0x12, 0x45, 0x01, 0x02, 0, 0, 0x06, 0, 0x01]), ("macs-like-loopback-1e-ipv6", [0x1e, 0, 0, 0, 0x60, 0x01, 0x02, 0, 0, 0, 0x06, 0x01]), ("macs-like-loopback-02", [0x02, 0, 0, 0, 0x45, 0x00, 0x00, 0x28, 0, 0, 0x40, 0x00])] {
                                let mut f = frame.clone();
                                f[..12].copy_from_slice(&macs);
                                v.push(Base { name: format!("{}-ihl5-eth-{mname}-{}", if v6 { "v6" } else { "v4" }, if flags == SYN { "syn" } else { "data" }), frame: f, ip: 14, v6, ihl });
                            }
                        }
                        if !eth && ihl_field == 5 && tag.is_empty() {
                            // raw-IP packets whose bytes 12/13 are near misses of an IP EtherType (08 00 / 86 dd): IPv4 sources
                            // 134.0.x.x (86 00), 8.221.x.x (08 dd), 8.1.x.x, 134.221.x.y is the real one and stays out; IPv6 sources
                            // with those byte pairs as the third group of the address
                            for (aname, pair) in [("86-00", [0x86u8, 0x00]), ("08-dd", [0x08, 0xdd]), ("08-01", [0x08, 0x01]), ("86-de", [0x86, 0xde]), ("dd-86", [0xdd, 0x86])] {
                                let mut f = frame.clone();
                                f[12..14].copy_from_slice(&pair);
                                v.push(Base { name: format!("{}-ihl5-raw-bytes-12-13-{aname}-{}", if v6 { "v6" } else { "v4" }, if flags == SYN { "syn" } else { "data" }), frame: f.clone(), ip: 0, v6, ihl });
                                // ... followed by a byte that reads like the start of an IPv4 / IPv6 header for whoever skips 14 bytes
                                f[14] = if v6 { 0x60 } else { 0x45 };
                                v.push(Base { name: format!("{}-ihl5-raw-bytes-12-14-{aname}-{:02x}-{}", if v6 { "v6" } else { "v4" }, f[14], if flags == SYN { "syn" } else { "data" }), frame: f, ip: 0, v6, ihl });
                            }
                        }
                        v.push(Base { name: format!("{}-ihl{}-{}-{}{tag}", if v6 { "v6" } else { "v4" }, ihl_field, if eth { "eth" } else { "raw" }, if flags == SYN { "syn" } else { "data" }), frame, ip: if eth { 14 } else { 0 }, v6, ihl });
                    }
                }
            }
        }
    }
    v
}
/// byte classes inside a frame
#[derive(PartialEq, Clone, Copy, Debug)]
pub enum Kind {
    /// decides how the rest is read (version / header length, protocol, ethertype): rewriting it yields another packet
    Structural,
    SrcAddr,
    DstAddr,
    SrcPort,
    DstPort,
    Other,
}
pub fn kind(b: &Base, off: usize) -> Kind {
    if b.ip == 14 && off < 12 {
        return Kind::Other; // MAC addresses
    }
    if b.ip == 14 && off < 14 {
        return Kind::Structural;
    }
    let o = off - b.ip;
    if b.v6 {
        match o {
            0 | 6 => Kind::Structural,
            8..=23 => Kind::SrcAddr,
            24..=39 => Kind::DstAddr,
            40 | 41 => Kind::SrcPort,
            42 | 43 => Kind::DstPort,
            _ => Kind::Other,
        }
    } else {
        let t = b.ihl * 4;
        match o {
            0 | 9 => Kind::Structural,
            12..=15 => Kind::SrcAddr,
            16..=19 => Kind::DstAddr,
            _ if o == t || o == t + 1 => Kind::SrcPort,
            _ if o == t + 2 || o == t + 3 => Kind::DstPort,
            _ => Kind::Other,
        }
    }
}
fn identity_matters(pool: Pool, k: Kind) -> bool {
    match pool {
        Pool::Tcp => k == Kind::SrcAddr,
        Pool::Http | Pool::Tls => matches!(k, Kind::SrcAddr | Kind::DstAddr | Kind::SrcPort | Kind::DstPort),
    }
}
/// the same frame with source and destination (addresses and ports) exchanged
pub fn swapped(b: &Base) -> Vec<u8> {
    let mut f = b.frame.clone();
    let ip = b.ip;
    if b.v6 {
        for i in 0..16 {
            f.swap(ip + 8 + i, ip + 24 + i);
        }
        f.swap(ip + 40, ip + 42);
        f.swap(ip + 41, ip + 43);
    } else {
        for i in 0..4 {
            f.swap(ip + 12 + i, ip + 16 + i);
        }
        let t = ip + b.ihl * 4;
        f.swap(t, t + 2);
        f.swap(t + 1, t + 3);
    }
    f
}

pub fn check_base(r: &mut Report, b: &Base, values: &[u8], workers: &[usize]) {
    let full_identity_len = b.ip + if b.v6 { 40 } else { b.ihl * 4 } + 20;
    for pool in POOLS {
        // (1) valid index for every truncation and every worker count; deterministic
        for cut in 0..=b.frame.len() {
            let f = &b.frame[..cut];
            for w in 1..=64usize {
                r.transitions += 1;
                match guarded(|| (index(pool, f, w), index(pool, f, w))) {
                    Err(p) => r.dev(format!("C18/{pool:?}/panic"), "panic", || json!({"pool": format!("{pool:?}"), "frame": hex(f), "workers": w, "detail": p})),
                    Ok((a, a2)) => {
                        if a != a2 {
                            r.dev(format!("C18/{pool:?}/not-deterministic"), "nondeterministic", || json!({"pool": format!("{pool:?}"), "frame": hex(f), "workers": w}));
                        }
                        if let Some(i) = a {
                            if i >= w {
                                r.dev(format!("C18/{pool:?}/index-out-of-range"), "index-out-of-range", || json!({"pool": format!("{pool:?}"), "base": b.name, "cut": cut, "frame": hex(f), "workers": w, "index": i}));
                            }
                        }
                        // a frame that carries the complete identity must not be discarded by the TLS pool
                        if a.is_none() && cut >= full_identity_len {
                            r.dev(format!("C18/{pool:?}/complete-frame-discarded"), "discarded", || json!({"pool": format!("{pool:?}"), "base": b.name, "cut": cut, "workers": w}));
                        }
                    }
                }
            }
        }
        r.exec(1);
        // (2) independence from every byte outside the identity fields, for frames of at least IP + 20 TCP bytes
        for &w in workers {
            let base_idx = index(pool, &b.frame, w);
            r.outcome(&(format!("{pool:?}"), w, base_idx));
            for off in 0..b.frame.len() {
                let k = kind(b, off);
                if k == Kind::Structural {
                    continue;
                }
                let mut changes_allowed = identity_matters(pool, k);
                let mut changed = false;
                for &val in values {
                    if val == b.frame[off] {
                        continue;
                    }
                    let mut f = b.frame.clone();
                    f[off] = val;
                    r.transitions += 1;
                    let idx = index(pool, &f, w);
                    if idx != base_idx {
                        changed = true;
                        if !changes_allowed {
                            r.dev(format!("C18/{pool:?}/index-depends-on-non-identity-byte"), "non-identity-dependence", || json!({"pool": format!("{pool:?}"), "base": b.name, "offset": off, "offset_in_ip": off as i64 - b.ip as i64, "byte_class": format!("{k:?}"), "value": val, "workers": w, "index_before": base_idx, "index_after": idx, "frame": hex(&b.frame[..b.frame.len().min(90)])}));
                            changes_allowed = true; // one record per offset
                        }
                    }
                }
                let _ = changed;
            }
            // truncations that keep the whole identity: same index as the full frame
            for cut in full_identity_len..b.frame.len() {
                r.transitions += 1;
                if index(pool, &b.frame[..cut], w) != base_idx {
                    r.dev(format!("C18/{pool:?}/index-depends-on-frame-length"), "length-dependence", || json!({"pool": format!("{pool:?}"), "base": b.name, "cut": cut, "workers": w}));
                }
            }
            // ... and extensions: the same frame with more payload behind it, up to and beyond what a 16-bit length can
            // express (capture "super-frames" of offloading NICs and loopback devices carry more than 65535 bytes)
            if b.frame.len() >= full_identity_len {
                for iplen in [1500usize, 9000, 65535, 65536, 65537, 65536 + 19, 65536 + 20, 65536 + 23, 65536 + 24, 65536 + 59, 65536 + 63, 65536 + 64, 70000, 131072, 131072 + 20] {
                    let total = b.ip + iplen;
                    if total <= b.frame.len() {
                        continue;
                    }
                    for fill in [0u8, 0xff] {
                        let mut f = b.frame.clone();
                        f.resize(total, fill);
                        r.transitions += 1;
                        let idx = index(pool, &f, w);
                        if idx != base_idx {
                            r.dev(format!("C18/{pool:?}/index-depends-on-frame-length"), "length-dependence", || json!({"pool": format!("{pool:?}"), "base": b.name, "ip_part_length": iplen, "fill": fill, "workers": w, "index_before": base_idx, "index_after": idx}));
                        }
                    }
                }
            }
            // (3) direction: HTTP must not distinguish the two directions of a connection
            if pool == Pool::Http {
                let sw = swapped(b);
                r.transitions += 1;
                if index(pool, &sw, w) != base_idx {
                    r.dev("C18/Http/directions-of-one-connection-on-different-workers", "direction-dependence", || json!({"base": b.name, "workers": w, "index": base_idx, "index_swapped": index(pool, &sw, w), "frame": hex(&b.frame[..b.frame.len().min(90)])}));
                }
            }
        }
    }
}

pub fn run(thorough: bool) -> Outcome {
    let bs = bases();
    let values: Vec<u8> = if thorough { (0..=255).collect() } else { vec![0, 1, 2, 5, 6, 0x10, 0x40, 0x45, 0x50, 0x7f, 0x80, 0xfe, 0xff] };
    let workers: Vec<usize> = if thorough { (1..=64).collect() } else { vec![1, 2, 3, 4, 5, 7, 8, 16, 31, 64] };
    let rep = par_slices(bs.len(), bs.len(), |rg| {
        let mut r = Report::new();
        for i in rg {
            check_base(&mut r, &bs[i], &values, &workers);
            r.sample(|| json!({"base": bs[i].name, "frame_len": bs[i].frame.len(), "index_http_7_workers": index(Pool::Http, &bs[i].frame, 7)}));
        }
        r
    });
    let mut rep = rep;
    dispatcher_threads(&mut rep, &bs, &workers);
    refused_frames_are_counted(&mut rep);
    Outcome {
        report: rep,
        rule: "108 base frames (incl. raw-IP packets whose bytes 12/13 are near misses of an IP EtherType) (IPv4 header-length fields 0..15 and IPv6, Ethernet and raw, SYN and data segment): every truncation x every worker count 1..64 (valid index, deterministic, complete frames never discarded); every byte that is not structural (version/IHL, protocol, ethertype) rewritten to every value of the tier's value set x worker counts: the index may change only for identity bytes (TCP: source address; HTTP/TLS: addresses and ports); truncations keeping the identity give the same index, and so do extensions of the frame to IP-part lengths 1500 .. 65535, 65536 .. 65536+64, 70000, 131072(+20); HTTP index equal for the swapped direction; frames no dispatcher can attribute (UDP, ICMP, a runt, IP version 5) through real pools: total_dropped equals the number of Dropped answers; every base frame x pool x worker count computed on four freshly started threads and on the calling thread (dispatch takes &self, a pool is shared between dispatcher threads: the worker of a packet does not depend on who dispatches it); distinct = distinct (pool, workers, index) outcomes".into(),
        exhaustive: true,
        bounds: json!({"bases": bs.len(), "byte_values": values.len(), "worker_counts_for_rewrites": workers.len()}),
    }
}

/// `dispatch(&self)` may be called from any thread (the pools are handed out as `Arc<WorkerPool>`): the worker a packet is
/// sent to must not depend on the dispatching thread. Every base frame x pool x worker count, on four fresh threads.
fn dispatcher_threads(r: &mut Report, bs: &[Base], workers: &[usize]) {
    let table = |bs: &[Base], workers: &[usize]| -> Vec<Option<usize>> {
        let mut v = vec![];
        for b in bs {
            for pool in [Pool::Tcp, Pool::Http, Pool::Tls] {
                for &w in workers {
                    v.push(index(pool, &b.frame, w));
                }
            }
        }
        v
    };
    let here = match guarded(|| table(bs, workers)) {
        Ok(t) => t,
        Err(p) => {
            r.dev("C18/panic", "panic", || json!({"kind": "dispatcher-threads", "detail": p}));
            return;
        }
    };
    let others: Vec<Result<Vec<Option<usize>>, String>> = std::thread::scope(|sc| {
        let hs: Vec<_> = (0..4).map(|_| sc.spawn(|| guarded(|| table(bs, workers)))).collect();
        hs.into_iter().map(|h| h.join().unwrap_or_else(|_| Err("thread panicked".into()))).collect()
    });
    for (ti, o) in others.iter().enumerate() {
        r.exec(here.len() as u64);
        match o {
            Err(p) => r.dev("C18/panic", "panic", || json!({"kind": "dispatcher-threads", "thread": ti, "detail": p})),
            Ok(t) => {
                if let Some(i) = (0..here.len()).find(|&i| t[i] != here[i]) {
                    let per_base = 3 * workers.len();
                    let (bi, pi, wi) = (i / per_base, i % per_base / workers.len(), i % workers.len());
                    r.dev(format!("C18/{}/index-depends-on-the-dispatching-thread", ["tcp", "http", "tls"][pi]), "dispatcher-thread", || json!({"kind": "dispatcher-threads", "base": bs[bi].name, "workers": workers[wi], "calling_thread": here[i], "other_thread": t[i], "thread": ti}));
                }
            }
        }
    }
}

/// Frames a dispatcher cannot attribute to any worker (UDP, ICMP, a runt, an unknown IP version) are refused before a worker
/// is chosen. However a pool handles them, its statistics must agree with what `dispatch` answered: `total_dropped` equals
/// the number of `Dropped` outcomes (real pools, one dispatcher, queues that cannot overflow).
fn refused_frames_are_counted(r: &mut Report) {
    let seg = |sport: u16, flags: u8| pkt::frame(Link::Ethernet, &pkt::build(&Spec { sport, dport: 443, flags, seq: 1000, ack: if flags & ACK != 0 { 1 } else { 0 }, payload: if flags & PSH != 0 { vec![0x17, 3, 3, 0, 1, 0] } else { vec![] }, ..Spec::default() }));
    let mut udp = pkt::build(&Spec::default());
    udp[9] = 17;
    let mut icmp = pkt::build(&Spec::default());
    icmp[9] = 1;
    let mut v5 = pkt::build(&Spec::default());
    v5[0] = 0x55;
    let frames: Vec<(&str, Vec<u8>)> = vec![("syn", seg(40000, SYN)), ("udp", pkt::frame(Link::Ethernet, &udp)), ("data", seg(40000, ACK | PSH)), ("icmp", pkt::frame(Link::Ethernet, &icmp)), ("runt", vec![0x45, 0, 0, 20, 0, 0, 0, 0, 64, 6, 0, 0, 10, 0, 0, 1, 10, 0, 0, 2]), ("syn-2", seg(40001, SYN)), ("ip-version-5", pkt::frame(Link::Ethernet, &v5)), ("data-2", seg(40001, ACK | PSH)), ("udp-raw", udp.clone())];
    for workers in [1usize, 3] {
        for pool in ["tcp", "http", "tls"] {
            r.exec(frames.len() as u64);
            let res = guarded(|| -> Result<(Vec<bool>, u64), String> {
                match pool {
                    "tcp" => {
                        let (tx, _rx) = std::sync::mpsc::channel();
                        let p = huginn_net_tcp::WorkerPool::new(workers, 64, 4, 5, tx, None, 64, None).map_err(|e| e.to_string())?;
                        let o: Vec<bool> = frames.iter().map(|(_, f)| p.dispatch(f.clone()) == huginn_net_tcp::DispatchResult::Dropped).collect();
                        Ok((o, p.stats().total_dropped))
                    }
                    "http" => {
                        let (tx, _rx) = std::sync::mpsc::channel();
                        let p = huginn_net_http::WorkerPool::new(workers, 64, 4, 5, tx, None, 64, None).map_err(|e| e.to_string())?;
                        let o: Vec<bool> = frames.iter().map(|(_, f)| p.dispatch(f.clone()) == huginn_net_http::DispatchResult::Dropped).collect();
                        Ok((o, p.stats().total_dropped))
                    }
                    _ => {
                        let (tx, _rx) = std::sync::mpsc::channel();
                        let p = huginn_net_tls::WorkerPool::new(workers, 64, 4, 5, tx, 64, None).map_err(|e| e.to_string())?;
                        let o: Vec<bool> = frames.iter().map(|(_, f)| p.dispatch(f.clone()) == huginn_net_tls::DispatchResult::Dropped).collect();
                        Ok((o, p.stats().total_dropped))
                    }
                }
            });
            match res {
                Ok(Ok((outcomes, total))) => {
                    let dropped = outcomes.iter().filter(|x| **x).count() as u64;
                    r.outcome(&("refused", pool, workers, dropped));
                    if total != dropped {
                        let which: Vec<&str> = frames.iter().zip(outcomes.iter()).filter(|(_, d)| **d).map(|(f, _)| f.0).collect();
                        r.dev(format!("C18/{pool}/total_dropped-disagrees-with-the-dispatch-outcomes"), "counters", || json!({"kind": "refused-frames", "pool": pool, "workers": workers, "dropped_outcomes": dropped, "frames_answered_dropped": which, "stats_total_dropped": total}));
                    }
                }
                Ok(Err(e)) => r.machinery_error(format!("refused-frames: pool not constructible: {e}")),
                Err(p) => r.dev("C18/panic", "panic", || json!({"kind": "refused-frames", "pool": pool, "detail": p})),
            }
        }
    }
}

pub fn replay(ex: &Value) -> Report {
    let mut r = Report::new();
    let bs = bases();
    if ex["kind"].as_str() == Some("refused-frames") {
        refused_frames_are_counted(&mut r);
        return r;
    }
    if ex["kind"].as_str() == Some("dispatcher-threads") {
        dispatcher_threads(&mut r, &bs, &(1..=64).collect::<Vec<usize>>());
        return r;
    }
    match bs.iter().find(|b| Some(b.name.as_str()) == ex["base"].as_str()) {
        Some(b) => check_base(&mut r, b, &(0..=255).collect::<Vec<u8>>(), &(1..=64).collect::<Vec<usize>>()),
        None => r.machinery_error("bad replay file"),
    }
    r
}
