//! C13 — every bundled signature is reachable by the traffic it describes.
//! For every TCP (SYN / SYN+ACK) and HTTP (request / response) signature of the bundled database, packets and
//! messages conforming to it under the p0f field definitions are synthesised (every admissible version, hop
//! count, MSS, window realisation, scale, quirk encoding, payload class; every subset of optional headers) and sent
//! through the packet-level analyzers with the bundled database. The best match must be the signature's own
//! label, or an earlier label that the reference conformance predicate also accepts.
use crate::drv::{HttpSeq, TcpSeq};
use crate::gen::pkt::{self, Spec, ACK, CWR, ECE, PSH, SYN, URG};
use crate::props::c03::db;
use crate::refm::p0f::{reference, Sw};
use crate::report::{guarded, par_slices, Report};
use crate::Outcome;
use huginn_net_db::http as h;
use huginn_net_db::tcp::{self as t, IpVersion, PayloadSize, Quirk, TcpOption, Ttl, WindowSize};
use serde_json::{json, Value};

pub struct Inst {
    pub spec: Spec,
    pub dims: String,
}

pub fn synth(sig: &t::Signature, response: bool, thorough: bool) -> Result<Vec<Inst>, String> {
    let vers: Vec<bool> = match sig.version {
        IpVersion::V4 => vec![false],
        IpVersion::V6 => vec![true],
        IpVersion::Any => vec![false, true],
    };
    let has = |o: &TcpOption| sig.olayout.contains(o);
    let q = |x: Quirk| sig.quirks.contains(&x);
    let msss: Vec<Option<u16>> = if has(&TcpOption::Mss) {
        match sig.mss {
            Some(m) => vec![Some(m)],
            None => {
                if thorough {
                    vec![Some(1460), Some(536), Some(1380), Some(8960), Some(1220), Some(1400), Some(1440), Some(1452), Some(65495), Some(64), Some(88), Some(99), Some(100)]
                } else {
                    // incl. tiny MSS values: below 100 the extractor reports the window raw, and `mss*N` must still match
                    vec![Some(1460), Some(536), Some(1380), Some(8960), Some(88), Some(99)]
                }
            }
        }
    } else {
        vec![None]
    };
    let wss: Vec<Option<u8>> = if has(&TcpOption::Ws) {
        match sig.wscale {
            Some(w) => vec![Some(w)],
            None => {
                if q(Quirk::ExcessiveWindowScaling) {
                    vec![Some(15)]
                } else if thorough {
                    // every legal shift
                    (0..=14).map(Some).collect()
                } else {
                    // both ends of the legal range and two interior values
                    vec![Some(0), Some(1), Some(7), Some(14)]
                }
            }
        }
    } else {
        vec![None]
    };
    let (ittl, ds): (u8, Vec<u8>) = match sig.ittl {
        Ttl::Value(v) => (v, (0..=30).collect()),
        // random-TTL form: any TTL up to the stated maximum
        Ttl::Bad(v) => (v, (0..v).collect()),
        _ => return Err("ttl form".into()),
    };
    let pcs: Vec<bool> = match sig.pclass {
        PayloadSize::Zero => vec![false],
        PayloadSize::NonZero => vec![true],
        PayloadSize::Any => vec![false, true],
    };
    let ecn_encs: Vec<u8> = if q(Quirk::Ecn) { vec![1, 2, 3] } else { vec![0] }; // 1 = TCP ECE|CWR, 2 = IP ECT, 3 = both headers at once
    let mut out = vec![];
    for &v6 in &vers {
        for &mss in &msss {
            for &ws in &wss {
                for &d in &ds {
                    for &pc in &pcs {
                        for &ecn_enc in &ecn_encs {
                            if d >= ittl {
                                continue;
                            }
                            let min = if v6 { 60u32 } else { 40 };
                            let wins: Vec<u32> = match sig.wsize {
                                WindowSize::Value(v) => vec![v as u32],
                                WindowSize::Mss(n) => match mss {
                                    Some(m) => vec![n as u32 * m as u32],
                                    None => return Err("mss* without mss".into()),
                                },
                                WindowSize::Mtu(n) => match mss {
                                    Some(m) => vec![n as u32 * (m as u32 + min)],
                                    None => return Err("mtu* without mss".into()),
                                },
                                WindowSize::Mod(m) => (1..=if thorough { 16u32 } else { 5 }).map(|k| k * m as u32).collect(),
                                WindowSize::Any => {
                                    if thorough {
                                        vec![0, 1, 1024, 4096, 5840, 8192, 14600, 29200, 32120, 65535]
                                    } else {
                                        vec![1, 5840, 8192, 65535]
                                    }
                                }
                            };
                            for w in wins {
                                if w > 65535 {
                                    continue;
                                }
                                let mut o: Vec<u8> = vec![];
                                for (i, op) in sig.olayout.iter().enumerate() {
                                    match op {
                                        TcpOption::Eol(n) => {
                                            if i + 1 != sig.olayout.len() {
                                                return Err("eol not last".into());
                                            }
                                            o.push(0);
                                            for _ in 0..*n {
                                                o.push(if q(Quirk::TrailinigNonZero) { 9 } else { 0 });
                                            }
                                        }
                                        TcpOption::Nop => o.push(1),
                                        TcpOption::Mss => {
                                            let m = mss.unwrap_or(0);
                                            o.extend([2, 4, (m >> 8) as u8, m as u8]);
                                        }
                                        TcpOption::Ws => o.extend([3, 3, ws.unwrap_or(0)]),
                                        TcpOption::Sok => o.extend([4, 2]),
                                        TcpOption::Sack => o.extend([5, 10, 0, 0, 0, 1, 0, 0, 0, 2]),
                                        TcpOption::TS => {
                                            let a: u32 = if q(Quirk::OwnTimestampZero) { 0 } else { 0x01020304 };
                                            let b: u32 = if q(Quirk::PeerTimestampNonZero) || response { 0x0a0b0c0d } else { 0 };
                                            o.extend([8, 10]);
                                            o.extend(a.to_be_bytes());
                                            o.extend(b.to_be_bytes());
                                        }
                                        TcpOption::Unknown(k) => o.extend([*k, 2]),
                                    }
                                }
                                if o.len() % 4 != 0 || o.len() > 40 {
                                    return Err(format!("layout bytes {} not multiple of 4", o.len()));
                                }
                                let df = q(Quirk::Df);
                                let id = if df {
                                    if q(Quirk::NonZeroID) {
                                        0x1234
                                    } else {
                                        0
                                    }
                                } else if q(Quirk::ZeroID) {
                                    0
                                } else {
                                    0x1234
                                };
                                let mut flags = if response { SYN | ACK } else { SYN };
                                if ecn_enc & 1 != 0 {
                                    flags |= ECE | CWR;
                                }
                                if q(Quirk::Urg) {
                                    flags |= URG;
                                }
                                if q(Quirk::Push) {
                                    flags |= PSH;
                                }
                                let ack = if response {
                                    if q(Quirk::AckNumZero) {
                                        0
                                    } else {
                                        777
                                    }
                                } else if q(Quirk::AckNumNonZero) {
                                    777
                                } else {
                                    0
                                };
                                if v6 && sig.olen != 0 {
                                    continue;
                                }
                                let spec = Spec {
                                    v6,
                                    ttl: ittl - d,
                                    ip_opt_words: sig.olen / 4,
                                    df,
                                    mf: false,
                                    res: q(Quirk::MustBeZero),
                                    frag_off: 0,
                                    id,
                                    ecn: if ecn_enc & 2 != 0 { 2 } else { 0 },
                                    flow: if q(Quirk::FlowID) { 5 } else { 0 },
                                    flags,
                                    seq: if q(Quirk::SeqNumZero) { 0 } else { 1000 },
                                    ack,
                                    urg: if q(Quirk::NonZeroURG) { 3 } else { 0 },
                                    window: w as u16,
                                    opts: o,
                                    payload: if pc { vec![b'x'] } else { vec![] },
                                    ..Default::default()
                                };
                                out.push(Inst { spec, dims: format!("v6={v6} mss={mss:?} ws={ws:?} hops={d} win={w} payload={pc} ecn_enc={ecn_enc}") });
                            }
                        }
                    }
                }
            }
        }
    }
    Ok(out)
}

fn qname(q: &Quirk) -> String {
    q.to_string()
}
/// reference conformance predicate: does the packet described by `s` conform to `sig` under the p0f definitions?
pub fn conforms(s: &Spec, sig: &t::Signature) -> bool {
    let e = reference(s, Sw::default());
    match sig.version {
        IpVersion::V4 if s.v6 => return false,
        IpVersion::V6 if !s.v6 => return false,
        _ => {}
    }
    match sig.ittl {
        Ttl::Value(n) => {
            if s.ttl > n || n - s.ttl > 30 {
                return false;
            }
        }
        Ttl::Bad(n) => {
            if s.ttl > n {
                return false;
            }
        }
        _ => return false,
    }
    if e.olen != sig.olen || (sig.mss.is_some() && sig.mss.unwrap_or(0) != e.mss.unwrap_or(0)) {
        return false;
    }
    let min = if s.v6 { 60u32 } else { 40 };
    let w = s.window as u32;
    let win_ok = match sig.wsize {
        WindowSize::Any => true,
        WindowSize::Value(v) => w == v as u32,
        WindowSize::Mss(k) => e.mss.map(|m| w == k as u32 * m as u32).unwrap_or(false),
        WindowSize::Mtu(k) => e.mss.map(|m| w == k as u32 * (m as u32 + min)).unwrap_or(false),
        WindowSize::Mod(m) => m != 0 && w % m as u32 == 0,
    };
    if !win_ok {
        return false;
    }
    if let Some(sc) = sig.wscale {
        if e.wscale.unwrap_or(0) != sc {
            return false;
        }
    }
    let layout: Vec<String> = sig.olayout.iter().map(|o| o.to_string()).collect();
    if layout != e.olayout {
        return false;
    }
    // quirks as a set; df/id+/id-/0+ are ignored for IPv6 and flow for IPv4
    let ignored: &[&str] = if s.v6 { &["df", "id+", "id-", "0+"] } else { &["flow"] };
    let mut sq: Vec<String> = sig.quirks.iter().map(qname).filter(|x| !ignored.contains(&x.as_str())).collect();
    sq.sort();
    sq.dedup();
    let eq: Vec<String> = e.quirks.iter().map(|x| x.to_string()).filter(|x| !ignored.contains(&x.as_str())).collect();
    if sq != eq {
        return false;
    }
    match sig.pclass {
        PayloadSize::Any => true,
        PayloadSize::Zero => s.payload.is_empty(),
        PayloadSize::NonZero => !s.payload.is_empty(),
    }
}

fn label_key(l: &huginn_net_db::Label) -> String {
    format!("{}:{}:{}:{}", l.ty, l.class.clone().unwrap_or_default(), l.name, l.flavor.clone().unwrap_or_default())
}

/// why an instantiation was not matched to its own label: every component in which the observation (as the
/// analyzer rendered it) is not a distance-0 instance of the database signature, named by root cause.
/// The comparison is semantic (absent option = 0, version-specific quirks ignored, random-TTL form).
fn root_cause(sig: &t::Signature, obs: &str, s: &Spec) -> String {
    use std::str::FromStr;
    let Ok(o) = t::Signature::from_str(obs) else { return "no-observation".into() };
    let mut why: Vec<String> = vec![];
    match o.ittl.distance_ttl(&sig.ittl) {
        Some(0) => {}
        _ => why.push(match sig.ittl {
            Ttl::Value(n) if ![32u8, 64, 128, 255].contains(&n) => "initial-ttl-off-the-32-64-128-255-grid".to_string(),
            Ttl::Bad(_) => "random-ttl-form".to_string(),
            _ => "ttl".to_string(),
        }),
    }
    if o.olen != sig.olen {
        why.push("olen".into());
    }
    if sig.mss.is_some() && sig.mss.unwrap_or(0) != o.mss.unwrap_or(0) {
        why.push("mss".into());
    }
    let kind = |w: &WindowSize| match w {
        WindowSize::Any => "any",
        WindowSize::Mss(_) => "mss-multiple",
        WindowSize::Mtu(_) => "mtu-multiple",
        WindowSize::Mod(_) => "modulus",
        WindowSize::Value(_) => "raw",
    };
    match o.wsize.distance_window_size(&sig.wsize, o.mss) {
        Some(0) => {}
        None => why.push(format!("window-{}-signature-observed-as-{}", kind(&sig.wsize), kind(&o.wsize))),
        Some(_) => why.push(if kind(&sig.wsize) != kind(&o.wsize) { format!("window-{}-signature-observed-as-{}", kind(&sig.wsize), kind(&o.wsize)) } else { "window-value".into() }),
    }
    if sig.wscale.is_some() && sig.wscale.unwrap_or(0) != o.wscale.unwrap_or(0) {
        why.push("wscale".into());
    }
    let eol_sig = sig.olayout.iter().any(|x| matches!(x, TcpOption::Eol(n) if *n > 0));
    if o.olayout != sig.olayout {
        why.push(if eol_sig && o.olayout.starts_with(&sig.olayout) { "eol-padding-rendered-as-options".into() } else { "olayout".into() });
    }
    let ignored: Vec<Quirk> = if s.v6 { vec![Quirk::Df, Quirk::NonZeroID, Quirk::ZeroID, Quirk::MustBeZero] } else { vec![Quirk::FlowID] };
    let strip = |v: &[Quirk]| v.iter().filter(|q| !ignored.contains(q)).cloned().collect::<Vec<_>>();
    let (a, b) = (strip(&o.quirks), strip(&sig.quirks));
    if !(a.iter().all(|x| b.contains(x)) && b.iter().all(|x| a.contains(x))) {
        why.push(if eol_sig && o.olayout != sig.olayout { "quirks-from-eol-padding".into() } else { "quirks".into() });
    }
    if sig.pclass != PayloadSize::Any && sig.pclass != o.pclass {
        why.push("pclass".into());
    }
    if why.is_empty() {
        why.push("distance-0-but-another-label-wins".into());
    }
    why.join("+")
}

fn tcp_part(r: &mut Report, thorough: bool) {
    let d = db();
    let mut work: Vec<(bool, usize, usize)> = vec![];
    for (response, coll) in [(false, &d.tcp_request), (true, &d.tcp_response)] {
        for (li, (_l, sigs)) in coll.entries.iter().enumerate() {
            for si in 0..sigs.len() {
                work.push((response, li, si));
            }
        }
    }
    let rep = par_slices(work.len(), work.len(), |rg| {
        let mut r = Report::new();
        for i in rg {
            let (response, li, si) = work[i];
            let coll = if response { &d.tcp_response } else { &d.tcp_request };
            let (label, sigs) = &coll.entries[li];
            let sig = &sigs[si];
            let own = label_key(label);
            let table = if response { "tcp:response" } else { "tcp:request" };
            let insts = match synth(sig, response, thorough) {
                Ok(v) => v,
                Err(e) => {
                    r.dev(format!("C13/{table}/{own}/{sig}/unbuildable"), "unbuildable", || json!({"table": table, "label": own, "signature": sig.to_string(), "detail": e}));
                    continue;
                }
            };
            r.states += 1;
            if insts.is_empty() {
                r.dev(format!("C13/{table}/{own}/{sig}/no-instance"), "no-instance", || json!({"table": table, "label": own, "signature": sig.to_string()}));
            }
            for inst in &insts {
                debug_assert!(conforms(&inst.spec, sig));
                if !conforms(&inst.spec, sig) {
                    r.machinery_error(format!("synthesised packet does not conform to its own signature: {sig} {}", inst.dims));
                    continue;
                }
                r.exec(1);
                let frame = pkt::build(&inst.spec);
                let a = match guarded(|| TcpSeq::new(Some(d), 8).feed(&frame)) {
                    Ok(a) => a,
                    Err(p) => {
                        r.dev(format!("C13/{table}/{own}/{sig}/panic"), "panic", || json!({"spec": inst.spec, "detail": p}));
                        continue;
                    }
                };
                let obs = a.syn.clone().or(a.syn_ack.clone()).unwrap_or_default();
                let got = a.os.clone().and_then(|o| o.0);
                r.outcome(&(table, &own, &got));
                let ok = match &got {
                    Some(l) if *l == own => true,
                    Some(l) => {
                        // an earlier entry that the traffic conforms to as well
                        match coll.entries.iter().position(|(lb, _)| label_key(lb) == *l) {
                            Some(p) if p < li => coll.entries[p].1.iter().any(|s2| conforms(&inst.spec, s2)),
                            _ => false,
                        }
                    }
                    None => false,
                };
                if ok {
                    continue;
                }
                let why = root_cause(sig, &obs, &inst.spec);
                let outcome = match &got {
                    None => "unmatched".to_string(),
                    Some(l) => format!("matched-as:{l}"),
                };
                r.dev(format!("C13/{table}/{own}/{sig}/{why}"), why.clone(), || json!({"table": table, "label": own, "signature": sig.to_string(), "instance": inst.dims, "spec": inst.spec, "observed": obs, "outcome": outcome}));
            }
            if i % 17 == 0 {
                r.sample(|| json!({"table": table, "label": own, "signature": sig.to_string(), "instances": insts.len()}));
            }
        }
        r
    });
    *r = std::mem::take(r).merge(rep);
}

fn default_value(name: &str) -> &'static str {
    match name.to_ascii_lowercase().as_str() {
        "host" => "example.com",
        "user-agent" => "UA",
        "accept" => "*/*",
        "accept-language" => "en-US",
        "accept-encoding" => "gzip",
        "connection" => "close",
        "content-length" => "0",
        "content-type" => "text/html",
        "date" => "Mon, 01 Jan 2024 00:00:00 GMT",
        "server" => "S",
        "cookie" => "a=b",
        "referer" => "http://r/",
        _ => "v",
    }
}
/// reference conformance for HTTP: ordered header names with the listed values, optional headers in or out,
/// none of the absent headers present, software string containing the token
fn http_conforms(version: &str, headers: &[(String, String)], sw: &str, sig: &h::Signature) -> bool {
    match sig.version {
        h::Version::V10 if version != "HTTP/1.0" => return false,
        h::Version::V11 if version != "HTTP/1.1" => return false,
        _ => {}
    }
    if !sw.contains(&sig.expsw) {
        return false;
    }
    if sig.habsent.iter().any(|a| headers.iter().any(|(n, _)| n.eq_ignore_ascii_case(&a.name))) {
        return false;
    }
    let mut i = 0;
    for hd in &sig.horder {
        if i < headers.len() && headers[i].0 == hd.name {
            if let Some(v) = &hd.value {
                if !headers[i].1.contains(v.as_str()) {
                    return false;
                }
            }
            i += 1;
        } else if !hd.optional {
            return false;
        }
    }
    i == headers.len()
}

/// which components keep the observation from being a distance-0 instance of its own signature; when none
/// does, another (non-conforming or later) entry is simply not worse
fn http_cause(sig: &h::Signature, obs: &str, is_req: bool) -> String {
    use huginn_net_db::observable_http_signals_matching::HttpDistance;
    use huginn_net_db::observable_signals::{HttpRequestObservation, HttpResponseObservation};
    use std::str::FromStr;
    let Ok(o) = h::Signature::from_str(obs) else { return "observation-text-does-not-parse".into() };
    let (ho, ha, sw) = if is_req {
        let x = HttpRequestObservation { version: o.version, horder: o.horder.clone(), habsent: o.habsent.clone(), expsw: o.expsw.clone() };
        (x.distance_horder(sig), x.distance_habsent(sig), x.distance_expsw(sig))
    } else {
        let x = HttpResponseObservation { version: o.version, horder: o.horder.clone(), habsent: o.habsent.clone(), expsw: o.expsw.clone() };
        (x.distance_horder(sig), x.distance_habsent(sig), x.distance_expsw(sig))
    };
    let mut why = vec![];
    if sw != Some(0) {
        why.push("software-string-containment-reversed");
    }
    if ha != Some(0) {
        why.push("absent-list-compared-as-ordered-header-list");
    }
    if ho != Some(0) {
        why.push("header-order-distance");
    }
    if why.is_empty() {
        why.push("non-conforming-or-later-entry-also-at-distance-0");
    }
    why.join("+")
}

fn http_part(r: &mut Report) {
    let d = db();
    let mut work: Vec<(bool, usize, usize)> = vec![];
    for (is_req, n) in [(true, d.http_request.entries.len()), (false, d.http_response.entries.len())] {
        for li in 0..n {
            let sigs = if is_req { &d.http_request.entries[li].1 } else { &d.http_response.entries[li].1 };
            for si in 0..sigs.len() {
                work.push((is_req, li, si));
            }
        }
    }
    let rep = par_slices(work.len(), work.len(), |rg| {
        let mut r = Report::new();
        for i in rg {
            let (is_req, li, si) = work[i];
            let (label, sigs) = if is_req { &d.http_request.entries[li] } else { &d.http_response.entries[li] };
            let sig = &sigs[si];
            let own = label_key(label);
            let table = if is_req { "http:request" } else { "http:response" };
            let versions: Vec<&str> = match sig.version {
                h::Version::V10 => vec!["HTTP/1.0"],
                h::Version::V11 => vec!["HTTP/1.1"],
                _ => vec!["HTTP/1.0", "HTTP/1.1"],
            };
            let opt_idx: Vec<usize> = sig.horder.iter().enumerate().filter(|(_, x)| x.optional).map(|(i, _)| i).collect();
            let nsub = 1usize << opt_idx.len().min(6);
            r.states += 1;
            for ver in &versions {
                for mask in 0..nsub {
                    for ua_style in 0..6 {
                        // optional white space around the value (RFC 7230 OWS = SP / HTAB): a space, a tab, nothing, both
                        let (ows_pre, ows_post) = [(" ", ""), (" ", ""), ("\t", ""), ("", ""), (" \t ", " \t"), ("\t", "\t")][ua_style];
                        let ua_style = ua_style % 2;
                        let sw_header = if is_req { "User-Agent" } else { "Server" };
                        let sw_value = if ua_style == 0 { sig.expsw.clone() } else { format!("Mozilla/5.0 (X11) {}9.9 extra", sig.expsw) };
                        let mut head = if is_req { format!("GET / {ver}\r\n") } else { format!("{ver} 200 OK\r\n") };
                        let mut hs: Vec<(String, String)> = vec![];
                        for (i, hd) in sig.horder.iter().enumerate() {
                            if hd.optional {
                                if let Some(pos) = opt_idx.iter().position(|&x| x == i) {
                                    if pos < 6 && mask & (1 << pos) == 0 {
                                        continue;
                                    }
                                }
                            }
                            let v = if hd.name.eq_ignore_ascii_case(sw_header) { sw_value.clone() } else { hd.value.clone().unwrap_or_else(|| default_value(&hd.name).to_string()) };
                            head.push_str(&format!("{}:{ows_pre}{}{ows_post}\r\n", hd.name, v));
                            hs.push((hd.name.clone(), v));
                        }
                        head.push_str("\r\n");
                        let has_sw_header = hs.iter().any(|(n, _)| n.eq_ignore_ascii_case(sw_header));
                        let sw_seen = if has_sw_header { sw_value.clone() } else { String::new() };
                        if !http_conforms(ver, &hs, &sw_seen, sig) {
                            // a signature whose software token cannot be carried (no User-Agent/Server header listed)
                            continue;
                        }
                        r.exec(3);
                        // through the packet-level analyzer: SYN, SYN+ACK, then the message in one segment
                        // (every third exchange runs between two ports of ONE address - a host talking to itself, loopback captures)
                        let (c, s) = ((1u8, 40000u16), (if (mask + ua_style) % 3 == 2 { 1u8 } else { 2u8 }, 80u16));
                        let syn = pkt::build(&Spec { src: c.0, sport: c.1, dst: s.0, dport: s.1, flags: SYN, seq: 999, ..Spec::default() });
                        let synack = pkt::build(&Spec { src: s.0, sport: s.1, dst: c.0, dport: c.1, flags: SYN | ACK, seq: 4999, ack: 1000, ..Spec::default() });
                        // the message arrives in a plain data segment, or (every other case) in the segment that also closes
                        // the sender's side, as short HTTP/1.0-style exchanges do
                        let fin = if (mask + ua_style) % 2 == 1 { 1u8 } else { 0 };
                        let data = if is_req {
                            pkt::build(&Spec { src: c.0, sport: c.1, dst: s.0, dport: s.1, flags: ACK | PSH | fin, seq: 1000, ack: 5000, payload: head.clone().into_bytes(), ..Spec::default() })
                        } else {
                            pkt::build(&Spec { src: s.0, sport: s.1, dst: c.0, dport: c.1, flags: ACK | PSH | fin, seq: 5000, ack: 1000, payload: head.clone().into_bytes(), ..Spec::default() })
                        };
                        let res = guarded(|| {
                            let mut a = HttpSeq::new(Some(d), 8);
                            a.feed(&syn);
                            a.feed(&synack);
                            a.feed(&data)
                        });
                        let res = match res {
                            Ok(x) => x,
                            Err(p) => {
                                r.dev(format!("C13/{table}/{own}/{sig}/panic"), "panic", || json!({"head": head, "detail": p}));
                                continue;
                            }
                        };
                        let (got, obs, q) = if is_req {
                            match &res.request {
                                Some(x) => (x.browser.clone(), x.sig.clone(), x.quality.clone()),
                                None => (None, String::new(), "no-result".to_string()),
                            }
                        } else {
                            match &res.response {
                                Some(x) => (x.server.clone(), x.sig.clone(), x.quality.clone()),
                                None => (None, String::new(), "no-result".to_string()),
                            }
                        };
                        r.outcome(&(table, &own, &got, &q));
                        let ok = match &got {
                            Some(l) if *l == own => true,
                            Some(l) => {
                                let entries = if is_req { &d.http_request.entries } else { &d.http_response.entries };
                                match entries.iter().position(|(lb, _)| label_key(lb) == *l) {
                                    Some(p) if p < li => entries[p].1.iter().any(|s2| http_conforms(ver, &hs, &sw_seen, s2)),
                                    _ => false,
                                }
                            }
                            None => false,
                        };
                        if ok {
                            continue;
                        }
                        let why = if q == "no-result" {
                            "message-not-reported".to_string()
                        } else {
                            http_cause(sig, &obs, is_req)
                        };
                        let outcome = got.clone().map(|l| format!("matched-as:{l}")).unwrap_or("unmatched".into());
                        r.dev(format!("C13/{table}/{own}/{sig}/{why}"), why.clone(), || json!({"table": table, "label": own, "signature": sig.to_string(), "head": head, "observed": obs, "outcome": outcome, "quality": q}));
                    }
                }
            }
        }
        r
    });
    *r = std::mem::take(r).merge(rep);
}

pub fn run(thorough: bool) -> Outcome {
    let mut r = Report::new();
    tcp_part(&mut r, thorough);
    http_part(&mut r);
    Outcome {
        report: r,
        rule: "for each of the bundled TCP and HTTP signatures: every synthesised conforming packet/message (IPv4/IPv6 as allowed, all hop counts 0..30, MSS alphabet, window realisations of the form, scale, every encoding of each quirk, payload class; HTTP/1.0/1.1, every subset of <=6 optional headers, software string equal to and containing the token) through the packet-level analyzers with the bundled database; distinct = distinct (table, own label, reported label) outcomes".into(),
        exhaustive: true,
        bounds: json!({"hop_counts": "0..=30 (random-TTL form: every TTL up to the maximum)", "mss_alphabet": if thorough {13} else {6}}),
    }
}

pub fn replay(ex: &Value) -> Report {
    let mut r = Report::new();
    // re-run the exploration and keep the recorded signature's deviations
    let want = ex["signature"].as_str().unwrap_or("").to_string();
    let o = run(false).report;
    for (k, d) in o.devs {
        if d.example["signature"].as_str() == Some(&want) {
            r.devs.insert(k, d);
        }
    }
    r.exec(1);
    r
}
