//! C04 — JA4 fingerprints equal the FoxIO specification for every ClientHello.
//! ClientHellos are generated from a structured description; the reference JA4 is computed from
//! the description; the implementation parses the bytes. Routes: `parse_tls_client_hello`, the
//! stateless packet processor, the stateful TLS packet pipeline (1 and 2 segments) and the unified analyzer.
use crate::gen::pkt::{self, Spec};
use crate::gen::tls::{self, ext_type, is_grease, perms, subsets, Ext, Hello};
use crate::refm::ja4::{ja4, version_code};
use crate::report::{guarded, hex, par_slices, Report};
use crate::Outcome;
use huginn_net_tls::tls::Signature;
use serde_json::{json, Value};

#[derive(Debug, Clone, PartialEq)]
pub struct Obs {
    pub version: String,
    pub sni: Option<String>,
    pub alpn: Option<String>,
    pub ciphers: Vec<u16>,
    pub extensions: Vec<u16>,
    pub sigalgs: Vec<u16>,
    pub curves: Vec<u16>,
    pub ja4: (String, String, String, String, String),
    pub ja4_o: (String, String, String, String, String),
}
pub fn obs_of_sig(s: &Signature) -> Obs {
    let p = s.generate_ja4();
    let o = s.generate_ja4_original();
    Obs {
        version: s.version.to_string(),
        sni: s.sni.clone(),
        alpn: s.alpn.clone(),
        ciphers: s.cipher_suites.clone(),
        extensions: s.extensions.clone(),
        sigalgs: s.signature_algorithms.clone(),
        curves: s.elliptic_curves.clone(),
        ja4: (p.full.value().to_string(), p.raw.value().to_string(), p.ja4_a.clone(), p.ja4_b.clone(), p.ja4_c.clone()),
        ja4_o: (o.full.value().to_string(), o.raw.value().to_string(), o.ja4_a.clone(), o.ja4_b.clone(), o.ja4_c.clone()),
    }
}
pub fn obs_of_client(c: &huginn_net_tls::ObservableTlsClient) -> Obs {
    Obs {
        version: c.version.to_string(),
        sni: c.sni.clone(),
        alpn: c.alpn.clone(),
        ciphers: c.cipher_suites.clone(),
        extensions: c.extensions.clone(),
        sigalgs: c.signature_algorithms.clone(),
        curves: c.elliptic_curves.clone(),
        ja4: (c.ja4.full.value().to_string(), c.ja4.raw.value().to_string(), c.ja4.ja4_a.clone(), c.ja4.ja4_b.clone(), c.ja4.ja4_c.clone()),
        ja4_o: (c.ja4_original.full.value().to_string(), c.ja4_original.raw.value().to_string(), c.ja4_original.ja4_a.clone(), c.ja4_original.ja4_b.clone(), c.ja4_original.ja4_c.clone()),
    }
}

/// Compare one observation with the reference; returns (class, detail) per deviation.
pub fn compare(h: &Hello, o: &Obs) -> Vec<(String, String)> {
    let mut out = vec![];
    for (orig, got) in [(false, &o.ja4), (true, &o.ja4_o)] {
        let mut r = ja4(h, orig);
        // where the published revisions differ (punctuation at the ends of the first ALPN value) either reading is right
        if crate::refm::ja4::alpn_has_two_readings(h) {
            for reading in [1u8, 2] {
                let r2 = crate::refm::ja4::ja4_reading(h, orig, reading);
                if got.2 == r2.a {
                    r = r2;
                    break;
                }
            }
        }
        let tag = if orig { "ja4_o" } else { "ja4" };
        if got.2 != r.a {
            let c = if got.2.get(..3) != r.a.get(..3) {
                let sv = h.exts.iter().any(|e| matches!(e, Ext::SupVer(_)));
                if sv { "version-from-supported_versions".to_string() } else { format!("version-legacy-{:04x}", h.legacy) }
            } else {
                "ja4_a".to_string()
            };
            out.push((c, format!("{tag}: a expected {} got {}", r.a, got.2)));
            continue;
        }
        if got.0 != r.full {
            let c = if r.has_empty_part { "empty-list-hash" } else { "hash" };
            out.push((c.to_string(), format!("{tag}: expected {} got {}", r.full, got.0)));
        }
        if !r.has_empty_part && (got.1 != r.raw || got.3 != r.b_raw || got.4 != r.c_raw) {
            out.push(("raw".to_string(), format!("{tag}_r: expected {} got {}", r.raw, got.1)));
        }
    }
    // separately reported fields follow the bytes
    if o.version != version_code(h) && !out.iter().any(|(c, _)| c.starts_with("version")) {
        out.push(("field-version".into(), format!("expected {} got {}", version_code(h), o.version)));
    }
    let sni = h.exts.iter().find_map(|e| if let Ext::Sni(s) = e { Some(s.clone()) } else { None });
    // (a server_name list written byte by byte - entries of a name type other than host_name - only has to set the flag)
    let raw_sni_list = h.exts.iter().any(|e| matches!(e, Ext::Other(0, _)));
    if o.sni != sni && !raw_sni_list {
        out.push(("field-sni".into(), format!("expected {sni:?} got {:?}", o.sni)));
    }
    let alpn = h.exts.iter().find_map(|e| if let Ext::Alpn(p) = e { p.first().cloned() } else { None });
    if o.alpn != alpn {
        out.push(("field-alpn".into(), format!("expected {alpn:?} got {:?}", o.alpn)));
    }
    let ciphers: Vec<u16> = h.ciphers.iter().copied().filter(|c| !is_grease(*c)).collect();
    if o.ciphers != ciphers {
        out.push(("field-ciphers".into(), format!("expected {ciphers:04x?} got {:04x?}", o.ciphers)));
    }
    let exts: Vec<u16> = h.exts.iter().map(ext_type).filter(|c| !is_grease(*c)).collect();
    if o.extensions != exts {
        out.push(("field-extensions".into(), format!("expected {exts:04x?} got {:04x?}", o.extensions)));
    }
    // wire order; GREASE members may or may not be kept in the separately reported list
    let sa_wire: Vec<u16> = h.exts.iter().find_map(|e| if let Ext::SigAlgs(v) = e { Some(v.clone()) } else { None }).unwrap_or_default();
    let sa_ng: Vec<u16> = sa_wire.iter().copied().filter(|c| !is_grease(*c)).collect();
    if o.sigalgs != sa_wire && o.sigalgs != sa_ng {
        out.push(("field-sigalgs".into(), format!("expected {sa_wire:04x?} got {:04x?}", o.sigalgs)));
    }
    let g_wire: Vec<u16> = h.exts.iter().find_map(|e| if let Ext::Groups(v) = e { Some(v.clone()) } else { None }).unwrap_or_default();
    let g_ng: Vec<u16> = g_wire.iter().copied().filter(|c| !is_grease(*c)).collect();
    if o.curves != g_wire && o.curves != g_ng {
        out.push(("field-groups".into(), format!("expected {g_wire:04x?} got {:04x?}", o.curves)));
    }
    out
}

fn record_devs(r: &mut Report, route: &str, h: &Hello, devs: Vec<(String, String)>) {
    for (class, detail) in devs {
        r.dev(format!("C04/{class}"), class.clone(), || json!({"route": route, "hello": h, "bytes": hex(&tls::bytes(h)), "detail": detail}));
    }
}

/// route 1: one-shot parser
pub fn check_parse(r: &mut Report, h: &Hello) {
    let data = tls::bytes(h);
    r.exec(1);
    match guarded(|| huginn_net_tls::parse_tls_client_hello(&data)) {
        Err(p) => r.dev("C04/panic", "panic", || json!({"route": "parse", "hello": h, "bytes": hex(&data), "detail": p})),
        Ok(Ok(Some(sig))) => {
            let o = obs_of_sig(&sig);
            r.outcome(&o.ja4.1);
            r.outcome(&o.ja4_o.1);
            r.sample(|| json!({"hello": h, "ja4": o.ja4.0, "ja4_r": o.ja4.1, "ja4_o": o.ja4_o.0}));
            let d = compare(h, &o);
            record_devs(r, "parse", h, d);
        }
        Ok(other) => {
            let d = format!("{:?}", other.map(|_| ()).map_err(|e| e.to_string()));
            r.dev("C04/no-result", "no-result", || json!({"route": "parse", "hello": h, "bytes": hex(&data), "detail": d}))
        }
    }
}

fn data_spec(v6: bool, seq: u32, payload: Vec<u8>) -> Spec {
    Spec { v6, flags: pkt::ACK | pkt::PSH, seq, ack: 1, payload, sport: 40001, dport: 443, ..Spec::default() }
}

/// routes 2-4: stateless packet processor, stateful TLS pipeline (1 and 2 segments), unified analyzer
pub fn check_packet_routes(r: &mut Report, h: &Hello) {
    use huginn_net_tls::packet_parser::{parse_packet, IpPacket};
    let data = tls::bytes(h);
    for v6 in [false, true] {
        let frame = pkt::build(&data_spec(v6, 1000, data.clone()));
        // stateless
        r.exec(1);
        let res = guarded(|| match parse_packet(&frame) {
            IpPacket::Ipv4(ip) => huginn_net_tls::process_tls_ipv4(&ip).ok().and_then(|p| p.tls_client),
            IpPacket::Ipv6(ip) => huginn_net_tls::process_tls_ipv6(&ip).ok().and_then(|p| p.tls_client),
            IpPacket::None => None,
        });
        match res {
            Ok(Some(c)) => record_devs(r, "stateless-packet", h, compare(h, &obs_of_client(&c))),
            other => r.dev("C04/no-result", "no-result", || json!({"route": "stateless-packet", "hello": h, "detail": format!("{:?}", other.map(|_| ()))})),
        }
        // stateful, one segment and two segments (cut in the middle)
        for cut in [None, Some(data.len() / 2)] {
            r.exec(2);
            let frames: Vec<Vec<u8>> = match cut {
                None => vec![frame.clone()],
                Some(c) => vec![pkt::build(&data_spec(v6, 1000, data[..c].to_vec())), pkt::build(&data_spec(v6, 1000 + c as u32, data[c..].to_vec()))],
            };
            let res = guarded(|| {
                let mut flows = ttl_cache::TtlCache::new(16);
                let mut outs = vec![];
                for f in &frames {
                    let o = match parse_packet(f) {
                        IpPacket::Ipv4(ip) => huginn_net_tls::process_ipv4_packet(&ip, &mut flows),
                        IpPacket::Ipv6(ip) => huginn_net_tls::process_ipv6_packet(&ip, &mut flows),
                        IpPacket::None => Ok(None),
                    };
                    if let Ok(Some(x)) = o {
                        // what the output shows must be what it carries (rendering oracle in drv.rs)
                        let _ = crate::drv::tls_out(&x);
                        outs.push(obs_of_client(&x.sig));
                    }
                }
                outs
            });
            match res {
                Ok(outs) if outs.len() == 1 => record_devs(r, "tls-pipeline", h, compare(h, &outs[0])),
                other => r.dev("C04/no-result", "no-result", || json!({"route": "tls-pipeline", "cut": cut, "hello": h, "detail": format!("{:?}", other.map(|v| v.len()))})),
            }
        }
        // unified analyzer (TLS only needs no database)
        r.exec(1);
        let res = guarded(|| {
            let cfg = huginn_net::AnalysisConfig { http_enabled: false, tcp_enabled: false, tls_enabled: true, matcher_enabled: false };
            let mut a = huginn_net::HuginnNet::new(None, 16, Some(cfg)).ok()?;
            a.analyze_tcp(&frame).tls_client.map(|t| obs_of_client(&t.sig))
        });
        match res {
            Ok(Some(o)) => record_devs(r, "unified", h, compare(h, &o)),
            other => r.dev("C04/no-result", "no-result", || json!({"route": "unified", "hello": h, "detail": format!("{:?}", other.map(|_| ()))})),
        }
    }
}

fn s(x: &str) -> String {
    x.to_string()
}
pub fn ext_pool() -> Vec<Ext> {
    vec![
        Ext::Sni(s("a.example")),
        Ext::Alpn(vec![s("h2"), s("http/1.1")]),
        Ext::SupVer(vec![0x0a0a, 0x0304, 0x0303]),
        Ext::SigAlgs(vec![0x0403, 0x1a1a, 0x0804, 0x0401]),
        Ext::Groups(vec![0x2a2a, 29, 0x0a1a, 23]),
        Ext::PointFormats(vec![0]),
        Ext::Other(5, vec![1, 0, 0, 0, 0]),
        Ext::Other(23, vec![]),
        Ext::Other(35, vec![]),
        Ext::Other(51, vec![0, 2, 0, 29]),
        Ext::Other(45, vec![1, 1]),
        Ext::Other(21, vec![0; 5]),
        Ext::Other(0xff01, vec![0]),
        Ext::Other(0x1234, vec![1, 2, 3]),
        Ext::Other(0xfe0d, vec![0, 0]),
        Ext::Other(0x3a3a, vec![0]),
        Ext::Other(0xdada, vec![]),
        // looks like GREASE (0x?A?A) but is not one of the 16 reserved values
        Ext::Other(0x0a1a, vec![]),
    ]
}
/// supported_versions alphabet: every permutation of every subset (size 1..3) of four known versions and two
/// GREASE values that holds at least one known version (a list holding only GREASE or draft codes is left to
/// the implementation: the specification text does not settle it); plus "absent"
pub fn supvers() -> Vec<Option<Vec<u16>>> {
    let base = [0x0301u16, 0x0302, 0x0303, 0x0304, 0x0a0a, 0xfafa];
    let mut v: Vec<Option<Vec<u16>>> = vec![None];
    for sub in subsets(&base, 1, 3) {
        if sub.iter().all(|x| is_grease(*x)) {
            continue;
        }
        for p in perms(&sub) {
            v.push(Some(p));
        }
    }
    v
}
/// the small list used where supported_versions is crossed with large cipher families
pub fn supvers_small() -> Vec<Option<Vec<u16>>> {
    vec![None, Some(vec![0x0304]), Some(vec![0x0303]), Some(vec![0x0303, 0x0302]), Some(vec![0x0a0a, 0x0304, 0x0303]), Some(vec![0x3a3a, 0x0303, 0x0302]), Some(vec![0x0301]), Some(vec![0x0303, 0x0304, 0xfafa])]
}

pub fn families(thorough: bool) -> Vec<Hello> {
    let mut v = vec![];
    // F1: versions x cipher lists
    // two GREASE values and two look-alikes (low nibbles A, bytes different: NOT GREASE under RFC 8701)
    let base = [0x1301u16, 0xc02f, 0x0a1a, 0x009c, 0x0a0a, 0xcaca, 0x3a4a];
    let mut cipher_lists: Vec<Vec<u16>> = vec![];
    for sub in subsets(&base, 1, if thorough { 6 } else { 5 }) {
        cipher_lists.extend(perms(&sub));
    }
    // incl. counts at and beyond 256 (a count kept in 8 bits wraps there)
    for n in [98u16, 99, 100, 101, 150, 255, 256, 257, 300, 355, 511, 512] {
        cipher_lists.push((0..n).map(|i| 0x0100 + i).collect());
        let mut with_grease: Vec<u16> = (0..n).map(|i| 0x0100 + i).collect();
        with_grease.insert(1, 0x1a1a);
        cipher_lists.push(with_grease);
    }
    let few: Vec<Vec<u16>> = vec![vec![0x1301], vec![0x0a0a, 0xc02f, 0x1301], vec![0x002f, 0xcaca]];
    for legacy in [0x0300u16, 0x0301, 0x0302, 0x0303, 0x0304, 0x0305, 0x0200] {
        for sv in supvers() {
            for cs in &few {
                for with_sni in [false, true] {
                    let mut exts = vec![];
                    if with_sni {
                        exts.push(Ext::Sni(s("a.b")));
                    }
                    exts.push(Ext::Other(23, vec![]));
                    if let Some(x) = &sv {
                        exts.push(Ext::SupVer(x.clone()));
                    }
                    v.push(Hello { legacy, ciphers: cs.clone(), exts, ..Hello::default() });
                }
            }
        }
        for sv in supvers_small() {
            for cs in &cipher_lists {
                let mut exts = vec![Ext::Sni(s("a.b"))];
                if let Some(x) = &sv {
                    exts.push(Ext::SupVer(x.clone()));
                }
                v.push(Hello { legacy, ciphers: cs.clone(), exts, ..Hello::default() });
            }
        }
    }
    // repeated values: a list is a list - a suite, a signature algorithm or a version offered twice is counted, sorted and
    // hashed twice (every arrangement of each multiset)
    for cs in [vec![0x1301u16, 0x1302, 0x1301], vec![0xc02f, 0xc02f], vec![0x1301, 0x1301, 0x1301, 0x1302], vec![0x0a0a, 0x1301, 0x0a0a, 0x1301], vec![0x1302, 0x1301, 0x1302, 0x1301, 0x1303]] {
        for order in perms(&cs) {
            for sa in [vec![], vec![0x0403u16, 0x0403, 0x0804], vec![0x0804, 0x0403, 0x0804]] {
                let mut exts = vec![Ext::Sni(s("dup.example")), Ext::SupVer(vec![0x0304, 0x0304, 0x0303]), Ext::Alpn(vec![s("h2"), s("h2")])];
                if !sa.is_empty() {
                    exts.push(Ext::SigAlgs(sa.clone()));
                }
                v.push(Hello { ciphers: order.clone(), exts, ..Hello::default() });
            }
        }
    }
    // F2: extension lists: every permutation of every subset up to a size, GREASE extensions at every position
    let pool = ext_pool();
    let mut ext_lists: Vec<Vec<Ext>> = vec![];
    for sub in subsets(&pool, 0, if thorough { 5 } else { 4 }) {
        ext_lists.extend(perms(&sub));
    }
    for n in [98u16, 99, 100, 101, 255, 256, 257, 300, 512] {
        ext_lists.push((0..n).map(|i| Ext::Other(0x4000 + i, vec![])).collect());
        let mut l: Vec<Ext> = (0..n).map(|i| Ext::Other(0x4000 + i, vec![])).collect();
        l.insert(0, Ext::Sni(s("x.y")));
        l.push(Ext::Other(0x0a0a, vec![]));
        ext_lists.push(l);
    }
    for el in &ext_lists {
        for (sid, compression, record_version) in [(32usize, vec![0u8], 0x0301u16), (0, vec![1, 0], 0x0303)] {
            v.push(Hello { record_version, legacy: 0x0303, ciphers: vec![0x1301, 0x2a2a, 0xc02f], exts: el.clone(), sid, compression });
        }
    }
    // server_name extensions whose list holds an entry of another name type (RFC 6066 leaves 1..255 to future use, each with
    // a 16-bit length): the flag says "the extension is there"
    for name_type in [1u8, 2, 0x7f, 0xff] {
        for second_host_name in [false, true] {
            let entry = |t: u8, n: &[u8]| [vec![t], (n.len() as u16).to_be_bytes().to_vec(), n.to_vec()].concat();
            let mut list = entry(name_type, b"a.example");
            if second_host_name {
                list.extend(entry(0, b"b.example"));
            }
            let body = [(list.len() as u16).to_be_bytes().to_vec(), list].concat();
            v.push(Hello { exts: vec![Ext::Other(0, body), Ext::SupVer(vec![0x0304]), Ext::SigAlgs(vec![0x0403])], ..Hello::default() });
        }
    }
    // cipher suites whose code equals the type number of an extension (0x002b = supported_versions, 0x0000 = server_name,
    // 0x0010 = ALPN, 0x000d = signature_algorithms, 0x000a, 0x0033): a lookup in the wrong list finds them; with and
    // without the real extension (a supported_versions list that holds ONLY GREASE values is left out: the statement does not
    // say what its "highest non-GREASE entry" is; the tree answers 1.3)
    for c in [0x002bu16, 0x0000, 0x0010, 0x000d, 0x000a, 0x0033, 0x0304, 0x0303] {
        for legacy in [0x0303u16, 0x0301] {
            for sv in [None, Some(vec![0x0304u16, 0x0303]), Some(vec![0x0a0a, 0x0303])] {
                let mut exts = vec![Ext::Sni(s("c.example")), Ext::Groups(vec![29, 23]), Ext::SigAlgs(vec![0x0403])];
                if let Some(v) = sv {
                    exts.push(Ext::SupVer(v));
                }
                v.push(Hello { legacy, ciphers: vec![0xc02f, c, 0x0035], exts, ..Hello::default() });
            }
        }
    }
    // F3: signature-algorithm orders with GREASE inside x ALPN lists x SNI presence
    let sa = [0x0403u16, 0x0804, 0x1a0a, 0x1a1a];
    let alpns: Vec<Option<Vec<String>>> = vec![None, Some(vec![s("h2")]), Some(vec![s("http/1.1")]), Some(vec![s("h2"), s("http/1.1")]), Some(vec![s("h3")]), Some(vec![s("hq-29"), s("h2")]), Some(vec![s("**"), s("h2")]), Some(vec![s("::")]), Some(vec![s("_sip")]), Some(vec![s("h2-")]), Some(vec![s("a b")]), Some(vec![s(" x"), s("h2")]), Some(vec![s("\u{e9}2")]), Some(vec![s("h\u{e9}")]), Some(vec![s("\u{65e5}\u{672c}"), s("h2")]), Some(vec![s("h2\u{1f600}")])];
    for sub in subsets(&sa, 0, 4) {
        for order in perms(&sub) {
            for al in &alpns {
                for sni in [false, true] {
                    let mut exts = vec![];
                    if sni {
                        exts.push(Ext::Sni(s("www.example.org")));
                    }
                    exts.push(Ext::Other(23, vec![]));
                    if !order.is_empty() {
                        exts.push(Ext::SigAlgs(order.clone()));
                    }
                    if let Some(a) = al {
                        exts.push(Ext::Alpn(a.clone()));
                    }
                    v.push(Hello { exts, ..Hello::default() });
                }
            }
        }
    }
    v
}
/// small family sent through every packet-level route
pub fn route_family() -> Vec<Hello> {
    let mut v = vec![];
    let pool = ext_pool();
    for legacy in [0x0301u16, 0x0303, 0x0305] {
        for sv in supvers_small() {
            for cs in [vec![0x1301u16], vec![0x0a0a, 0xc02f, 0x1301], (0..101).map(|i| 0x0100 + i).collect()] {
                for base in [vec![], vec![pool[0].clone(), pool[1].clone()], vec![pool[3].clone(), pool[15].clone(), pool[4].clone(), pool[0].clone(), pool[9].clone()]] {
                    let mut exts = base.clone();
                    if let Some(x) = &sv {
                        exts.insert(exts.len() / 2, Ext::SupVer(x.clone()));
                    }
                    v.push(Hello { legacy, ciphers: cs.clone(), exts, ..Hello::default() });
                }
            }
        }
    }
    // every record-layer version a ClientHello may travel in
    for record_version in [0x0300u16, 0x0301, 0x0302, 0x0303, 0x0304] {
        for legacy in [0x0301u16, 0x0303] {
            v.push(Hello { record_version, legacy, exts: vec![pool[0].clone(), Ext::SupVer(vec![0x0304, 0x0303])], ..Hello::default() });
        }
    }
    // ClientHellos that fill a TLS record up to the largest legal size (2^14 bytes of record payload): a padding extension
    // sized so that the record length field is 16000, 16379 .. 16384 exactly
    for target in [16000usize, 16379, 16380, 16381, 16382, 16383, 16384] {
        let base = vec![pool[0].clone(), pool[1].clone(), Ext::SupVer(vec![0x0304, 0x0303])];
        let mk = |n: usize| {
            let mut exts = base.clone();
            exts.push(Ext::Other(21, vec![0u8; n]));
            Hello { legacy: 0x0303, ciphers: vec![0x1301, 0xc02f], exts, ..Hello::default() }
        };
        let l0 = tls::bytes(&mk(0)).len() - 5;
        if target >= l0 {
            let h = mk(target - l0);
            if tls::bytes(&h).len() - 5 == target {
                v.push(h);
            }
        }
    }
    v
}

pub fn run(thorough: bool) -> Outcome {
    let mut pre = Report::new();
    // self-test of the harness's SHA-256 use against the FIPS 180 vector
    if crate::refm::ja4::h12("abc") != "ba7816bf8f01" {
        pre.machinery_error("sha256 self-test failed");
    }
    let fam = families(thorough);
    let rf = route_family();
    let n1 = fam.len();
    let report = par_slices(n1 + rf.len(), 512, |range| {
        let mut r = Report::new();
        for i in range {
            if i < n1 {
                check_parse(&mut r, &fam[i]);
            } else {
                check_packet_routes(&mut r, &rf[i - n1]);
            }
        }
        r
    });
    Outcome {
        report: pre.merge(report),
        rule: "ClientHellos generated from descriptions: legacy version x supported_versions x every permutation of every cipher subset (with GREASE) ; every permutation of every extension subset (with GREASE extensions) x session-id/compression/record-version ; sigalg orders x ALPN x SNI; lists with repeated values (every arrangement of 5 cipher multisets x repeated signature algorithms / versions / ALPN entries); distinct = distinct JA4_r / JA4_ro strings produced by the implementation".into(),
        exhaustive: true,
        bounds: json!({"parse_route_hellos": n1, "packet_route_hellos": rf.len(), "max_cipher_subset": if thorough {6} else {5}, "max_extension_subset": if thorough {5} else {4}}),
    }
}

pub fn replay(ex: &Value) -> Report {
    let mut r = Report::new();
    match serde_json::from_value::<Hello>(ex["hello"].clone()) {
        Ok(h) => {
            if ex["route"].as_str() == Some("parse") {
                check_parse(&mut r, &h)
            } else {
                check_packet_routes(&mut r, &h)
            }
        }
        Err(_) => r.machinery_error("bad replay file"),
    }
    r
}
