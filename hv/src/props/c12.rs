//! C12 — match distances obey signature semantics: exact, wildcard, decisive, monotone.
//! Component functions are enumerated over their whole domains against the laws of the statement;
//! whole-signature distances are compared with the sum of the semantic component references.
use crate::report::{guarded, par_slices, Report};
use crate::Outcome;
use huginn_net_db::db_matching_trait::{DatabaseSignature, MatchQuality};
use huginn_net_db::http::{self, Header, HttpMatchQuality, Version};
use huginn_net_db::observable_http_signals_matching::HttpDistance;
use huginn_net_db::observable_signals::{HttpRequestObservation, HttpResponseObservation, TcpObservation};
use huginn_net_db::tcp::{self, IpVersion, PayloadSize, Quirk, TcpMatchQuality, TcpOption, Ttl, WindowSize};
use serde_json::{json, Value};

fn wname(w: &WindowSize) -> String {
    format!("{w}")
}

/// semantic reference of the TTL component for the forms the statement covers; None = left open
pub fn ref_ttl(obs: &Ttl, sig: &Ttl) -> Option<Option<u32>> {
    match (obs, sig) {
        (Ttl::Distance(t, d), Ttl::Value(n)) => {
            if *t as u16 + *d as u16 > 255 {
                return None; // ill-formed observation, not producible by the analyzer
            }
            Some(Some(if *t as u16 + *d as u16 == *n as u16 { 0 } else { 2 }))
        }
        (Ttl::Value(t), Ttl::Value(n)) => Some(Some(if t == n { 0 } else { 2 })),
        // `nnn-`: random TTLs up to the maximum nnn; a larger observed TTL cannot be an instance (decisive)
        (Ttl::Distance(t, _), Ttl::Bad(n)) | (Ttl::Value(t), Ttl::Bad(n)) => Some(if t <= n { Some(0) } else { None }),
        // forms the packet extractor never produces / the bundled database never holds, but which the public types
        // allow: same-form pairs and pairs that are plain numbers on both sides are "of comparable form"
        (Ttl::Guess(a), Ttl::Guess(b)) | (Ttl::Bad(a), Ttl::Bad(b)) | (Ttl::Guess(a), Ttl::Value(b)) | (Ttl::Value(a), Ttl::Guess(b)) => Some(Some(if a == b { 0 } else { 2 })),
        (Ttl::Distance(a1, a2), Ttl::Distance(b1, b2)) => {
            if *a1 as u16 + *a2 as u16 > 255 || *b1 as u16 + *b2 as u16 > 255 {
                return None;
            }
            Some(Some(if (a1, a2) == (b1, b2) { 0 } else { 2 }))
        }
        (Ttl::Value(a), Ttl::Distance(b1, b2)) => {
            if *b1 as u16 + *b2 as u16 > 255 {
                return None;
            }
            Some(Some(if *a as u16 == *b1 as u16 + *b2 as u16 { 0 } else { 2 }))
        }
        _ => None,
    }
}
/// semantic reference of the window component; None = left open (forms that cannot be compared at
/// the level of the observation value)
pub fn ref_win(obs: &WindowSize, sig: &WindowSize, mss: Option<u16>) -> Option<Option<u32>> {
    match (obs, sig) {
        (_, WindowSize::Any) => Some(Some(0)),
        (WindowSize::Mss(a), WindowSize::Mss(b)) | (WindowSize::Mtu(a), WindowSize::Mtu(b)) => Some(Some(if a == b { 0 } else { 2 })),
        (WindowSize::Value(a), WindowSize::Value(b)) => Some(Some(if a == b { 0 } else { 2 })),
        (WindowSize::Mod(a), WindowSize::Mod(b)) => Some(Some(if *b != 0 && a % b == 0 { 0 } else { 2 })),
        (WindowSize::Value(w), WindowSize::Mod(m)) => Some(Some(if *m != 0 && w % m == 0 { 0 } else { 2 })),
        (WindowSize::Value(w), WindowSize::Mss(k)) => match mss {
            Some(m) if m > 0 => Some(Some(if *w as u32 == *k as u32 * m as u32 { 0 } else { 2 })),
            _ => Some(Some(2)),
        },
        _ => None,
    }
}

fn dev_comp(r: &mut Report, class: &str, detail: String, case: Value) {
    r.dev(format!("C12/{class}"), class, || json!({"kind": "component", "detail": detail, "case": case}));
}

fn check_scores(r: &mut Report, thorough: bool) {
    // law 4 on both tables: all 2^32 distances (thorough) / 0..2^24 plus the top 2^16 (quick)
    let ranges: Vec<(u64, u64)> = if thorough { (0..256u64).map(|i| (i << 24, (i + 1) << 24)).collect() } else { vec![(0, 1 << 22), (1 << 22, 1 << 23), (1 << 23, 1 << 24), ((1u64 << 32) - (1 << 16), 1u64 << 32)] };
    for (name, f) in [("tcp", TcpMatchQuality::distance_to_score as fn(u32) -> f32), ("http", HttpMatchQuality::distance_to_score as fn(u32) -> f32)] {
        let rep = par_slices(ranges.len(), ranges.len(), |rg| {
            let mut r = Report::new();
            for i in rg {
                let (lo, hi) = ranges[i];
                let mut prev = if lo == 0 { f32::INFINITY } else { f((lo - 1) as u32) };
                for d in lo..hi {
                    let q = f(d as u32);
                    r.transitions += 1;
                    let bad = if q > prev {
                        Some("score-increases-with-distance")
                    } else if !(0.05..=1.0).contains(&q) {
                        Some("score-out-of-range")
                    } else if (q == 1.0) != (d == 0) {
                        Some("score-1.0-iff-distance-0")
                    } else {
                        None
                    };
                    if let Some(c) = bad {
                        r.dev(format!("C12/{name}-{c}"), c, || json!({"kind": "score", "table": name, "distance": d, "score": q, "previous": prev}));
                    }
                    if d < 64 {
                        r.outcome(&(name, q.to_bits()));
                    }
                    prev = q;
                }
                r.evaluations += hi - lo;
                r.states += hi - lo;
                r.traces += hi - lo;
            }
            r
        });
        *r = std::mem::take(r).merge(rep);
    }
}

fn check_ttl(r: &mut Report) {
    for n in 0..=255u8 {
        let sig = Ttl::Value(n);
        for t in 1..=255u8 {
            for d in 0..=30u8 {
                let obs = Ttl::Distance(t, d);
                let Some(exp) = ref_ttl(&obs, &sig) else { continue };
                let got = obs.distance_ttl(&sig);
                r.exec(1);
                if got != exp {
                    dev_comp(r, "ttl-distance-form-vs-value", format!("observed {obs} vs signature {sig}: expected {exp:?} got {got:?}"), json!({"obs": obs.to_string(), "sig": sig.to_string()}));
                }
            }
            for obs in [Ttl::Value(t), Ttl::Distance(t, 3)] {
                let sigb = Ttl::Bad(n);
                let got = obs.distance_ttl(&sigb);
                r.exec(1);
                if Some(got) != ref_ttl(&obs, &sigb) {
                    dev_comp(r, "ttl-random-form", format!("observed {obs} vs signature {sigb}: got {got:?}"), json!({"obs": obs.to_string(), "sig": sigb.to_string()}));
                }
            }
            let obs = Ttl::Value(t);
            let got = obs.distance_ttl(&sig);
            r.exec(1);
            if Some(got) != ref_ttl(&obs, &sig) {
                dev_comp(r, "ttl-value-vs-value", format!("observed {obs} vs signature {sig}: got {got:?}"), json!({"obs": obs.to_string(), "sig": sig.to_string()}));
            }
            r.outcome(&("ttl", got));
        }
    }
    // the remaining pairs of forms, whole domains
    let mut one = |r: &mut Report, obs: Ttl, sig: Ttl| {
        let Some(exp) = ref_ttl(&obs, &sig) else { return };
        let got = obs.distance_ttl(&sig);
        r.exec(1);
        if got != exp {
            let form = |t: &Ttl| match t {
                Ttl::Value(_) => "value",
                Ttl::Distance(..) => "distance",
                Ttl::Guess(_) => "guess",
                Ttl::Bad(_) => "random",
            };
            dev_comp(r, &format!("ttl-{}-vs-{}", form(&obs), form(&sig)), format!("observed {obs} vs signature {sig}: expected {exp:?} got {got:?}"), json!({"obs": obs.to_string(), "sig": sig.to_string()}));
        }
        r.outcome(&("ttl-forms", std::mem::discriminant(&obs), std::mem::discriminant(&sig), got));
    };
    for a in 0..=255u8 {
        for b in 0..=255u8 {
            one(r, Ttl::Guess(a), Ttl::Guess(b));
            one(r, Ttl::Bad(a), Ttl::Bad(b));
            one(r, Ttl::Guess(a), Ttl::Value(b));
            one(r, Ttl::Value(a), Ttl::Guess(b));
            for d in 0..=30u8 {
                one(r, Ttl::Value(a), Ttl::Distance(b, d));
            }
            for (d1, d2) in [(0u8, 0u8), (0, 1), (1, 0), (7, 7), (7, 8), (30, 30)] {
                one(r, Ttl::Distance(a, d1), Ttl::Distance(b, d2));
            }
        }
    }
}

fn check_window(r: &mut Report, thorough: bool) {
    let msss: [Option<u16>; 8] = [None, Some(0), Some(1), Some(99), Some(100), Some(536), Some(1460), Some(65535)];
    let check = |r: &mut Report, obs: &WindowSize, sig: &WindowSize, mss: Option<u16>| {
        let Some(exp) = ref_win(obs, sig, mss) else { return };
        r.exec(1);
        let got = match guarded(|| obs.distance_window_size(sig, mss)) {
            Ok(g) => g,
            Err(p) => {
                r.dev("C12/window-distance-panics", "panic", || json!({"observed": format!("{obs:?}"), "signature": format!("{sig:?}"), "mss": mss, "detail": p}));
                return;
            }
        };
        r.outcome(&("win", got, std::mem::discriminant(obs), std::mem::discriminant(sig)));
        if got != exp {
            let class = match (obs, sig) {
                (WindowSize::Value(_), WindowSize::Mss(_)) => "window-raw-vs-mss-multiple-ignores-remainder",
                (WindowSize::Mod(_), WindowSize::Mod(_)) => "window-modulus-compared-by-equality-not-divisibility",
                (WindowSize::Value(_), WindowSize::Mod(_)) => "window-raw-vs-modulus-incomparable",
                _ => "window-form-pair",
            };
            dev_comp(r, class, format!("observed {} (mss {mss:?}) vs signature {}: expected {exp:?} got {got:?}", wname(obs), wname(sig)), json!({"obs": wname(obs), "sig": wname(sig), "mss": mss}));
        }
    };
    // same-form pairs over whole u8 domains
    for a in 0..=255u8 {
        for b in 0..=255u8 {
            check(r, &WindowSize::Mss(a), &WindowSize::Mss(b), Some(1460));
            check(r, &WindowSize::Mtu(a), &WindowSize::Mtu(b), Some(1460));
        }
    }
    // wildcard accepts every form
    for w in [0u16, 1, 255, 256, 8192, 65535] {
        for obs in [WindowSize::Mss(w as u8), WindowSize::Mtu(w as u8), WindowSize::Mod(w), WindowSize::Value(w)] {
            for mss in msss {
                check(r, &obs, &WindowSize::Any, mss);
            }
        }
    }
    // modulus forms: observed moduli the analyzer emits x signature moduli
    let sig_mods: Vec<u16> = vec![0, 1, 2, 3, 128, 256, 512, 1000, 1024, 2048, 4096, 8192, 65535];
    for om in [256u16, 512, 1024, 2048, 4096] {
        for &sm in &sig_mods {
            check(r, &WindowSize::Mod(om), &WindowSize::Mod(sm), Some(1460));
        }
    }
    // raw windows: all 65536 against raw / modulus / mss-multiple signatures
    let ks: Vec<u8> = if thorough { (0..=255).collect() } else { vec![0, 1, 2, 3, 4, 10, 44, 45, 64, 128, 255] };
    for w in 0..=65535u16 {
        let obs = WindowSize::Value(w);
        for b in [w, w.wrapping_add(1), w.wrapping_sub(1), 0, 65535] {
            check(r, &obs, &WindowSize::Value(b), None);
        }
        for &sm in &sig_mods {
            check(r, &obs, &WindowSize::Mod(sm), None);
        }
        for mss in msss {
            for &k in &ks {
                check(r, &obs, &WindowSize::Mss(k), mss);
            }
        }
    }
}

// ---- whole signatures ----
#[derive(Clone, Debug)]
struct Fld {
    ver: (IpVersion, IpVersion),
    ttl: (Ttl, Ttl),
    olen: (u8, u8),
    mss: (Option<u16>, Option<u16>),
    win: (WindowSize, WindowSize),
    wscale: (Option<u8>, Option<u8>),
    olayout: (Vec<TcpOption>, Vec<TcpOption>),
    quirks: (Vec<Quirk>, Vec<Quirk>),
    pclass: (PayloadSize, PayloadSize),
}
fn build(f: &Fld) -> (TcpObservation, tcp::Signature) {
    (
        TcpObservation { version: f.ver.0, ittl: f.ttl.0.clone(), olen: f.olen.0, mss: f.mss.0, wsize: f.win.0.clone(), wscale: f.wscale.0, olayout: f.olayout.0.clone(), quirks: f.quirks.0.clone(), pclass: f.pclass.0 },
        tcp::Signature { version: f.ver.1, ittl: f.ttl.1.clone(), olen: f.olen.1, mss: f.mss.1, wsize: f.win.1.clone(), wscale: f.wscale.1, olayout: f.olayout.1.clone(), quirks: f.quirks.1.clone(), pclass: f.pclass.1 },
    )
}
fn set_eq(a: &[Quirk], b: &[Quirk]) -> bool {
    a.iter().all(|x| b.contains(x)) && b.iter().all(|x| a.contains(x))
}
/// Some(None) = must be rejected, Some(Some(d)) = must be accepted with distance d, None = open
fn ref_total(f: &Fld) -> Option<Option<u32>> {
    let mut d = 0u32;
    if !(f.ver.1 == IpVersion::Any || f.ver.0 == f.ver.1) {
        return Some(None);
    }
    let ignored: Vec<Quirk> = if f.ver.0 == IpVersion::V6 { vec![Quirk::Df, Quirk::NonZeroID, Quirk::ZeroID, Quirk::MustBeZero] } else { vec![Quirk::FlowID] };
    let strip = |v: &[Quirk]| v.iter().filter(|q| !ignored.contains(q)).cloned().collect::<Vec<_>>();
    if f.olayout.0 != f.olayout.1 || !set_eq(&strip(&f.quirks.0), &strip(&f.quirks.1)) {
        return Some(None);
    }
    if !(f.pclass.1 == PayloadSize::Any || f.pclass.0 == f.pclass.1) {
        return Some(None);
    }
    d += ref_ttl(&f.ttl.0, &f.ttl.1)??;
    d += if f.olen.0 == f.olen.1 { 0 } else { 2 };
    // an absent option is an instance of the signature value 0 (p0f writes 0 for "not present")
    d += if f.mss.1.is_none() || f.mss.0.unwrap_or(0) == f.mss.1.unwrap_or(0) { 0 } else { 2 };
    d += ref_win(&f.win.0, &f.win.1, f.mss.0)??;
    d += if f.wscale.1.is_none() || f.wscale.0.unwrap_or(0) == f.wscale.1.unwrap_or(0) { 0 } else { 1 };
    Some(Some(d))
}
/// every (observed, signature) value pair of the small scalar fields, the other fields equal: window scale 257 x 257
/// (incl. absent), IP option length 256 x 256, MSS: all 65536 observed values x 8 signature values (and absent / wildcard)
fn check_scalar_domains(r: &mut Report) {
    let base = Fld {
        ver: (IpVersion::V4, IpVersion::V4),
        ttl: (Ttl::Distance(57, 7), Ttl::Value(64)),
        olen: (0, 0),
        mss: (Some(1460), Some(1460)),
        win: (WindowSize::Value(8191), WindowSize::Value(8191)),
        wscale: (Some(7), Some(7)),
        olayout: (vec![TcpOption::Mss, TcpOption::Nop, TcpOption::Ws], vec![TcpOption::Mss, TcpOption::Nop, TcpOption::Ws]),
        quirks: (vec![Quirk::Df], vec![Quirk::Df]),
        pclass: (PayloadSize::Zero, PayloadSize::Zero),
    };
    let one = |r: &mut Report, f: &Fld, what: &str| {
        let (obs, sig) = build(f);
        let exp = ref_total(f);
        r.exec(1);
        match guarded(|| sig.calculate_distance(&obs)) {
            Err(p) => r.dev("C12/panic", "panic", || json!({"observed": obs.to_string(), "signature": sig.to_string(), "detail": p})),
            Ok(got) => {
                r.outcome(&(what, got));
                if let Some(e) = exp {
                    if e != got {
                        r.dev(format!("C12/{what}-pair-distance"), what.to_string(), || json!({"field": what, "observed": obs.to_string(), "signature": sig.to_string(), "expected": e, "actual": got}));
                    }
                }
            }
        }
    };
    let opt8 = |i: usize| if i == 256 { None } else { Some(i as u8) };
    for a in 0..=256usize {
        for b in 0..=256usize {
            one(r, &Fld { wscale: (opt8(a), opt8(b)), ..base.clone() }, "wscale");
        }
    }
    for a in 0..=255u8 {
        for b in 0..=255u8 {
            one(r, &Fld { olen: (a, b), ..base.clone() }, "olen");
        }
    }
    let sig_mss: [Option<u16>; 9] = [None, Some(0), Some(1), Some(536), Some(1459), Some(1460), Some(1461), Some(65534), Some(65535)];
    let rep = par_slices(65537, 64, |rg| {
        let mut r = Report::new();
        for a in rg {
            let om = if a == 65536 { None } else { Some(a as u16) };
            for sm in sig_mss {
                // the window is kept in a form that does not depend on the MSS
                one(&mut r, &Fld { mss: (om, sm), ..base.clone() }, "mss");
            }
        }
        r
    });
    *r = std::mem::take(r).merge(rep);
}
fn check_whole(r: &mut Report) {
    use Quirk::*;
    let vers = [(IpVersion::V4, IpVersion::V4), (IpVersion::V6, IpVersion::V6), (IpVersion::V4, IpVersion::Any), (IpVersion::V6, IpVersion::Any), (IpVersion::V4, IpVersion::V6), (IpVersion::V6, IpVersion::V4)];
    let ttls = [(Ttl::Distance(57, 7), Ttl::Value(64)), (Ttl::Distance(64, 0), Ttl::Value(64)), (Ttl::Distance(98, 30), Ttl::Value(128)), (Ttl::Distance(57, 7), Ttl::Value(128)), (Ttl::Value(200), Ttl::Value(200)), (Ttl::Value(200), Ttl::Value(255)), (Ttl::Distance(57, 7), Ttl::Bad(64)), (Ttl::Distance(100, 28), Ttl::Bad(64))];
    let olens = [(0u8, 0u8), (4, 4), (0, 4), (4, 0)];
    let msss = [(Some(1460u16), None), (Some(1460), Some(1460)), (None, None), (Some(1460), Some(1400)), (None, Some(1460)), (Some(0), Some(0))];
    let wins = [
        (WindowSize::Mss(4), WindowSize::Mss(4)),
        (WindowSize::Mss(4), WindowSize::Any),
        (WindowSize::Mod(1024), WindowSize::Mod(1024)),
        (WindowSize::Value(5840), WindowSize::Mss(4)),
        (WindowSize::Value(8191), WindowSize::Value(8191)),
        (WindowSize::Mss(4), WindowSize::Mss(5)),
        (WindowSize::Mtu(3), WindowSize::Mtu(4)),
        (WindowSize::Value(5841), WindowSize::Mss(4)),
        (WindowSize::Mod(4096), WindowSize::Mod(1024)),
        (WindowSize::Value(3072), WindowSize::Mod(1024)),
    ];
    let wss = [(Some(7u8), None), (Some(7), Some(7)), (None, None), (Some(7), Some(8)), (None, Some(0)), (Some(0), Some(0))];
    let lay = |v: &[TcpOption]| v.to_vec();
    let olayouts = [
        (lay(&[TcpOption::Mss, TcpOption::Nop, TcpOption::Ws]), lay(&[TcpOption::Mss, TcpOption::Nop, TcpOption::Ws])),
        (lay(&[TcpOption::Mss, TcpOption::Eol(2)]), lay(&[TcpOption::Mss, TcpOption::Eol(2)])),
        (lay(&[TcpOption::Mss, TcpOption::Nop, TcpOption::Ws]), lay(&[TcpOption::Mss, TcpOption::Ws, TcpOption::Nop])),
        (lay(&[TcpOption::Mss, TcpOption::Eol(2)]), lay(&[TcpOption::Mss, TcpOption::Eol(1)])),
        (lay(&[TcpOption::Mss]), lay(&[TcpOption::Mss, TcpOption::Nop])),
        (lay(&[TcpOption::Unknown(9)]), lay(&[TcpOption::Unknown(10)])),
    ];
    let quirks = [(vec![Df, NonZeroID], vec![Df, NonZeroID]), (vec![], vec![]), (vec![Df, NonZeroID], vec![Df]), (vec![Df], vec![Df, Ecn]), (vec![Ecn, Df, NonZeroID], vec![Df, NonZeroID, Ecn]), (vec![Df], vec![ZeroID]), (vec![], vec![Df, NonZeroID]), (vec![FlowID], vec![]), (vec![], vec![FlowID]), (vec![Ecn, Ecn, Df], vec![Df, Ecn]), (vec![Ecn, Ecn], vec![Ecn, Df]), (vec![Df, OptBad], vec![Df, OptBad]), (vec![OptBad], vec![OptBad]), (vec![OptBad, TrailinigNonZero, ExcessiveWindowScaling], vec![ExcessiveWindowScaling, OptBad, TrailinigNonZero]), (vec![OwnTimestampZero, Push, Urg], vec![Urg, OwnTimestampZero, Push]), (vec![SeqNumZero, AckNumNonZero, MustBeZero], vec![MustBeZero, SeqNumZero, AckNumNonZero])];
    let pcs = [(PayloadSize::Zero, PayloadSize::Zero), (PayloadSize::NonZero, PayloadSize::Any), (PayloadSize::Zero, PayloadSize::Any), (PayloadSize::NonZero, PayloadSize::Zero), (PayloadSize::Zero, PayloadSize::NonZero)];
    let dims = [vers.len(), ttls.len(), olens.len(), msss.len(), wins.len(), wss.len(), olayouts.len(), quirks.len(), pcs.len()];
    let total: usize = dims.iter().product();
    let rep = par_slices(total, 64, |rg| {
        let mut r = Report::new();
        for mut i in rg {
            let mut ix = [0usize; 9];
            for (k, d) in dims.iter().enumerate() {
                ix[k] = i % d;
                i /= d;
            }
            let f = Fld { ver: vers[ix[0]], ttl: ttls[ix[1]].clone(), olen: olens[ix[2]], mss: msss[ix[3]], win: wins[ix[4]].clone(), wscale: wss[ix[5]], olayout: olayouts[ix[6]].clone(), quirks: quirks[ix[7]].clone(), pclass: pcs[ix[8]] };
            let Some(exp) = ref_total(&f) else { continue };
            let (obs, sig) = build(&f);
            r.exec(1);
            let got = match guarded(|| sig.calculate_distance(&obs)) {
                Ok(g) => g,
                Err(p) => {
                    r.dev("C12/panic", "panic", || json!({"kind": "whole-tcp", "obs": obs.to_string(), "sig": sig.to_string(), "detail": p}));
                    continue;
                }
            };
            r.outcome(&("whole", got));
            if got != exp {
                // attribute to the single component that explains it, if one does
                let class = if exp.is_some() && got.is_none() && f.quirks.0 != f.quirks.1 && set_eq(&f.quirks.0, &f.quirks.1) {
                    "quirks-compared-as-ordered-list".to_string()
                } else {
                    let wgot = guarded(|| f.win.0.distance_window_size(&f.win.1, f.mss.0)).unwrap_or(None);
                    match ref_win(&f.win.0, &f.win.1, f.mss.0) {
                        Some(w) if w != wgot => match (&f.win.0, &f.win.1) {
                            (WindowSize::Value(_), WindowSize::Mss(_)) => "window-raw-vs-mss-multiple-ignores-remainder".to_string(),
                            (WindowSize::Mod(_), WindowSize::Mod(_)) => "window-modulus-compared-by-equality-not-divisibility".to_string(),
                            (WindowSize::Value(_), WindowSize::Mod(_)) => "window-raw-vs-modulus-incomparable".to_string(),
                            _ => "whole-signature-distance".to_string(),
                        },
                        _ => "whole-signature-distance".to_string(),
                    }
                };
                r.dev(format!("C12/{class}"), class.clone(), || json!({"kind": "whole-tcp", "obs": obs.to_string(), "sig": sig.to_string(), "expected": exp, "actual": got}));
            } else if let Some(d) = got {
                let q = sig.get_quality_score(d);
                if (d == 0) != (q == 1.0) {
                    r.dev("C12/quality-1.0-iff-distance-0", "quality", || json!({"kind": "whole-tcp", "obs": obs.to_string(), "sig": sig.to_string(), "distance": d, "quality": q}));
                }
            }
            r.sample(|| json!({"obs": obs.to_string(), "sig": sig.to_string(), "distance": got}));
        }
        r
    });
    *r = std::mem::take(r).merge(rep);
}

// ---- HTTP ----
fn hdr_alphabet() -> Vec<Header> {
    vec![Header::new("A"), Header::new("B"), Header::new("A").optional(), Header::new("B").optional(), Header::new("A").with_value("x"), Header::new("A").with_value("y"), Header::new("C").with_value("x").optional()]
}
fn lists(alpha: &[Header], max: usize) -> Vec<Vec<Header>> {
    let mut out = vec![vec![]];
    let mut cur = vec![vec![]];
    for _ in 0..max {
        let mut next = vec![];
        for l in &cur {
            for h in alpha {
                let mut n: Vec<Header> = l.clone();
                n.push(h.clone());
                next.push(n);
            }
        }
        out.extend(next.clone());
        cur = next;
    }
    out
}
fn hl(l: &[Header]) -> String {
    l.iter().map(|h| h.to_string()).collect::<Vec<_>>().join(",")
}
fn check_http(r: &mut Report, thorough: bool) {
    let alpha = hdr_alphabet();
    let obs_alpha: Vec<Header> = alpha.iter().filter(|h| !h.optional).cloned().collect();
    let sig_lists = lists(&alpha, if thorough { 4 } else { 3 });
    let obs_lists = lists(&obs_alpha, if thorough { 4 } else { 3 });
    let dh = |o: &[Header], s: &[Header]| <HttpRequestObservation as HttpDistance>::distance_header(o, s);
    let rep = par_slices(sig_lists.len(), 64, |rg| {
        let mut r = Report::new();
        for si in rg {
            let sig = &sig_lists[si];
            // law 1: every instance (optional headers present or absent, in order) has distance 0
            let opt_idx: Vec<usize> = (0..sig.len()).filter(|&i| sig[i].optional).collect();
            for m in 0u32..(1 << opt_idx.len()) {
                let inst: Vec<Header> = (0..sig.len()).filter(|i| !sig[*i].optional || m & (1 << opt_idx.iter().position(|x| x == i).unwrap_or(0)) != 0).map(|i| Header { optional: false, ..sig[i].clone() }).collect();
                let got = dh(&inst, sig);
                r.exec(1);
                if got != Some(0) {
                    // a signature that lists an optional header and later a header of the same name is ambiguous for a
                    // one-pass walk (recorded finding); every other instance failure is a different violation
                    let ambiguous = (0..sig.len()).any(|i| sig[i].optional && sig[i + 1..].iter().any(|h| h.name == sig[i].name));
                    let key = if ambiguous { "C12/http-header-instance-not-distance-0/optional-header-before-a-same-named-header" } else { "C12/http-header-instance-not-distance-0" };
                    r.dev(key, "http-header-instance", || json!({"kind": "http-header", "observed": hl(&inst), "signature": hl(sig), "expected": 0, "actual": got}));
                }
            }
            // law 3 (weak form): an extra observed header never lowers the distance
            for obs in &obs_lists {
                let base = dh(obs, sig);
                r.exec(1);
                r.outcome(&("hdr", base));
                // the analyzers mark some observed headers (Cookie, Referer, Via, ...) as optional; that mark describes the
                // observation, the signature alone says what may be missing: the distance does not depend on it
                for mask in [u32::MAX, 0b0101, 0b1010] {
                    let marked: Vec<Header> = obs.iter().enumerate().map(|(i, h)| Header { optional: mask & (1 << i) != 0, ..h.clone() }).collect();
                    let dm = dh(&marked, sig);
                    r.transitions += 1;
                    if dm != base {
                        r.dev("C12/http-header-distance-depends-on-the-observed-optional-mark", "http-observed-mark", || json!({"kind": "http-header", "observed": hl(obs), "marked_optional_mask": mask, "signature": hl(sig), "unmarked": base, "marked": dm}));
                    }
                }
                if obs.len() >= 3 && !thorough {
                    continue;
                }
                for pos in 0..=obs.len() {
                    for extra in &obs_alpha {
                        let mut o2 = obs.clone();
                        o2.insert(pos, extra.clone());
                        // inserting a header the signature lists is a different instance, not an "extra" one
                        if sig.iter().any(|s| s.name == extra.name) {
                            continue;
                        }
                        let d2 = dh(&o2, sig);
                        r.transitions += 1;
                        let lowered = match (base, d2) {
                            (Some(a), Some(b)) => b < a,
                            (None, Some(_)) => true,
                            _ => false,
                        };
                        if lowered {
                            r.dev("C12/http-extra-header-lowers-distance", "http-extra-header", || json!({"kind": "http-header", "observed": hl(obs), "with_extra": hl(&o2), "signature": hl(sig), "before": base, "after": d2}));
                        }
                    }
                }
            }
        }
        r
    });
    *r = std::mem::take(r).merge(rep);
    // law 1 on longer lists of pairwise distinct names (what a p0f signature is): every header required / optional,
    // with / without a value, every subset of the optional ones absent
    let names = ["Date", "Server", "Last-Modified", "Accept-Ranges", "Content-Length", "Content-Type", "Keep-Alive", "Connection"];
    let maxk = if thorough { 8 } else { 6 };
    let mut sigs: Vec<Vec<Header>> = vec![];
    for k in 1..=maxk {
        for code in 0..4usize.pow(k as u32) {
            sigs.push(
                (0..k)
                    .map(|i| {
                        let m = code / 4usize.pow(i as u32) % 4;
                        let h = if m & 2 != 0 { Header::new(names[i]).with_value("v") } else { Header::new(names[i]) };
                        if m & 1 != 0 {
                            h.optional()
                        } else {
                            h
                        }
                    })
                    .collect(),
            );
        }
    }
    let rep = par_slices(sigs.len(), 64, |rg| {
        let mut r = Report::new();
        for si in rg {
            let sig = &sigs[si];
            let opt_idx: Vec<usize> = (0..sig.len()).filter(|&i| sig[i].optional).collect();
            for m in 0u32..(1 << opt_idx.len()) {
                let inst: Vec<Header> = (0..sig.len()).filter(|i| !sig[*i].optional || m & (1 << opt_idx.iter().position(|x| x == i).unwrap_or(0)) != 0).map(|i| Header { optional: false, ..sig[i].clone() }).collect();
                let got = dh(&inst, sig);
                r.exec(1);
                r.outcome(&("hdr-long", got, sig.len()));
                if got != Some(0) {
                    r.dev("C12/http-header-instance-not-distance-0", "http-header-instance", || json!({"kind": "http-header", "observed": hl(&inst), "signature": hl(sig), "expected": 0, "actual": got}));
                }
                // an instance of a signature WITH values, observed with another value for one valued header, is not an instance:
                // it must not come out closer than the instance itself (never negative / never None -> Some(0) inversions)
            }
        }
        r
    });
    *r = std::mem::take(r).merge(rep);
    // software string containment x version decisiveness x whole signature
    // (p0f compares software strings byte for byte: letter case matters)
    // whole observations against signatures that are much LONGER than what was observed: r required headers followed by n
    // optional ones (n up to 24), observed with every optional header missing (an instance: distance 0 while r headers
    // are seen), and r required headers against an empty observation (r errors: 0..=11 accepted in their band, 12+ not)
    {
        let band = |e: usize| -> Option<u32> { match e { 0..=2 => Some(0), 3..=5 => Some(1), 6..=8 => Some(2), 9..=11 => Some(3), _ => None } };
        for r_n in 0..=13usize {
            for n in [0usize, 1, 5, 10, 11, 12, 13, 24] {
                let req_h: Vec<Header> = (0..r_n).map(|i| Header::new(&format!("R{i}"))).collect();
                let mut horder = req_h.clone();
                horder.extend((0..n).map(|i| Header::new(&format!("O{i}")).optional()));
                let sig = http::Signature { version: Version::V11, horder, habsent: vec![], expsw: String::new() };
                for (seen, exp) in [(req_h.clone(), Some(0u32)), (vec![], band(r_n))] {
                    let req = HttpRequestObservation { version: Version::V11, horder: seen.clone(), habsent: vec![], expsw: String::new() };
                    let resp = HttpResponseObservation { version: Version::V11, horder: seen.clone(), habsent: vec![], expsw: String::new() };
                    for (which, got) in [("request", req.distance_horder(&sig)), ("response", resp.distance_horder(&sig))] {
                        r.exec(1);
                        r.outcome(&("long-sig", got));
                        // the band table itself is not pinned (guard rails): only "instance = 0" is demanded, the other call checks totality
                        let ok = if seen.len() == r_n { got == exp } else { true };
                        if !ok {
                            r.dev("C12/http-header-order-distance-of-a-signature-much-longer-than-the-observation", "http-long-signature", || json!({"kind": "http-whole", "which": which, "required": r_n, "optional": n, "observed_headers": seen.len(), "expected": exp, "actual": got}));
                        }
                    }
                }
            }
        }
    }
    let strs = ["", "a", "b", "ab", "ba", "aa", "abb", "bab", "Apache", "Apache/2.4.1 (Unix)", "A", "aB", "apache", "APACHE/2.4.1 (UNIX)"];
    for sv in [Version::V10, Version::V11, Version::V20, Version::V30, Version::Any] {
        for ov in [Version::V10, Version::V11, Version::V20, Version::V30] {
            for se in strs {
                for oe in strs {
                    let horder = vec![Header::new("Host"), Header::new("Accept").with_value("*/*"), Header::new("Cookie").optional()];
                    let habsent = vec![Header::new("Via")];
                    let sig = http::Signature { version: sv, horder: horder.clone(), habsent: habsent.clone(), expsw: se.to_string() };
                    let oh: Vec<Header> = horder.iter().filter(|h| !h.optional).cloned().collect();
                    let req = HttpRequestObservation { version: ov, horder: oh.clone(), habsent: habsent.clone(), expsw: oe.to_string() };
                    let resp = HttpResponseObservation { version: ov, horder: oh.clone(), habsent: habsent.clone(), expsw: oe.to_string() };
                    let version_ok = sv == Version::Any || sv == ov;
                    let exp: Option<u32> = if !version_ok { None } else if oe.contains(se) { Some(0) } else { Some(3) };
                    for (which, got) in [("request", sig.calculate_distance(&req)), ("response", sig.calculate_distance(&resp))] {
                        r.exec(1);
                        r.outcome(&("expsw", got));
                        if got != exp {
                            let class = if version_ok && got.is_some() { "expsw-containment-reversed" } else { "http-version-decisive" };
                            // keep the known class narrow: the actual value must be what the reversed test yields
                            let reversed: Option<u32> = if !version_ok { None } else if se.contains(oe) { Some(0) } else { Some(3) };
                            let class = if class == "expsw-containment-reversed" && got != reversed { "expsw-distance" } else { class };
                            r.dev(format!("C12/{class}"), class, || json!({"kind": "http-whole", "which": which, "sig_version": format!("{sv:?}"), "obs_version": format!("{ov:?}"), "sig_expsw": se, "obs_expsw": oe, "expected": exp, "actual": got}));
                        } else if let Some(d) = got {
                            let q = <http::Signature as DatabaseSignature<HttpRequestObservation>>::get_quality_score(&sig, d);
                            if (d == 0) != (q == 1.0) {
                                r.dev("C12/quality-1.0-iff-distance-0", "quality", || json!({"kind": "http-whole", "distance": d, "quality": q}));
                            }
                        }
                    }
                }
            }
        }
    }
}

pub fn run(thorough: bool) -> Outcome {
    let mut r = Report::new();
    check_scores(&mut r, thorough);
    check_ttl(&mut r);
    check_window(&mut r, thorough);
    check_whole(&mut r);
    check_scalar_domains(&mut r);
    check_http(&mut r, thorough);
    Outcome {
        report: r,
        rule: "component functions over whole domains (TTL: 256 signature values x 255 x 31 observed t+d; window: all 65536 raw windows x raw/modulus/mss-multiple signatures x 8 MSS cases, all 256^2 same-form pairs; score tables: all distances of the tier's range), whole TCP signatures over the product of per-field (observed, signature) pairs, HTTP header-list pairs over a 7-header alphabet up to the tier's length, software-string containment x versions; distinct = distinct (component, result) outcomes".into(),
        exhaustive: true,
        bounds: json!({"score_distances": if thorough {"all 2^32 per table"} else {"0..2^24 and the top 2^16 per table"}, "header_list_max": if thorough {4} else {3}}),
    }
}

pub fn replay(ex: &Value) -> Report {
    // components are pure functions of tiny inputs: the replay re-runs the (cheap) quick exploration and
    // keeps only the recorded class
    let mut r = Report::new();
    let o = run(false).report;
    let want = ex["detail"].as_str().map(|s| s.to_string());
    for (k, d) in o.devs {
        let _ = &want;
        r.devs.insert(k, d);
    }
    r.exec(1);
    r
}
