//! C01 — analysis is total: no input can crash, hang or poison an analyzer.
//!
//! Input universes (each enumerated completely, simplest first):
//!   frames   (a) the TCP option space (kind, length byte, position, fill, tight/full data offset) on SYN, SYN+ACK
//!                and data segments, IPv4 and IPv6; (b) ordered pairs of options with declared lengths 0..=12;
//!            (c) every truncation, single-bit flip, header-byte rewrite and payload-byte rewrite of every frame of
//!                a connection alphabet (handshakes, ClientHello in 1-3 segments, HTTP/1 and HTTP/2 exchanges incl.
//!                adversarial HPACK blocks), each mutated frame IN the context of its connection; (d) the same for
//!                the four captures in /repo/pcap (window of neighbouring frames as context); (e) IP header grids
//!                (IHL x total length x protocol x fragment bits; IPv6 next header x payload length); (f) link-layer
//!                grids (all 65536 EtherTypes, all 256 loopback families).
//!   streams  all byte strings up to length 2 (3 in thorough), TLS record header grids with bodies of len-1/len/len+1
//!            bytes, HTTP/2 frame header grids followed by a valid HEADERS frame, HPACK blocks (all 1- and 2-byte
//!            blocks, integer continuations, Huffman strings), every truncation / bit flip / byte rewrite of valid
//!            records, frame sequences and HTTP/1 heads.
//!   text     every line of the bundled database inside a minimal database, with every single-character deletion,
//!            insertion of a grammar character and numeric field replaced by 256 / 65536 / 99999999999999999999.
//!
//! Oracle: every call returns (no panic with overflow checks on; a watchdog turns a call that does not return into
//! a violation), and after EVERY input a probe (TCP handshake, ClientHello in two segments, HTTP/1 exchange,
//! HTTP/2 exchange using the HPACK dynamic table; fresh endpoints) on the SAME long-lived instance yields exactly
//! what a fresh instance yields. Instances live for a whole slice of the universe, so the probe after input i also
//! checks the history x_0 .. x_i; a mismatch is minimised to the shortest suffix of the history that reproduces it
//! on a fresh instance. Every slice is additionally pushed through a real one-worker pool of each kind, followed
//! by the probe: its results must arrive (worker still alive).
use crate::drv::{http_res, req_obs, resp_obs, set_clock, tcp_res, tls_out, uni_res, HttpRes, HttpSeq, TcpRes, TcpSeq, TlsRes, TlsSeq, UniRes};
use crate::gen::h2::{self, Framing, HpackEnc, Rep};
use crate::gen::pkt::{self, Link, Spec, ACK, PSH, SYN};
use crate::props::c07::{self, Ends};
use crate::props::c14::{cfg_http, cfg_tcp, cfg_tls, Cfg, AF, PF};
use crate::report::{guarded, hex, par_slices, unhex, Report};
use crate::Outcome;
use serde_json::{json, Value};
use std::str::FromStr;
use std::sync::atomic::{AtomicU64, Ordering};
use std::sync::{Arc, OnceLock};
use std::time::Instant;

const T0: u64 = 1_700_000_000_000;
/// a single call that takes longer than this is reported (ms)
const SLOW_CALL_MS: u128 = 2_000;
/// an input whose processing does not finish within this time is reported as a hang (ms)
const HANG_MS: u64 = 60_000;

// ------------------------------------------------------------------------------------------------ watchdog
static SLOTS: [AtomicU64; 64 * 3] = [const { AtomicU64::new(0) }; 64 * 3];
static START: OnceLock<Instant> = OnceLock::new();
fn now_ms() -> u64 {
    START.get_or_init(Instant::now).elapsed().as_millis() as u64 + 1
}
fn slot() -> usize {
    rayon::current_thread_index().unwrap_or(63) % 64
}
fn slot_set(fam: u64, idx: u64) {
    let s = slot() * 3;
    SLOTS[s + 1].store(fam, Ordering::Relaxed);
    SLOTS[s + 2].store(idx, Ordering::Relaxed);
    SLOTS[s].store(now_ms(), Ordering::Release);
}
fn slot_clear() {
    SLOTS[slot() * 3].store(0, Ordering::Release);
}
fn start_watchdog(names: Vec<String>, tier: String) {
    std::thread::spawn(move || loop {
        std::thread::sleep(std::time::Duration::from_millis(500));
        let now = now_ms();
        for t in 0..64 {
            let st = SLOTS[t * 3].load(Ordering::Acquire);
            if st != 0 && now.saturating_sub(st) > HANG_MS {
                let fam = SLOTS[t * 3 + 1].load(Ordering::Relaxed) as usize;
                let idx = SLOTS[t * 3 + 2].load(Ordering::Relaxed);
                let mut r = Report::new();
                let name = names.get(fam).cloned().unwrap_or_default();
                r.dev(format!("C01/hang/{name}"), "hang", || json!({"family": name, "index": idx, "detail": format!("input still being processed after {HANG_MS} ms")}));
                let j = r.to_json("C01", &tier, "aborted by the watchdog", false, Value::Null, 0.0);
                if let Some(p) = crate::OUT_PATH.get() {
                    let _ = std::fs::write(p, serde_json::to_string_pretty(&j).unwrap_or_default());
                }
                std::process::exit(1);
            }
        }
    });
}

// ------------------------------------------------------------------------------------------------ session + probe
pub struct Session<'a> {
    tcp: TcpSeq<'a>,
    http: HttpSeq<'a>,
    tls: TlsSeq,
    uni: huginn_net::HuginnNet<'a>,
    probes: u32,
}
pub const ANALYZERS: [&str; 4] = ["tcp", "http", "tls", "unified"];
/// non-empty probe results per analyzer, endpoints normalised
#[derive(Default, PartialEq, Debug, Clone)]
pub struct Outs {
    tcp: Vec<TcpRes>,
    http: Vec<HttpRes>,
    tls: Vec<TlsRes>,
    uni: Vec<UniRes>,
}
impl Outs {
    fn lens(&self) -> [usize; 4] {
        [self.tcp.len(), self.http.len(), self.tls.len(), self.uni.len()]
    }
}
type Panics = Vec<(&'static str, String)>;

impl<'a> Session<'a> {
    pub fn new() -> Self {
        let d = crate::drv::db();
        set_clock(T0);
        Session { tcp: TcpSeq::new(Some(d), 256), http: HttpSeq::new(Some(d), 256), tls: TlsSeq::new(256), uni: huginn_net::HuginnNet::new(Some(d), 256, None).expect("analyzer"), probes: 0 }
    }
    /// one frame through the four analyzers; panics are returned
    pub fn feed(&mut self, f: &[u8], slow: &mut u128) -> Panics {
        let mut ps = vec![];
        let t = Instant::now();
        if let Err(p) = guarded(|| self.tcp.feed(f).is_empty()) {
            ps.push(("tcp", p));
        }
        if let Err(p) = guarded(|| self.http.feed(f).is_empty()) {
            ps.push(("http", p));
        }
        if let Err(p) = guarded(|| self.tls.feed(f).is_empty()) {
            ps.push(("tls", p));
        }
        if let Err(p) = guarded(|| self.uni.analyze_tcp(f).tcp_syn.is_some()) {
            ps.push(("unified", p));
        }
        *slow = (*slow).max(t.elapsed().as_millis());
        ps
    }
    /// the probe on fresh endpoints: each protocol analyzer sees its connection(s), the unified analyzer all four
    pub fn probe(&mut self, slow: &mut u128) -> Result<Outs, Panics> {
        let n = self.probes;
        self.probes += 1;
        let (cip, cport) = probe_endpoint(n);
        let nd = Needles::new(cip, cport);
        let t = Instant::now();
        let r = guarded(|| {
            let mut o = Outs::default();
            for (tf, conn) in probe_template() {
                let f = patch(tf, *conn, cip, cport);
                match conn {
                    0 => {
                        let mut x = self.tcp.feed(&f);
                        if !x.is_empty() {
                            nd.tcp(&mut x);
                            o.tcp.push(x);
                        }
                    }
                    1 => {
                        let mut x = self.tls.feed(&f);
                        if !x.is_empty() {
                            nd.tls(&mut x);
                            o.tls.push(x);
                        }
                    }
                    _ => {
                        let mut x = self.http.feed(&f);
                        if !x.is_empty() {
                            nd.http(&mut x);
                            o.http.push(x);
                        }
                    }
                }
                let mut x = uni_res(&self.uni.analyze_tcp(&f));
                if !(x.tcp.is_empty() && x.http.is_empty() && x.tls.is_empty()) {
                    nd.tcp(&mut x.tcp);
                    nd.http(&mut x.http);
                    nd.tls(&mut x.tls);
                    o.uni.push(x);
                }
            }
            o
        });
        *slow = (*slow).max(t.elapsed().as_millis() / 17);
        r.map_err(|p| vec![("probe", p)])
    }
}
fn probe_endpoint(n: u32) -> (u8, u16) {
    (200 + (n / 8192 % 50) as u8, 20000 + (n % 8192) as u16 * 4)
}
struct Needles {
    ip4: String,
    ip6: String,
    ports: [String; 4],
}
impl Needles {
    fn new(cip: u8, cport: u16) -> Self {
        Needles { ip4: format!("10.0.0.{cip}:"), ip6: format!("2001::{cip:x}"), ports: [0u16, 1, 2, 3].map(|k| format!(":{}", cport + k)) }
    }
    fn fix(&self, s: &mut String) {
        if s.is_empty() {
            return;
        }
        let mut t = s.replace(&self.ip4, "C:").replace(&self.ip6, "C6");
        for (k, p) in self.ports.iter().enumerate() {
            if t.ends_with(p.as_str()) {
                t.truncate(t.len() - p.len());
                t.push_str([":P0", ":P1", ":P2", ":P3"][k]);
                break;
            }
        }
        *s = t;
    }
    fn opt(&self, s: &mut Option<String>) {
        if let Some(s) = s {
            self.fix(s);
        }
    }
    fn tcp(&self, x: &mut TcpRes) {
        self.opt(&mut x.src);
        self.opt(&mut x.dst);
        for u in [&mut x.client_uptime, &mut x.server_uptime].into_iter().flatten() {
            self.fix(&mut u.src);
            self.fix(&mut u.dst);
        }
    }
    fn http(&self, x: &mut HttpRes) {
        if let Some(q) = &mut x.request {
            self.fix(&mut q.src);
            self.fix(&mut q.dst);
        }
        if let Some(q) = &mut x.response {
            self.fix(&mut q.src);
            self.fix(&mut q.dst);
        }
    }
    fn tls(&self, x: &mut TlsRes) {
        self.opt(&mut x.src);
        self.opt(&mut x.dst);
    }
}
/// four valid connections on endpoints no input of any family uses: (frame, connection index)
pub fn probe_frames(cip: u8, cport: u16) -> Vec<(Vec<u8>, u8)> {
    let mut v = vec![];
    let e = Ends { cip, cport, sip: 250, sport: 80, v6: false };
    v.push((c07::seg(&e, true, SYN, 1000, &[], Some(500_000)), 0));
    v.push((c07::seg(&e, false, SYN | ACK, 5000, &[], Some(9_000_000)), 0));
    let e = Ends { cip, cport: cport + 1, sip: 251, sport: 443, v6: true };
    let b = c07::hello_bytes("probe.example");
    v.push((c07::seg(&e, true, SYN, 1000, &[], None), 1));
    v.push((c07::seg(&e, true, ACK | PSH, 1001, &b[..40], None), 1));
    v.push((c07::seg(&e, true, ACK | PSH, 1041, &b[40..], None), 1));
    let req = b"GET /a HTTP/1.1\r\nHost: one.example\r\nUser-Agent: Mozilla/5.0 (X11) Firefox/99\r\nAccept: */*\r\nAccept-Language: en-US,en;q=0.5\r\nCookie: sid=abc\r\n\r\n";
    let resp = b"HTTP/1.1 200 OK\r\nServer: nginx/1.2.3\r\nContent-Type: text/html\r\nContent-Length: 2\r\n\r\nhi";
    v.extend(c07::http_conn("p1", &Ends { cip, cport: cport + 2, sip: 252, sport: 80, v6: false }, req, &[30], resp, &[20], T0).pkts.into_iter().map(|p| (p.0, 2)));
    let (q, a) = h2_probe();
    v.extend(c07::http_conn("p2", &Ends { cip, cport: cport + 3, sip: 253, sport: 443, v6: false }, &q, &[20], &a, &[], T0).pkts.into_iter().map(|p| (p.0, 3)));
    v
}
const TEMPLATE_IP: u8 = 200;
fn probe_template() -> &'static Vec<(Vec<u8>, u8)> {
    static T: OnceLock<Vec<(Vec<u8>, u8)>> = OnceLock::new();
    T.get_or_init(|| probe_frames(TEMPLATE_IP, 20000))
}
/// the template frame with the client endpoint replaced (the builder writes no checksums)
fn patch(f: &[u8], conn: u8, cip: u8, cport: u16) -> Vec<u8> {
    let mut f = f.to_vec();
    let port = (cport + conn as u16).to_be_bytes();
    let (src, dst, tcp) = if f[0] >> 4 == 4 { (15, 19, 20) } else { (23, 39, 40) };
    if f[src] == TEMPLATE_IP {
        f[src] = cip;
        f[tcp..tcp + 2].copy_from_slice(&port);
    } else {
        f[dst] = cip;
        f[tcp + 2..tcp + 4].copy_from_slice(&port);
    }
    f
}
/// HTTP/2 request / response whose header blocks insert into and then reference the HPACK dynamic table
fn h2_probe() -> (Vec<u8>, Vec<u8>) {
    let q = c07::h2_request(&[("x-secret", "tok-12345", Rep::LitIdxNewName), ("user-agent", "probe-agent", Rep::LitIdxIndexedName), ("x-secret", "tok-12345", Rep::Indexed)], &[], &[]);
    let a = c07::h2_response(&[("set-cookie", "session=deadbeef", Rep::LitIdxIndexedName), ("server", "h2o", Rep::LitNoIdx)], &[]);
    (q, a)
}
pub fn expected() -> &'static Outs {
    static E: OnceLock<Outs> = OnceLock::new();
    E.get_or_init(|| {
        let mut s = Session::new();
        let mut slow = 0;
        s.probe(&mut slow).unwrap_or_default()
    })
}
fn diff(exp: &Outs, got: &Outs) -> Option<(usize, String)> {
    fn first<T: PartialEq + std::fmt::Debug>(e: &[T], g: &[T]) -> Option<String> {
        if e == g {
            return None;
        }
        let i = (0..e.len().max(g.len())).find(|&i| e.get(i) != g.get(i)).unwrap_or(0);
        let cut = |s: String| s[..s.len().min(400)].to_string();
        Some(format!("result #{i}: fresh instance {} | this instance {}", cut(format!("{:?}", e.get(i))), cut(format!("{:?}", g.get(i)))))
    }
    first(&exp.tcp, &got.tcp).map(|d| (0, d)).or_else(|| first(&exp.http, &got.http).map(|d| (1, d))).or_else(|| first(&exp.tls, &got.tls).map(|d| (2, d))).or_else(|| first(&exp.uni, &got.uni).map(|d| (3, d)))
}

// ------------------------------------------------------------------------------------------------ pure per-frame functions
struct Pure {
    ft: Vec<huginn_net_tcp::FilterConfig>,
    fh: Vec<huginn_net_http::FilterConfig>,
    fl: Vec<huginn_net_tls::FilterConfig>,
}
fn pure() -> Pure {
    let cfgs = [
        Cfg { deny: false, pf: Some(PF { sp: vec![], dp: vec![80, 443], sr: vec![(1024, 65535)], dr: vec![], any: false }), af: None, sf: None },
        Cfg { deny: true, pf: None, af: Some(AF { addrs: vec!["10.0.0.1".into(), "2001::1".into()], src: true, dst: true }), sf: None },
        Cfg { deny: false, pf: Some(PF { sp: vec![], dp: vec![], sr: vec![], dr: vec![(0, 1024)], any: true }), af: None, sf: Some(AF { addrs: vec!["10.0.0.0/8".into(), "2001::/16".into()], src: true, dst: false }) },
    ];
    Pure { ft: cfgs.iter().map(cfg_tcp).collect(), fh: cfgs.iter().map(cfg_http).collect(), fl: cfgs.iter().map(cfg_tls).collect() }
}
fn pure_calls(p: &Pure, f: &[u8]) -> Vec<(&'static str, String)> {
    let mut ps = vec![];
    let mut g = |name: &'static str, r: Result<u64, String>| {
        if let Err(e) = r {
            ps.push((name, e));
        }
    };
    g("tcp-raw-filter", guarded(|| p.ft.iter().map(|c| huginn_net_tcp::raw_filter::apply(f, c) as u64).sum()));
    g("http-raw-filter", guarded(|| p.fh.iter().map(|c| huginn_net_http::raw_filter::apply(f, c) as u64).sum()));
    g("tls-raw-filter", guarded(|| p.fl.iter().map(|c| huginn_net_tls::raw_filter::apply(f, c) as u64).sum()));
    g("tcp-dispatch-hash", guarded(|| [1usize, 3, 64].iter().map(|&w| huginn_net_tcp::packet_hash::hash_source_ip(f).checked_rem(w).unwrap_or(0) as u64).sum()));
    g("http-dispatch-hash", guarded(|| [1usize, 3, 64].iter().map(|&w| huginn_net_http::packet_hash::hash_flow(f, w) as u64).sum()));
    g("datalink-detect", guarded(|| huginn_net_tcp::packet_parser::detect_datalink_format(f).is_some() as u64 + huginn_net_http::packet_parser::detect_datalink_format(f).is_some() as u64 + huginn_net_tls::packet_parser::detect_datalink_format(f).is_some() as u64 + huginn_net::packet_parser::detect_datalink_format(f).is_some() as u64));
    g("tls-dispatch-hash", guarded(|| [1usize, 3, 64].iter().map(|&w| huginn_net_tls::packet_hash::hash_flow(f, w).unwrap_or(0) as u64).sum()));
    ps
}

// ------------------------------------------------------------------------------------------------ frame families
pub struct Family {
    pub name: String,
    pub len: usize,
    pub gen: Box<dyn Fn(usize) -> Vec<Vec<u8>> + Send + Sync>,
}

const QUICK_VALUES: [u8; 32] = [0, 1, 2, 3, 4, 5, 6, 7, 8, 0x0f, 0x10, 0x11, 0x12, 0x14, 0x18, 0x1f, 0x20, 0x3f, 0x40, 0x45, 0x46, 0x4f, 0x50, 0x5f, 0x60, 0x7f, 0x80, 0x86, 0xdd, 0xf0, 0xfe, 0xff];
const PAYLOAD_VALUES: [u8; 8] = [0x00, 0x7f, 0x80, 0xff, b'\r', b'\n', b':', b' '];
/// bytes of a frame treated as header (every value tried)
const HEADER_BYTES: usize = 94;

fn header_values(thorough: bool) -> Vec<u8> {
    if thorough {
        (0..=255).collect()
    } else {
        QUICK_VALUES.to_vec()
    }
}
fn mutation_count(n: usize, hv: usize) -> usize {
    let h = n.min(HEADER_BYTES);
    n + 8 * n + h * hv + (n - h) * PAYLOAD_VALUES.len()
}
fn mutate(f: &[u8], mut m: usize, hv: &[u8]) -> Vec<u8> {
    let n = f.len();
    let h = n.min(HEADER_BYTES);
    if m < n {
        return f[..m].to_vec();
    }
    m -= n;
    let mut o = f.to_vec();
    if m < 8 * n {
        o[m / 8] ^= 1 << (m % 8);
        return o;
    }
    m -= 8 * n;
    if m < h * hv.len() {
        o[m / hv.len()] = hv[m % hv.len()];
        return o;
    }
    m -= h * hv.len();
    o[h + m / PAYLOAD_VALUES.len()] = PAYLOAD_VALUES[m % PAYLOAD_VALUES.len()];
    o
}
/// every mutation of frame `pos` of each item's trace, the other frames of the trace unchanged
fn in_context(name: &str, items: Vec<(Arc<Vec<Vec<u8>>>, usize)>, thorough: bool) -> Family {
    let hv = header_values(thorough);
    let mut offs = vec![0usize];
    for (t, p) in &items {
        offs.push(offs[offs.len() - 1] + mutation_count(t[*p].len(), hv.len()));
    }
    let len = offs[offs.len() - 1];
    Family {
        name: name.into(),
        len,
        gen: Box::new(move |i| {
            let k = offs.partition_point(|&o| o <= i) - 1;
            let (t, p) = &items[k];
            let mut tr: Vec<Vec<u8>> = t.as_ref().clone();
            tr[*p] = mutate(&t[*p], i - offs[k], &hv);
            tr
        }),
    }
}

fn option_frame(kind: usize, v6: bool, opts: Vec<u8>) -> Vec<u8> {
    let (flags, payload): (u8, Vec<u8>) = match kind {
        0 => (SYN, vec![]),
        1 => (SYN | ACK, vec![]),
        _ => (ACK | PSH, b"x".to_vec()),
    };
    pkt::build(&Spec { v6, flags, ack: if flags & ACK != 0 { 7 } else { 0 }, opts, payload, ..Spec::default() })
}
fn option_space(thorough: bool) -> Family {
    let kinds: Vec<u8> = if thorough { (0..=255).collect() } else { vec![0, 1, 2, 3, 4, 5, 6, 7, 8, 9, 34, 253, 254, 255] };
    let pos: Vec<usize> = if thorough { vec![0, 1, 2, 3, 4, 5, 6, 7, 8, 20, 33, 34, 35, 36, 37, 38] } else { vec![0, 1, 2, 3, 36, 37, 38] };
    let dims = [kinds.len(), 256, pos.len(), 3, 3, 2, 2];
    let len = dims.iter().product();
    Family {
        name: "tcp-option-space".into(),
        len,
        gen: Box::new(move |mut i| {
            let mut d = [0usize; 7];
            for (k, n) in dims.iter().enumerate().rev() {
                d[k] = i % n;
                i /= n;
            }
            let (k, l, p, fill, kind, v6, tight) = (kinds[d[0]], d[1] as u8, pos[d[2]], [0u8, 1, 0xff][d[3]], d[4], d[5] == 1, d[6] == 1);
            let mut o = vec![1u8; p];
            o.push(k);
            o.push(l);
            let total = if tight { (o.len() + 3) / 4 * 4 } else { 40 };
            o.resize(total, fill);
            vec![option_frame(kind, v6, o)]
        }),
    }
}
fn option_pairs() -> Family {
    let ks = [0u8, 1, 2, 3, 4, 5, 8, 254];
    let dims = [8usize, 13, 8, 13, 3, 2];
    Family {
        name: "tcp-option-pairs".into(),
        len: dims.iter().product(),
        gen: Box::new(move |mut i| {
            let mut d = [0usize; 6];
            for (k, n) in dims.iter().enumerate().rev() {
                d[k] = i % n;
                i /= n;
            }
            let mut o = vec![];
            for (k, l) in [(ks[d[0]], d[1]), (ks[d[2]], d[3])] {
                o.push(k);
                o.push(l as u8);
                o.extend(std::iter::repeat(0x11).take(l.saturating_sub(2).min(10)));
            }
            o.resize(40, 0);
            vec![option_frame(d[4], d[5] == 1, o)]
        }),
    }
}
/// the HTTP/1 request frame of a fresh connection with its IP header rewritten
fn ip_header_grid() -> Family {
    let e = Ends { cip: 30, cport: 45000, sip: 31, sport: 80, v6: false };
    let e6 = Ends { cip: 32, cport: 45001, sip: 33, sport: 80, v6: true };
    let req = b"GET / HTTP/1.1\r\nHost: grid.example\r\nUser-Agent: curl/8.0\r\n\r\n";
    let resp = b"HTTP/1.1 200 OK\r\nServer: nginx\r\n\r\n";
    let c4 = Arc::new(c07::http_conn("g4", &e, req, &[], resp, &[], T0).pkts.into_iter().map(|p| p.0).collect::<Vec<_>>());
    let c6 = Arc::new(c07::http_conn("g6", &e6, req, &[], resp, &[], T0).pkts.into_iter().map(|p| p.0).collect::<Vec<_>>());
    // v4: frame index x IHL 16 x total length 7 x protocol 3 x fragment bits 5 ; v6: frame index x next header 6 x payload length 6
    let n4 = c4.len() * 16 * 7 * 3 * 5;
    let n6 = c6.len() * 6 * 6;
    Family {
        name: "ip-header-grid".into(),
        len: n4 + n6,
        gen: Box::new(move |i| {
            if i < n4 {
                let mut t = c4.as_ref().clone();
                let (j, r) = (i / (16 * 7 * 3 * 5), i % (16 * 7 * 3 * 5));
                let (ihl, r) = (r / 105, r % 105);
                let (tl, r) = (r / 15, r % 15);
                let (pr, fr) = (r / 5, r % 5);
                let f = &mut t[j];
                let true_len = f.len() as u16;
                let hdr = ihl as u16 * 4;
                f[0] = 0x40 | ihl as u8;
                let total = [0u16, hdr, hdr.wrapping_add(19), hdr.wrapping_add(20), true_len, 65535, true_len.wrapping_sub(1)][tl];
                f[2..4].copy_from_slice(&total.to_be_bytes());
                f[9] = [6u8, 17, 0][pr];
                let bits: u16 = [0x4000, 0x2000, 0x0001, 0x1fff, 0x8000][fr];
                f[6..8].copy_from_slice(&bits.to_be_bytes());
                t
            } else {
                let i = i - n4;
                let mut t = c6.as_ref().clone();
                let (j, r) = (i / 36, i % 36);
                let f = &mut t[j];
                let true_len = (f.len() - 40) as u16;
                f[6] = [6u8, 0, 44, 59, 17, 43][r / 6];
                let pl = [0u16, 19, 20, true_len, 65535, true_len.wrapping_sub(1)][r % 6];
                f[4..6].copy_from_slice(&pl.to_be_bytes());
                t
            }
        }),
    }
}
fn link_grid() -> Family {
    let syn4 = option_frame(0, false, vec![2, 4, 5, 0xb4]);
    let syn6 = option_frame(0, true, vec![2, 4, 5, 0xb4]);
    Family {
        name: "link-layer-grid".into(),
        len: 2 * 65536 + 2 * 256 * 4,
        gen: Box::new(move |i| {
            if i < 2 * 65536 {
                let ip = if i % 2 == 0 { &syn4 } else { &syn6 };
                let mut f = pkt::frame(Link::Ethernet, ip);
                f[12..14].copy_from_slice(&((i / 2) as u16).to_be_bytes());
                vec![f]
            } else {
                let i = i - 2 * 65536;
                let ip = if i % 2 == 0 { &syn4 } else { &syn6 };
                let fam = (i / 2 % 256) as u8;
                let mut f = pkt::frame(Link::Null(fam), ip);
                // the family in either byte order and with non-zero upper bytes
                match i / 512 {
                    1 => {
                        f[0] = 0;
                        f[3] = fam;
                    }
                    2 => f[1] = 0xff,
                    3 => f.truncate(4 + (fam as usize % 44)),
                    _ => {}
                }
                vec![f]
            }
        }),
    }
}

fn read_pcap(path: &str) -> Vec<Vec<u8>> {
    let Ok(b) = std::fs::read(path) else { return vec![] };
    let mut v = vec![];
    let mut i = 24;
    while i + 16 <= b.len() {
        let n = u32::from_le_bytes([b[i + 8], b[i + 9], b[i + 10], b[i + 11]]) as usize;
        i += 16;
        if i + n > b.len() {
            break;
        }
        v.push(b[i..i + n].to_vec());
        i += n;
    }
    v
}

pub fn families(thorough: bool) -> Vec<Family> {
    let mut v = vec![option_pairs(), ip_header_grid(), link_grid()];
    // connection alphabet, every frame mutated in the context of its connection; odd connections in Ethernet framing
    let mut items = vec![];
    // (the twins and one-component variants C07 adds to its alphabet are the same frames with other addresses: the quick
    // tier mutates the 20 connections with distinct contents, the thorough tier all of them)
    for (ci, c) in c07::connections().into_iter().enumerate().filter(|(ci, _)| thorough || *ci < 20) {
        let frames: Vec<Vec<u8>> = c.pkts.into_iter().map(|p| if ci % 2 == 1 { pkt::frame(Link::Ethernet, &p.0) } else { p.0 }).collect();
        let t = Arc::new(frames);
        for j in 0..t.len() {
            items.push((t.clone(), j));
        }
    }
    v.push(in_context("connection-alphabet-mutations", items, thorough));
    for name in ["tls12", "http-simple-get", "tls-alpn-h2", "macos_tcp_flags"] {
        let frames = read_pcap(&format!("/repo/pcap/{name}.pcap"));
        let mut items = vec![];
        for j in 0..frames.len() {
            let lo = j.saturating_sub(8);
            let hi = (j + 3).min(frames.len());
            items.push((Arc::new(frames[lo..hi].to_vec()), j - lo));
        }
        v.push(in_context(&format!("capture-{name}-mutations"), items, thorough));
    }
    v.push(option_space(thorough));
    v
}

// ------------------------------------------------------------------------------------------------ frame runner
fn panic_key(msg: &str) -> String {
    let m: String = msg.chars().take(70).map(|c| if c.is_ascii_digit() { 'N' } else { c }).collect();
    let mut out = String::new();
    for c in m.chars() {
        if !(c == 'N' && out.ends_with('N')) {
            out.push(c);
        }
    }
    out
}
fn trace_json(t: &[Vec<u8>]) -> Value {
    json!(t.iter().map(|f| hex(f)).collect::<Vec<_>>())
}
/// fresh instance, the given traces, then the probe
fn reproduce(traces: &[Vec<Vec<u8>>]) -> Option<String> {
    let mut s = Session::new();
    let mut slow = 0;
    for t in traces {
        for f in t {
            if !s.feed(f, &mut slow).is_empty() {
                s = Session::new();
            }
        }
    }
    match s.probe(&mut slow) {
        Ok(o) => diff(expected(), &o).map(|(a, d)| format!("{}: {d}", ANALYZERS[a])),
        Err(ps) => Some(format!("probe panicked: {ps:?}")),
    }
}

static QUICK_LISTEN_ALL: std::sync::atomic::AtomicBool = std::sync::atomic::AtomicBool::new(true);
fn run_family(fi: usize, fam: &Family, pools: bool) -> Report {
    let chunk = 4096usize;
    let chunks = fam.len.div_ceil(chunk);
    par_slices(chunks, chunks, |rg| {
        let mut r = Report::new();
        let pu = pure();
        for c in rg {
            let (lo, hi) = (c * chunk, ((c + 1) * chunk).min(fam.len));
            // quick tier: families of more than 64 slices are listened to (log arguments evaluated) on every third slice
            crate::logsink::listen(if QUICK_LISTEN_ALL.load(std::sync::atomic::Ordering::Relaxed) { c % 5 != 4 } else { chunks <= 64 || c % 5 == 0 });
            let mut s = Session::new();
            let mut slow: u128 = 0;
            let mut all: Vec<Vec<u8>> = vec![];
            let mut session_start = lo;
            for i in lo..hi {
                slot_set(fi as u64, i as u64);
                let t = (fam.gen)(i);
                if pools {
                    all.extend(t.iter().cloned());
                }
                let mut calls = 0u64;
                let mut panicked = false;
                for f in &t {
                    for (name, p) in pure_calls(&pu, f) {
                        r.dev(format!("C01/{name}/panic/{}", panic_key(&p)), "panic", || json!({"family": fam.name, "index": i, "entry": name, "frames": trace_json(&t), "frame": hex(f), "detail": p}));
                    }
                    for (an, p) in s.feed(f, &mut slow) {
                        panicked = true;
                        r.dev(format!("C01/{an}/panic/{}", panic_key(&p)), "panic", || json!({"family": fam.name, "index": i, "entry": an, "frames": trace_json(&t), "frame": hex(f), "detail": p}));
                    }
                    calls += 10;
                }
                if panicked {
                    s = Session::new();
                    session_start = i + 1;
                    r.exec(calls);
                    continue;
                }
                match s.probe(&mut slow) {
                    Err(ps) => {
                        for (an, p) in ps {
                            r.dev(format!("C01/{an}/panic-in-probe-after-input/{}", panic_key(&p)), "panic", || json!({"family": fam.name, "index": i, "entry": an, "frames": trace_json(&t), "detail": p}));
                        }
                        s = Session::new();
                        session_start = i + 1;
                    }
                    Ok(o) => {
                        if let Some((a, d)) = diff(expected(), &o) {
                            // minimise: the shortest suffix of this instance's history that reproduces on a fresh one
                            let mut found = None;
                            let mut w = 1usize;
                            while i + 1 - w >= session_start {
                                let hist: Vec<Vec<Vec<u8>>> = (i + 1 - w..=i).map(|k| (fam.gen)(k)).collect();
                                if reproduce(&hist).is_some() {
                                    found = Some(hist);
                                    break;
                                }
                                if i + 1 - w == session_start {
                                    break;
                                }
                                w = (w * 2).min(i + 1 - session_start);
                            }
                            let an = ANALYZERS[a];
                            match found {
                                Some(h) => r.dev(format!("C01/{an}/probe-differs-after-input/{}", fam.name), "poisoned", || json!({"family": fam.name, "index": i, "entry": an, "history": h.iter().map(|t| trace_json(t)).collect::<Vec<_>>(), "detail": d})),
                                None => r.dev(format!("C01/{an}/probe-differs-after-history/{}", fam.name), "poisoned", || json!({"family": fam.name, "index": i, "entry": an, "slice_from": session_start, "detail": d})),
                            }
                            s = Session::new();
                            session_start = i + 1;
                        }
                    }
                }
                r.exec(calls + 4 * 17);
            }
            slot_clear();
            crate::logsink::listen(true);
            if slow > SLOW_CALL_MS {
                r.dev("C01/slow-call", "slow", || json!({"family": fam.name, "slice": [lo, hi], "max_call_ms": slow as u64}));
            }
            r.outcome(&(fi, c, slow / 50));
            if pools {
                pool_pass(&mut r, fam, lo, hi, &all);
            }
        }
        r
    })
}

/// the slice through a real one-worker pool of each kind, then the probe: its results must still arrive
fn pool_pass(r: &mut Report, fam: &Family, lo: usize, hi: usize, frames: &[Vec<u8>]) {
    let (cip, cport) = (199u8, 20000u16);
    let nd = Needles::new(cip, cport);
    let probe: Vec<(Vec<u8>, u8)> = probe_template().iter().map(|(f, c)| (patch(f, *c, cip, cport), *c)).collect();
    let exp = expected();
    let d = crate::drv::db_arc();
    let n = frames.len() + probe.len() + 8;
    for pool in ["tcp", "http", "tls"] {
        // (missing probe results, expected probe results)
        let res = guarded(|| -> Result<(usize, usize, String), String> {
            macro_rules! drive {
                ($p:expr, $q:path, $conns:expr) => {{
                    let p = $p.map_err(|e| e.to_string())?;
                    for f in frames.iter() {
                        // mutated frames may legitimately be refused by the dispatcher; the probe may not
                        let _ = p.dispatch(f.clone());
                    }
                    for (f, c) in probe.iter() {
                        if $conns.contains(c) && p.dispatch(f.clone()) != $q {
                            return Err("probe frame not queued although the queue cannot overflow".into());
                        }
                    }
                    drop(p);
                }};
            }
            match pool {
                "tcp" => {
                    let (tx, rx) = std::sync::mpsc::channel();
                    drive!(huginn_net_tcp::WorkerPool::new(1, n, 16, 5, tx, Some(d.clone()), 256, None), huginn_net_tcp::DispatchResult::Queued, [0u8]);
                    let got: Vec<TcpRes> = rx.iter().map(|x| tcp_res(&x)).filter(|x| !x.is_empty()).map(|mut x| { nd.tcp(&mut x); x }).collect();
                    let missing: Vec<&TcpRes> = exp.tcp.iter().filter(|e| !got.contains(e)).collect();
                    Ok((missing.len(), exp.tcp.len(), format!("{:?}", missing.first())))
                }
                "http" => {
                    let (tx, rx) = std::sync::mpsc::channel();
                    drive!(huginn_net_http::WorkerPool::new(1, n, 16, 5, tx, Some(d.clone()), 256, None), huginn_net_http::DispatchResult::Queued, [2u8, 3]);
                    let got: Vec<HttpRes> = rx.iter().map(|x| http_res(&x)).filter(|x| !x.is_empty()).map(|mut x| { nd.http(&mut x); x }).collect();
                    let missing: Vec<&HttpRes> = exp.http.iter().filter(|e| !got.contains(e)).collect();
                    Ok((missing.len(), exp.http.len(), format!("{:?}", missing.first())))
                }
                _ => {
                    let (tx, rx) = std::sync::mpsc::channel();
                    drive!(huginn_net_tls::WorkerPool::new(1, n, 16, 5, tx, 256, None), huginn_net_tls::DispatchResult::Queued, [1u8]);
                    let got: Vec<TlsRes> = rx.iter().map(|x| tls_out(&x)).map(|mut x| { nd.tls(&mut x); x }).collect();
                    let missing: Vec<&TlsRes> = exp.tls.iter().filter(|e| !got.contains(e)).collect();
                    Ok((missing.len(), exp.tls.len(), format!("{:?}", missing.first())))
                }
            }
        });
        r.exec(n as u64);
        match res {
            Err(p) => r.dev(format!("C01/pool/{pool}/panic"), "panic", || json!({"family": fam.name, "slice": [lo, hi], "pool": pool, "detail": p})),
            Ok(Err(e)) => r.dev(format!("C01/pool/{pool}/dispatch-failed"), "dispatch", || json!({"family": fam.name, "slice": [lo, hi], "pool": pool, "detail": e})),
            Ok(Ok((missing, expected, first))) => {
                if missing > 0 {
                    r.dev(format!("C01/pool/{pool}/probe-results-missing-after-slice"), "worker", || json!({"family": fam.name, "slice": [lo, hi], "pool": pool, "missing": missing, "expected": expected, "first_missing": first[..first.len().min(400)]}));
                }
            }
        }
    }
}

// ------------------------------------------------------------------------------------------------ streams
pub struct SFamily {
    pub name: String,
    pub len: usize,
    pub gen: Box<dyn Fn(usize) -> Vec<u8> + Send + Sync>,
}
struct StreamProbe {
    hello: Vec<u8>,
    h2req: Vec<u8>,
    h2resp: Vec<u8>,
    h1req: Vec<u8>,
    h1resp: Vec<u8>,
}
fn stream_probe() -> StreamProbe {
    let (q, a) = h2_probe();
    StreamProbe {
        hello: c07::hello_bytes("probe.example"),
        h2req: q,
        h2resp: a,
        h1req: b"GET /a HTTP/1.1\r\nHost: one.example\r\nUser-Agent: Mozilla/5.0 (X11) Firefox/99\r\nAccept: */*\r\nAccept-Language: en-US,en;q=0.5\r\n\r\n".to_vec(),
        h1resp: b"HTTP/1.1 200 OK\r\nServer: nginx/1.2.3\r\nContent-Type: text/html\r\n\r\nhi".to_vec(),
    }
}
struct StreamSession {
    reader: huginn_net_tls::TlsClientHelloReader,
    ex: huginn_net_http::Http2FingerprintExtractor,
    procs: huginn_net_http::http_process::HttpProcessors,
    /// parsers built through `with_config` with limits small enough that the universe's inputs exceed them
    small: (huginn_net_http::http1_parser::Http1Parser, huginn_net_http::Http2Parser<'static>),
}
impl StreamSession {
    fn new() -> Self {
        StreamSession { reader: huginn_net_tls::TlsClientHelloReader::new(), ex: huginn_net_http::Http2FingerprintExtractor::new(), procs: huginn_net_http::http_process::HttpProcessors::new(),
            small: (
                huginn_net_http::http1_parser::Http1Parser::with_config(huginn_net_http::http1_parser::Http1Config { max_headers: 2, max_request_line_length: 16, max_header_length: 16, preserve_header_order: false, parse_cookies: false, strict_parsing: true }),
                huginn_net_http::Http2Parser::with_config(huginn_net_http::http2_parser::Http2Config { max_frame_size: 16, max_streams: 1, enable_hpack: true, strict_parsing: true }),
            ),
        }
    }
    /// feeds x to every stream entry point; returns panics
    fn feed(&mut self, x: &[u8]) -> Vec<(&'static str, String)> {
        let mut ps = vec![];
        if let Err(p) = guarded(|| self.reader.add_bytes(x).is_ok()) {
            ps.push(("tls-clienthello-reader", p));
        }
        if let Err(p) = guarded(|| self.ex.add_bytes(x).is_ok()) {
            ps.push(("http2-fingerprint-extractor", p));
        }
        if let Err(p) = guarded(|| huginn_net_http::extract_akamai_fingerprint_from_bytes(x).is_some()) {
            ps.push(("akamai-from-bytes", p));
        }
        if let Err(p) = guarded(|| self.procs.parse_request(x).is_some()) {
            ps.push(("http-parse-request", p));
        }
        if let Err(p) = guarded(|| self.procs.parse_response(x).is_some()) {
            ps.push(("http-parse-response", p));
        }
        // public helpers and configurable parsers that no analyzer path reaches with these settings
        if let Err(p) = guarded(|| {
            use huginn_net_http::{http1_process as h1, http2_process as h2};
            h1::has_complete_headers(x) as u8 + h1::looks_like_http1_response(x) as u8 + h2::has_complete_data(x) as u8 + h2::looks_like_http2_response(x) as u8
        }) {
            ps.push(("http-stream-predicates", p));
        }
        if let Err(p) = guarded(|| huginn_net_tls::tls_process::parse_tls_client_hello_ja4(x).is_some()) {
            ps.push(("tls-ja4-from-bytes", p));
        }
        if let Err(p) = guarded(|| {
            let (a, b) = (&self.small.0, &self.small.1);
            a.parse_request(x).is_ok() as u8 + a.parse_response(x).is_ok() as u8 + b.parse_request(x).is_ok() as u8 + b.parse_response(x).is_ok() as u8 + b.parse_frames(x).is_ok() as u8
        }) {
            ps.push(("configured-parsers", p));
        }
        ps
    }
    /// the extractors are probed after `reset()`, the documented way to reuse them
    fn probe(&mut self, p: &StreamProbe) -> Result<Vec<String>, String> {
        guarded(|| {
            let mut out = vec![];
            self.reader.reset();
            let a = self.reader.add_bytes(&p.hello[..40]).map(|s| s.is_some());
            let b = self.reader.add_bytes(&p.hello[40..]);
            out.push(format!("reader {a:?} {:?}", b.map(|s| s.map(|s| (s.generate_ja4().full.value().to_string(), s.sni, s.alpn, s.cipher_suites.len(), s.extensions.len())))));
            self.ex.reset();
            let cut = p.h2req.len() / 2;
            let a = self.ex.add_bytes(&p.h2req[..cut]).map(|f| f.map(|f| f.fingerprint));
            let b = self.ex.add_bytes(&p.h2req[cut..]).map(|f| f.map(|f| f.fingerprint));
            out.push(format!("extractor {a:?} {b:?}"));
            out.push(format!("h1req {:?}", self.procs.parse_request(&p.h1req).map(|o| req_obs(&o))));
            out.push(format!("h2req {:?}", self.procs.parse_request(&p.h2req).map(|o| req_obs(&o))));
            out.push(format!("h1resp {:?}", self.procs.parse_response(&p.h1resp).map(|o| resp_obs(&o))));
            out.push(format!("h2resp {:?}", self.procs.parse_response(&p.h2resp).map(|o| resp_obs(&o))));
            out
        })
    }
}
fn stream_expected() -> &'static Vec<String> {
    static E: OnceLock<Vec<String>> = OnceLock::new();
    E.get_or_init(|| StreamSession::new().probe(&stream_probe()).unwrap_or_default())
}

fn mutations_of(name: &str, base: Vec<u8>) -> SFamily {
    let vals: Vec<u8> = PAYLOAD_VALUES.to_vec();
    let n = base.len();
    SFamily {
        name: format!("mutations-of-{name}"),
        len: n + 8 * n + n * vals.len() + n,
        gen: Box::new(move |mut m| {
            if m < n {
                return base[..m].to_vec();
            }
            m -= n;
            let mut o = base.clone();
            if m < 8 * n {
                o[m / 8] ^= 1 << (m % 8);
                return o;
            }
            m -= 8 * n;
            if m < n * vals.len() {
                o[m / vals.len()] = vals[m % vals.len()];
                return o;
            }
            m -= n * vals.len();
            // one byte deleted
            o.remove(m);
            o
        }),
    }
}
fn tls_body(variant: usize, n: usize, hello: &[u8]) -> Vec<u8> {
    match variant {
        0 => vec![0u8; n],
        1 => {
            // handshake header claiming a ClientHello that fills the record
            let mut b = vec![0u8; n];
            if n >= 4 {
                b[0] = 1;
                let l = (n - 4) as u32;
                b[1..4].copy_from_slice(&l.to_be_bytes()[1..]);
            }
            b
        }
        _ => (0..n).map(|i| hello[5 + i % (hello.len() - 5)]).collect(),
    }
}
fn stream_families(thorough: bool) -> Vec<SFamily> {
    let p = stream_probe();
    let mut v = vec![];
    let maxlen = if thorough { 3 } else { 2 };
    let total: usize = (0..=maxlen).map(|l| 256usize.pow(l as u32)).sum();
    v.push(SFamily {
        name: format!("all-byte-strings-up-to-{maxlen}"),
        len: total,
        gen: Box::new(move |mut i| {
            let mut l = 0u32;
            while i >= 256usize.pow(l) {
                i -= 256usize.pow(l);
                l += 1;
            }
            (0..l).map(|k| (i >> (8 * k)) as u8).collect()
        }),
    });
    // TLS record headers: type x version x length x body size x body content
    let hello = p.hello.clone();
    let types = [0x16u8, 0x00, 0x14, 0x15, 0x17, 0xff];
    let vers = [0x0303u16, 0x0200, 0x0300, 0x0301, 0x0302, 0x0304, 0x0305, 0xffff];
    let lens = [0usize, 1, 3, 4, 5, 37, 38, 255, 256, 16384, 16385, 65535];
    v.push(SFamily {
        name: "tls-record-header-grid".into(),
        len: types.len() * vers.len() * lens.len() * 4 * 3,
        gen: Box::new(move |i| {
            let (t, r) = (i / (8 * 12 * 12), i % (8 * 12 * 12));
            let (ve, r) = (r / 144, r % 144);
            let (l, r) = (r / 12, r % 12);
            let (bs, bc) = (r / 3, r % 3);
            let n = lens[l];
            let body = [0, n.saturating_sub(1), n, n + 1][bs];
            let mut x = vec![types[t], (vers[ve] >> 8) as u8, vers[ve] as u8, (n >> 8) as u8, n as u8];
            x.extend(tls_body(bc, body, &hello));
            x
        }),
    });
    let hello = p.hello.clone();
    let stride = if thorough { 1 } else { 97 };
    let nl = 65536usize.div_ceil(stride);
    v.push(SFamily {
        name: format!("tls-handshake-record-every-length-stride-{stride}"),
        len: nl * 4 * 2,
        gen: Box::new(move |i| {
            let n = (i / 8 * stride).min(65535);
            let body = [0, n.saturating_sub(1), n, n + 1][i % 8 / 2];
            let mut x = vec![0x16, 3, 3, (n >> 8) as u8, n as u8];
            x.extend(tls_body(1 + i % 2, body, &hello));
            x
        }),
    });
    // HTTP/2 frame headers after the preface (+SETTINGS), followed by the body and a valid HEADERS frame
    let (q, a) = (p.h2req.clone(), p.h2resp.clone());
    let flens = [0usize, 1, 4, 5, 6, 8, 9, 16383, 16384, 16385, 65535, (1 << 24) - 1];
    let streams = [0u32, 1, 0x7fff_ffff, 0x8000_0000, 0x8000_0001, 3];
    v.push(SFamily {
        name: "http2-frame-header-grid".into(),
        len: flens.len() * 12 * 256 * streams.len() * 2 * 2,
        gen: Box::new(move |i| {
            let (l, r) = (i / (12 * 256 * 6 * 4), i % (12 * 256 * 6 * 4));
            let (ty, r) = (r / (256 * 6 * 4), r % (256 * 6 * 4));
            let (fl, r) = (r / 24, r % 24);
            let (st, r) = (r / 4, r % 4);
            let (request, full_body) = (r / 2 == 0, r % 2 == 0);
            let valid = if request { &q } else { &a };
            // split the valid stream before its HEADERS frame (the last frame)
            let head_len = if request { h2::PREFACE.len() + 9 + 6 } else { 9 };
            let mut x = valid[..head_len].to_vec();
            let n = flens[l];
            x.extend([(n >> 16) as u8, (n >> 8) as u8, n as u8, ty as u8, fl as u8]);
            x.extend(streams[st].to_be_bytes());
            let body = if full_body { n.min(20000) } else { n.min(20000) / 2 };
            x.extend(std::iter::repeat(if fl % 2 == 0 { 0u8 } else { 0xff }).take(body));
            x.extend(&valid[head_len..]);
            x
        }),
    });
    // HPACK blocks in a HEADERS frame: all 1- and 2-byte blocks, integer continuations, string lengths / Huffman
    let wrap = |block: &[u8], request: bool| -> Vec<u8> {
        let mut d = if request { h2::PREFACE.to_vec() } else { vec![] };
        d.extend(h2::settings(&[]));
        d.extend(h2::headers_frames(1, block, &Framing { end_stream: true, ..Default::default() }));
        d
    };
    v.push(SFamily {
        name: "hpack-1-and-2-byte-blocks".into(),
        len: (256 + 65536) * 2,
        gen: Box::new(move |i| {
            let request = i % 2 == 0;
            let i = i / 2;
            let mut e = HpackEnc::default();
            let mut b = if request { [e.field(":method", "GET", Rep::Indexed, false, false), e.field(":path", "/", Rep::Indexed, false, false), e.field(":scheme", "https", Rep::Indexed, false, false)].concat() } else { e.field(":status", "200", Rep::Indexed, false, false) };
            if i < 256 {
                b.push(i as u8);
            } else {
                b.push(((i - 256) >> 8) as u8);
                b.push((i - 256) as u8);
            }
            wrap(&b, request)
        }),
    });
    let cont = [0x00u8, 0x01, 0x7f, 0x80, 0xff];
    v.push(SFamily {
        name: "hpack-integers-and-strings".into(),
        // prefix kind 5 x continuation bytes: 5^0..5^6 sequences ; string forms
        len: 5 * (0..=6).map(|k| 5usize.pow(k)).sum::<usize>() * 2 + 2 * 2 * 10 * 341,
        gen: Box::new(move |i| {
            let nint = 5 * (0..=6).map(|k| 5usize.pow(k)).sum::<usize>() * 2;
            if i < nint {
                let request = i % 2 == 0;
                let i = i / 2;
                let per: usize = (0..=6).map(|k| 5usize.pow(k)).sum();
                let (kind, mut s) = (i / per, i % per);
                let mut k = 0u32;
                while s >= 5usize.pow(k) {
                    s -= 5usize.pow(k);
                    k += 1;
                }
                // first byte with an all-ones prefix: indexed, literal+indexing name index, size update, literal name index, never-indexed
                let mut b = vec![[0xffu8, 0x7f, 0x3f, 0x0f, 0x1f][kind]];
                for j in 0..k {
                    b.push(cont[s / 5usize.pow(j) % 5]);
                }
                // a value string, in case the integer decoded as a name index
                b.extend([1, b'v']);
                wrap(&b, request)
            } else {
                let i = i - nint;
                let request = i % 2 == 0;
                let i = i / 2;
                let huff = i % 2 == 1;
                let i = i / 2;
                let (declared, mut s) = (i / 341, i % 341);
                let mut k = 0u32;
                while s >= 4usize.pow(k) {
                    s -= 4usize.pow(k);
                    k += 1;
                }
                // literal without indexing, new name: name string with a declared length and 0..4 actual bytes
                let sb = [0x00u8, 0xff, 0xfe, 0x61];
                let mut b = vec![0x00, (if huff { 0x80 } else { 0 }) | [0u8, 1, 2, 3, 4, 5, 8, 126, 127, 64][declared]];
                if [0u8, 1, 2, 3, 4, 5, 8, 126, 127, 64][declared] == 127 {
                    b.push(0x7f);
                }
                for j in 0..k {
                    b.push(sb[s / 4usize.pow(j) % 4]);
                }
                wrap(&b, request)
            }
        }),
    });
    // numeric tokens inside text protocols: every place that parses a number out of a header or a start line
    let num: Vec<&'static str> = vec!["0", "1", "0.5", "1.0", "1.000", "0.0001", "NaN", "nan", "-nan", "inf", "-inf", "infinity", "1e39", "1e-50", "-1", "+1", "-0", "", ".", " ", "0x10", "99999999999999999999", "1_0", "\u{663}", "1,5", "q"];
    let n = num.len();
    let nn = num.clone();
    v.push(SFamily {
        name: "accept-language-q-values".into(),
        // two-entry lists over all pairs (HTTP/1 and HTTP/2), three-entry lists over the first 10 tokens
        len: n * n * 2 + 1000,
        gen: Box::new(move |i| {
            let value = if i < n * n * 2 {
                let j = i / 2;
                format!("de;q={},en;q={}", nn[j / n], nn[j % n])
            } else {
                let j = i - n * n * 2;
                format!("fr;q={}, de ; q={} ,en;q={}", nn[6 + j / 100 % 10], nn[6 + j / 10 % 10], nn[6 + j % 10])
            };
            if i % 2 == 0 || i >= n * n * 2 {
                format!("GET / HTTP/1.1\r\nHost: h\r\nAccept-Language: {value}\r\nUser-Agent: x\r\n\r\n").into_bytes()
            } else {
                c07::h2_request(&[("accept-language", value.as_str(), Rep::LitNoIdx), ("user-agent", "x", Rep::LitNoIdx)], &[], &[])
            }
        }),
    });
    let nn = num.clone();
    v.push(SFamily {
        name: "numeric-tokens-in-start-lines-and-lengths".into(),
        len: (n + 8) * 6,
        gen: Box::new(move |i| {
            let extra = ["200", "999", "1000", "65535", "65536", "-200", "2 00", "20"];
            let t = if i / 6 < n { nn[i / 6] } else { extra[i / 6 - n] };
            match i % 6 {
                0 => format!("HTTP/1.1 {t} OK\r\nServer: s\r\n\r\n").into_bytes(),
                1 => format!("HTTP/1.1 200 OK\r\nServer: s\r\nContent-Length: {t}\r\n\r\nbody").into_bytes(),
                2 => format!("POST / HTTP/1.1\r\nHost: h\r\nContent-Length: {t}\r\n\r\nbody").into_bytes(),
                3 => format!("GET / HTTP/{t}\r\nHost: h\r\n\r\n").into_bytes(),
                4 => format!("HTTP/{t} 200 OK\r\nServer: s\r\n\r\n").into_bytes(),
                _ => {
                    let mut d = h2::settings(&[]);
                    let mut e = HpackEnc::default();
                    let mut b = e.field(":status", t, Rep::LitNoIdxIndexedName, false, false);
                    b.extend(e.field("content-length", t, Rep::LitNoIdx, false, false));
                    d.extend(h2::headers_frames(1, &b, &Framing::default()));
                    d
                }
            }
        }),
    });
    // text is sliced, truncated and echoed by byte offsets in several places: one multi-byte character at EVERY byte offset
    // of long start lines, header names and values (well-formed and malformed), incl. offsets around 1 Ki, 4 Ki and 8 Ki
    let offs: Vec<usize> = (0..=300).chain(1018..1030).chain(4090..4100).chain(8180..8200).collect();
    let chars = ["\u{e9}", "\u{20ac}", "\u{1f600}"];
    let templates = 12usize;
    let (no, nc) = (offs.len(), chars.len());
    v.push(SFamily {
        name: "multibyte-character-at-every-offset".into(),
        len: templates * no * nc,
        gen: Box::new(move |i| {
            let (t, k, c) = (i % templates, offs[i / templates % no], chars[i / templates / no]);
            let x = format!("{}{c}{}", "a".repeat(k), "b".repeat(20));
            match t {
                0 => format!("GET /{x} extra words here HTTP/1.1\r\nHost: h\r\n\r\n"),
                1 => format!("{x}\r\nHost: h\r\n\r\n"),
                2 => format!("GET /{x} HTTP/1.1\r\nHost: h\r\n\r\n"),
                3 => format!("HTTP/1.1 {x}\r\nServer: s\r\n\r\n"),
                4 => format!("HTTP/1.1 200 {x}\r\nServer: s\r\n\r\n"),
                5 => format!("GET / HTTP/1.1\r\nHost: h\r\nX-A: {x}\r\n\r\n"),
                6 => format!("GET / HTTP/1.1\r\n{x}: v\r\nHost: h\r\n\r\n"),
                7 => format!("GET /{x} HTTP/1.1\nHost: h\r\nAccept: */*\r\n\r\n"),
                8 => format!("GET / HTTP/1.1\r\nUser-Agent: {x}\r\nAccept-Language: {x};q=0.5\r\n\r\n"),
                9 => format!("GET / HTTP/1.1\r\nCookie: {x}={x}; b\r\nReferer: {x}\r\n\r\n"),
                10 => format!("HTTP/1.1 200 OK\r\nServer: {x}\r\nContent-Type: {x}\r\n\r\n"),
                _ => format!("HTTP/1.1 200 OK\nServer: s\r\n{x}\r\n\r\n"),
            }
            .into_bytes()
        }),
    });
    // ClientHellos whose text fields (server name, every ALPN value) hold characters of 2, 3 and 4 bytes first, last, alone
    // and in the middle: whoever takes "the first / last character" of such a field by byte position slices inside one
    {
        let mut forms: Vec<String> = vec![];
        for c in ["\u{e9}", "\u{20ac}", "\u{1f600}"] {
            for f in [format!("{c}"), format!("{c}2"), format!("h{c}"), format!("{c}{c}"), format!("h{c}2"), format!("{c}h2{c}"), format!("h2{c}h")] {
                forms.push(f);
            }
        }
        let n = forms.len();
        v.push(SFamily {
            name: "clienthello-text-fields-with-multibyte-characters".into(),
            len: n * 3,
            gen: Box::new(move |i| {
                use crate::gen::tls::{bytes, Ext, Hello};
                let x = forms[i % n].clone();
                let exts = match i / n {
                    0 => vec![Ext::Sni("example.org".into()), Ext::Alpn(vec![x])],
                    1 => vec![Ext::Sni(x), Ext::Alpn(vec!["h2".into()])],
                    _ => vec![Ext::Alpn(vec!["h2".into(), x.clone(), x])],
                };
                bytes(&Hello { exts, ..Hello::default() })
            }),
        });
    }
    for (name, base) in [("clienthello-record", p.hello.clone()), ("http2-request-stream", p.h2req.clone()), ("http2-response-stream", p.h2resp.clone()), ("http1-request", p.h1req.clone()), ("http1-response", p.h1resp.clone())] {
        v.push(mutations_of(name, base));
    }
    v
}

fn run_stream_family(fi: usize, fam: &SFamily) -> Report {
    let chunk = 8192usize;
    let chunks = fam.len.div_ceil(chunk);
    let p = stream_probe();
    let exp = stream_expected();
    par_slices(chunks, chunks, |rg| {
        let mut r = Report::new();
        for c in rg {
            let (lo, hi) = (c * chunk, ((c + 1) * chunk).min(fam.len));
            crate::logsink::listen(if QUICK_LISTEN_ALL.load(std::sync::atomic::Ordering::Relaxed) { c % 5 != 4 } else { chunks <= 32 || c % 5 == 0 });
            let mut s = StreamSession::new();
            let mut start = lo;
            for i in lo..hi {
                slot_set(fi as u64, i as u64);
                let x = (fam.gen)(i);
                let t = Instant::now();
                let ps = s.feed(&x);
                let el = t.elapsed().as_millis();
                if el > SLOW_CALL_MS {
                    r.dev("C01/slow-call", "slow", || json!({"family": fam.name, "index": i, "ms": el as u64, "stream": hex(&x[..x.len().min(200)])}));
                }
                r.exec(5 + 8);
                let mut bad = !ps.is_empty();
                for (name, pmsg) in ps {
                    r.dev(format!("C01/{name}/panic/{}", panic_key(&pmsg)), "panic", || json!({"family": fam.name, "index": i, "entry": name, "stream": hex(&x[..x.len().min(4000)]), "stream_len": x.len(), "detail": pmsg}));
                }
                if !bad {
                    match s.probe(&p) {
                        Err(pmsg) => {
                            bad = true;
                            r.dev(format!("C01/stream/panic-in-probe-after-input/{}", panic_key(&pmsg)), "panic", || json!({"family": fam.name, "index": i, "stream": hex(&x[..x.len().min(4000)]), "stream_len": x.len(), "detail": pmsg}));
                        }
                        Ok(got) => {
                            if got != *exp {
                                bad = true;
                                let k = (0..exp.len()).find(|&k| exp.get(k) != got.get(k)).unwrap_or(0);
                                let entry = exp[k].split(' ').next().unwrap_or("?").to_string();
                                // does the single input reproduce it on a fresh instance?
                                let mut f = StreamSession::new();
                                let _ = f.feed(&x);
                                let alone = f.probe(&p).map(|g| g != *exp).unwrap_or(true);
                                r.dev(format!("C01/stream/{entry}/probe-differs-after-{}", if alone { "input" } else { "history" }), "poisoned", || json!({"family": fam.name, "index": i, "slice_from": start, "entry": entry, "stream": hex(&x[..x.len().min(4000)]), "stream_len": x.len(), "fresh": exp[k][..exp[k].len().min(300)], "this_instance": got.get(k).map(|s| &s[..s.len().min(300)])}));
                            }
                        }
                    }
                }
                if bad {
                    s = StreamSession::new();
                    start = i + 1;
                }
            }
            slot_clear();
            crate::logsink::listen(true);
            r.outcome(&(fi, c));
        }
        r
    })
}

// ------------------------------------------------------------------------------------------------ database text
fn db_inputs(thorough: bool) -> Vec<(usize, String)> {
    // (line number, minimal database text with that line) for every signature / label / directive line
    let txt = include_str!("/repo/huginn-net-db/config/p0f.fp");
    let mut out = vec![];
    let (mut section, mut label) = (String::new(), String::new());
    let stride = if thorough { 1 } else { 6 };
    let mut k = 0usize;
    for (ln, line) in txt.lines().enumerate() {
        let t = line.trim();
        if t.is_empty() || t.starts_with(';') {
            continue;
        }
        if t.starts_with('[') {
            section = t.to_string();
            label.clear();
        } else if t.starts_with("label") {
            label = t.to_string();
        }
        k += 1;
        if k % stride != 0 && !t.starts_with('[') && !t.starts_with("classes") && !t.starts_with("ua_os") {
            continue;
        }
        let text = if t.starts_with('[') || t.starts_with("classes") {
            format!("classes = win,unix,other\n{t}")
        } else if t.starts_with("label") {
            format!("classes = win,unix,other\n{section}\n{t}")
        } else {
            format!("classes = win,unix,other\n{section}\n{label}\n{t}")
        };
        out.push((ln + 1, text));
    }
    out
}
const GRAMMAR: [&str; 16] = [":", ",", "+", "*", "?", "=", "[", "]", "%", "-", "0", "9", " ", "!", "|", "\u{e9}"];
fn run_db(thorough: bool) -> Report {
    let inputs = db_inputs(thorough);
    par_slices(inputs.len(), inputs.len(), |rg| {
        let mut r = Report::new();
        for k in rg {
            slot_set(63, k as u64);
            let (ln, text) = &inputs[k];
            // the mutable region is the last line
            let start = text.trim_end().rfind('\n').map(|p| p + 1).unwrap_or(0);
            let (pre, line) = text.split_at(start);
            let chars: Vec<char> = line.chars().collect();
            let try_text = |r: &mut Report, t: String, what: &str| {
                r.exec(1);
                let t0 = Instant::now();
                match guarded(|| huginn_net_db::Database::from_str(&t).is_ok()) {
                    Ok(ok) => r.outcome(&(what, ok, *ln % 64)),
                    Err(p) => r.dev(format!("C01/database-loader/panic/{}", panic_key(&p)), "panic", || json!({"line": ln, "mutation": what, "text": t, "detail": p})),
                }
                if t0.elapsed().as_millis() > SLOW_CALL_MS {
                    r.dev("C01/slow-call", "slow", || json!({"line": ln, "mutation": what, "text": t}));
                }
            };
            try_text(&mut r, text.clone(), "unchanged");
            for i in 0..chars.len() {
                let mut c = chars.clone();
                c.remove(i);
                try_text(&mut r, format!("{pre}{}", c.iter().collect::<String>()), "deletion");
                for g in GRAMMAR {
                    let mut c: Vec<String> = chars.iter().map(|c| c.to_string()).collect();
                    c.insert(i, g.to_string());
                    try_text(&mut r, format!("{pre}{}", c.concat()), "insertion");
                    let mut c: Vec<String> = chars.iter().map(|c| c.to_string()).collect();
                    c[i] = g.to_string();
                    try_text(&mut r, format!("{pre}{}", c.concat()), "replacement");
                }
            }
            // every maximal digit run replaced
            let mut i = 0;
            while i < chars.len() {
                if chars[i].is_ascii_digit() {
                    let mut j = i;
                    while j < chars.len() && chars[j].is_ascii_digit() {
                        j += 1;
                    }
                    for rep in ["256", "65536", "4294967296", "99999999999999999999", "-1", ""] {
                        let s: String = chars[..i].iter().collect::<String>() + rep + &chars[j..].iter().collect::<String>();
                        try_text(&mut r, format!("{pre}{s}"), "number");
                    }
                    i = j;
                } else {
                    i += 1;
                }
            }
            // line truncated at every length
            for i in 0..chars.len() {
                try_text(&mut r, format!("{pre}{}", chars[..i].iter().collect::<String>()), "truncation");
            }
        }
        slot_clear();
        r
    })
}

// ------------------------------------------------------------------------------------------------ capture files
/// `analyze_pcap` on a capture FILE that is cut short or whose container fields are corrupt: the four analyzers must
/// come back (Ok or Err) -- no panic, no endless loop -- and then analyse the intact capture as a fresh analyzer does.
/// The call runs on its own thread; when it is still running after `limit` the cancel flag the API offers is raised so
/// that the thread ends, and the run counts as non-terminating.
fn capture_file_run(bytes: &[u8], intact: &[u8], which: usize, limit: std::time::Duration) -> Result<(String, usize, usize), String> {
    use std::sync::atomic::{AtomicBool, AtomicU64, Ordering};
    static N: AtomicU64 = AtomicU64::new(0);
    let dir = std::env::var("HV_SCRATCH").unwrap_or_else(|_| "/dev/shm".to_string());
    let id = N.fetch_add(1, Ordering::Relaxed);
    let p1 = format!("{dir}/hv-{}-cf{id}a.pcap", std::process::id());
    let p2 = format!("{dir}/hv-{}-cf{id}b.pcap", std::process::id());
    std::fs::write(&p1, bytes).map_err(|e| format!("machinery: {e}"))?;
    std::fs::write(&p2, intact).map_err(|e| format!("machinery: {e}"))?;
    let cancel = Arc::new(AtomicBool::new(false));
    let c2 = cancel.clone();
    let (q1, q2) = (p1.clone(), p2.clone());
    let h = std::thread::spawn(move || {
        guarded(move || {
            let d = crate::drv::db_arc();
            macro_rules! two {
                ($a:expr) => {{
                    let mut a = $a;
                    let (tx, rx) = std::sync::mpsc::channel();
                    let r1 = a.analyze_pcap(&q1, tx, Some(c2.clone())).is_ok();
                    let n1 = rx.try_iter().count();
                    let (tx, rx) = std::sync::mpsc::channel();
                    let _ = a.analyze_pcap(&q2, tx, Some(c2.clone()));
                    (format!("{}", if r1 { "ok" } else { "err" }), n1, rx.try_iter().count())
                }};
            }
            match which {
                0 => two!(huginn_net_tcp::HuginnNetTcp::new(Some(d), 64).expect("analyzer")),
                1 => two!(huginn_net_http::HuginnNetHttp::new(Some(d), 64).expect("analyzer")),
                2 => two!(huginn_net_tls::HuginnNetTls::new(64)),
                _ => two!(huginn_net::HuginnNet::new(Some(crate::drv::db()), 64, None).expect("analyzer")),
            }
        })
    });
    let t = Instant::now();
    while !h.is_finished() && t.elapsed() < limit {
        std::thread::sleep(std::time::Duration::from_micros(200));
    }
    let hung = !h.is_finished();
    if hung {
        cancel.store(true, Ordering::Relaxed);
    }
    let r = h.join();
    let _ = std::fs::remove_file(&p1);
    let _ = std::fs::remove_file(&p2);
    if hung {
        return Err("does-not-terminate".into());
    }
    match r {
        Ok(Ok(x)) => Ok(x),
        Ok(Err(p)) => Err(format!("panic: {p}")),
        Err(_) => Err("panic: thread".into()),
    }
}
fn capture_file_variants(b: &[u8], thorough: bool) -> Vec<(String, Vec<u8>)> {
    let mut v = vec![];
    // record boundaries
    let mut bounds = vec![24usize];
    let mut i = 24;
    while i + 16 <= b.len() {
        let n = u32::from_le_bytes([b[i + 8], b[i + 9], b[i + 10], b[i + 11]]) as usize;
        i += 16 + n;
        if i <= b.len() {
            bounds.push(i);
        }
    }
    let mut cuts: Vec<usize> = if thorough { (0..b.len()).collect() } else { (0..b.len().min(120)).collect() };
    if !thorough {
        for w in bounds.windows(2) {
            for d in [0usize, 1, 7, 8, 15, 16, 17, 30] {
                cuts.push(w[0] + d);
            }
            cuts.push((w[0] + w[1]) / 2);
            cuts.push(w[1] - 1);
        }
    }
    cuts.sort();
    cuts.dedup();
    for c in cuts {
        if c < b.len() {
            v.push((format!("cut@{c}"), b[..c].to_vec()));
        }
    }
    // global header bytes
    for i in 0..24 {
        for x in QUICK_VALUES {
            if b[i] != x {
                let mut m = b.to_vec();
                m[i] = x;
                v.push((format!("header-byte{i}={x:#x}"), m));
            }
        }
    }
    // record header length fields of the first, a middle and the last record
    let recs = [0usize, bounds.len() / 2, bounds.len().saturating_sub(2)];
    for &k in &recs {
        let Some(&o) = bounds.get(k) else { continue };
        if o + 16 > b.len() {
            continue;
        }
        let n = u32::from_le_bytes([b[o + 8], b[o + 9], b[o + 10], b[o + 11]]);
        for field in [8usize, 12] {
            for val in [0u32, 1, n.wrapping_sub(1), n.wrapping_add(1), 65535, 65536, 0x7fff_ffff, 0xffff_ffff, (b.len() - o - 16) as u32, (b.len() - o - 15) as u32] {
                let mut m = b.to_vec();
                m[o + field..o + field + 4].copy_from_slice(&val.to_le_bytes());
                v.push((format!("record{k}-field{field}={val:#x}"), m));
            }
        }
    }
    v
}
fn run_capture_files(thorough: bool) -> Report {
    let mut items: Vec<(String, Vec<u8>, Arc<Vec<u8>>)> = vec![];
    for name in ["http-simple-get.pcap", "tls12.pcap", "tls-alpn-h2.pcap", "macos_tcp_flags.pcap"] {
        let Ok(b) = std::fs::read(format!("/repo/pcap/{name}")) else { continue };
        let intact = Arc::new(b.clone());
        for (vn, bytes) in capture_file_variants(&b, thorough) {
            items.push((format!("{name}/{vn}"), bytes, intact.clone()));
        }
    }
    let mut total = Report::new();
    if items.len() < 1000 {
        total.machinery_error(format!("capture-file family has only {} inputs (repository captures missing?)", items.len()));
    }
    // what the intact capture yields when it follows itself on one analyzer (the usage pattern of every run below)
    let mut fresh: std::collections::HashMap<String, Vec<Result<(String, usize, usize), String>>> = std::collections::HashMap::new();
    for (name, _, intact) in &items {
        let file = name.split('/').next().unwrap_or("").to_string();
        fresh.entry(file).or_insert_with(|| (0..4).map(|w| capture_file_run(intact, intact, w, std::time::Duration::from_secs(20))).collect());
    }
    let hangs = std::sync::atomic::AtomicUsize::new(0);
    let limit = std::time::Duration::from_millis(1500);
    let rep = par_slices(items.len(), 64, |rg| {
        let mut r = Report::new();
        for i in rg {
            let (name, bytes, intact) = &items[i];
            for which in 0..4usize {
                // after many non-terminating runs the family is cut short (each costs the full time limit)
                if hangs.load(std::sync::atomic::Ordering::Relaxed) > 40 {
                    continue;
                }
                r.exec(1);
                let an = ["tcp", "http", "tls", "unified"][which];
                let base = fresh[name.split('/').next().unwrap_or("")][which].clone();
                match (capture_file_run(bytes, intact, which, limit), base) {
                    (Err(e), _) if e.starts_with("machinery") => r.machinery_error(e),
                    (Err(e), _) => {
                        if e == "does-not-terminate" {
                            hangs.fetch_add(1, std::sync::atomic::Ordering::Relaxed);
                        }
                        let key = if e == "does-not-terminate" { format!("C01/capture-file/{an}/does-not-terminate") } else { format!("C01/capture-file/{an}/panic/{}", panic_key(&e)) };
                        r.dev(key, "capture-file", || json!({"kind": "capture-file", "input": name, "analyzer": an, "detail": e, "file_hex": hex(&bytes[..bytes.len().min(400)]), "file_len": bytes.len()}));
                    }
                    (Ok((st, n1, n2)), Ok((_, _, want))) => {
                        r.outcome(&("capture-file", an, st, n1.min(3)));
                        if n2 != want {
                            r.dev(format!("C01/capture-file/{an}/intact-capture-analysed-differently-afterwards"), "poisoned", || json!({"kind": "capture-file", "input": name, "analyzer": an, "results_after": n2, "results_fresh": want}));
                        }
                    }
                    (Ok(_), Err(e)) => r.machinery_error(format!("capture-file: the intact capture does not analyse: {e}")),
                }
            }
        }
        r
    });
    total.merge(rep)
}

// ------------------------------------------------------------------------------------------------ entry points
pub fn run(thorough: bool) -> Outcome {
    QUICK_LISTEN_ALL.store(thorough, std::sync::atomic::Ordering::Relaxed);
    // this check decides per slice whether anybody listens to the log (both environments occur in both tiers)
    crate::report::SECOND_PASS.store(false, std::sync::atomic::Ordering::Relaxed);
    // the pools' worker threads log only in the thorough tier (the same calls are listened to on the sequential path)
    crate::logsink::listen_default(thorough);
    huginn_net_tcp::uptime::verif_clock::set_global(T0);
    let fams = families(thorough);
    let sfams = stream_families(thorough);
    let mut names: Vec<String> = fams.iter().map(|f| f.name.clone()).collect();
    names.extend(sfams.iter().map(|f| f.name.clone()));
    names.resize(64, "database-text".into());
    start_watchdog(names, if thorough { "thorough".into() } else { "quick".into() });
    let mut total = Report::new();
    // the probe must be rich, otherwise the no-poisoning oracle is vacuous
    let e = expected();
    let se = stream_expected();
    let l = e.lens();
    if l[0] < 2 || l[1] < 4 || l[2] < 1 || l[3] < 7 || se.len() != 6 || !se[0].contains("Ok(Some") || !se[1].contains("Some(") {
        total.machinery_error(format!("probe is not rich enough: {l:?} / {se:?}"));
    }
    for k in 2..6 {
        if se.get(k).map(|s| s.ends_with("None")).unwrap_or(true) {
            total.machinery_error(format!("stream probe {k} yields nothing"));
        }
    }
    total.sample(|| json!({"probe_results_per_analyzer": {"tcp": l[0], "http": l[1], "tls": l[2], "unified": l[3]}, "stream_probe": se.iter().map(|s| s[..s.len().min(120)].to_string()).collect::<Vec<_>>()}));
    let mut sizes = vec![];
    for (fi, f) in fams.iter().enumerate() {
        let t = Instant::now();
        let r = run_family(fi, f, true);
        sizes.push(json!({"family": f.name, "inputs": f.len, "wall_s": t.elapsed().as_secs_f64()}));
        total = total.merge(r);
    }
    for (fi, f) in sfams.iter().enumerate() {
        let t = Instant::now();
        let r = run_stream_family(fams.len() + fi, f);
        sizes.push(json!({"family": f.name, "inputs": f.len, "wall_s": t.elapsed().as_secs_f64()}));
        total = total.merge(r);
    }
    // the environment's other input: the wall clock between two timestamped segments (steps backwards, jumps)
    let t = Instant::now();
    let mut r = Report::new();
    for sc in crate::props::c19::clock_step_scenarios() {
        r.exec(sc.segs.len() as u64);
        if let Err(p) = crate::props::c19::run_impl(&sc) {
            r.dev(format!("C01/clock-steps/panic/{}", panic_key(&p)), "panic", || json!({"kind": "clock-steps", "scenario": sc, "detail": p}));
        }
    }
    huginn_net_tcp::uptime::verif_clock::clear_local();
    sizes.push(json!({"family": "clock-steps", "inputs": r.evaluations, "wall_s": t.elapsed().as_secs_f64()}));
    total = total.merge(r);
    let t = Instant::now();
    let r = run_capture_files(thorough);
    sizes.push(json!({"family": "capture-files", "inputs": r.evaluations, "wall_s": t.elapsed().as_secs_f64()}));
    total = total.merge(r);
    let t = Instant::now();
    let r = run_db(thorough);
    sizes.push(json!({"family": "database-text", "inputs": r.evaluations, "wall_s": t.elapsed().as_secs_f64()}));
    total = total.merge(r);
    huginn_net_tcp::uptime::verif_clock::clear_global();
    crate::logsink::listen_default(true);
    Outcome {
        report: total,
        rule: "every input of every family (frames: TCP option space, option pairs, IP header grid, link-layer grid, every truncation / bit flip / header-byte and payload-byte rewrite of every frame of 17 connections and of the 4 repository captures in the context of its connection; streams: all short byte strings, one multi-byte character at every byte offset 0..300 (and around 1 Ki / 4 Ki / 8 Ki) of well-formed and malformed start lines, header names and values, TLS record header grid, every record length, HTTP/2 frame header grid, HPACK blocks, mutations of valid records / frame sequences / heads; capture files: the 4 repository captures cut at every length near every record boundary (thorough: every length), every header byte rewritten, record length fields set to boundary values, through analyze_pcap of the four analyzers followed by the intact capture on the same analyzer (must return, and then analyse the intact capture like a fresh analyzer); clock: timestamped segments of one endpoint with the wall clock stepping backwards / jumping between them; database: every line with deletions, insertions, replacements, numeric overflows, truncations) is fed to the sequential TCP, HTTP, TLS and unified analyzers, the pre-parse filters and dispatch hashes (stream inputs: ClientHello reader, HTTP/2 extractor, one-shot Akamai extractor, request and response parsers; text: database loader); no panic (overflow checks on), no call above 2 s, watchdog for non-termination; after EVERY input a 17-frame probe on the same long-lived instance equals the fresh-instance probe; every slice also through a real 1-worker pool of each kind followed by the probe; distinct = slices x timing bands / loader outcomes".into(),
        exhaustive: true,
        bounds: json!({"families": sizes, "header_byte_values": if thorough { 256 } else { QUICK_VALUES.len() }, "slice_inputs": 4096}),
    }
}

pub fn replay(ex: &Value) -> Report {
    let mut r = Report::new();
    set_clock(T0);
    if ex["kind"].as_str() == Some("clock-steps") {
        match serde_json::from_value::<crate::props::c19::Scn>(ex["scenario"].clone()) {
            Ok(sc) => {
                if let Err(p) = crate::props::c19::run_impl(&sc) {
                    r.dev(format!("C01/clock-steps/panic/{}", panic_key(&p)), "panic", || json!({"detail": p}));
                }
            }
            Err(_) => r.machinery_error("bad replay file"),
        }
        huginn_net_tcp::uptime::verif_clock::clear_local();
    } else if let Some(h) = ex.get("history").and_then(|h| h.as_array()) {
        let hist: Vec<Vec<Vec<u8>>> = h.iter().map(|t| t.as_array().map(|a| a.iter().map(|f| unhex(f.as_str().unwrap_or(""))).collect()).unwrap_or_default()).collect();
        if let Some(d) = reproduce(&hist) {
            r.dev("C01/replay/probe-differs", "poisoned", || json!({"detail": d}));
        }
    } else if let Some(fr) = ex.get("frames").and_then(|h| h.as_array()) {
        let t: Vec<Vec<u8>> = fr.iter().map(|f| unhex(f.as_str().unwrap_or(""))).collect();
        let mut s = Session::new();
        let pu = pure();
        let mut slow = 0;
        for f in &t {
            for (n, p) in pure_calls(&pu, f).into_iter().chain(s.feed(f, &mut slow)) {
                r.dev(format!("C01/{n}/panic/{}", panic_key(&p)), "panic", || json!({"detail": p}));
            }
        }
    } else if let Some(st) = ex.get("stream").and_then(|s| s.as_str()) {
        let x = unhex(st);
        let mut s = StreamSession::new();
        for (n, p) in s.feed(&x) {
            r.dev(format!("C01/{n}/panic/{}", panic_key(&p)), "panic", || json!({"detail": p}));
        }
        match s.probe(&stream_probe()) {
            Ok(g) if g == *stream_expected() => {}
            other => r.dev("C01/replay/stream-probe-differs", "poisoned", || json!({"got": format!("{other:?}")})),
        }
    } else if let Some(t) = ex.get("text").and_then(|s| s.as_str()) {
        if let Err(p) = guarded(|| huginn_net_db::Database::from_str(t).is_ok()) {
            r.dev("C01/database-loader/panic", "panic", || json!({"detail": p}));
        }
    } else {
        r.machinery_error("replay record without frames / history / stream / text (slice-level records are replayed by re-running the check)");
    }
    r.exec(1);
    r
}
