//! C03 — TCP handshake packets are rendered into the p0f signature their headers define.
//! Frames are built field by field; the expectation comes from the reference renderer (refm::p0f), never
//! from parsing bytes. Every dimension is taken over its whole domain at several base frames, all pairs of
//! alphabet values across dimensions are covered, option sequences are enumerated by DFS, and the whole
//! (kind, length, offset) space of a single TCP option is walked.
use crate::drv::{TcpRes, TcpSeq};
use crate::gen::pkt::{self, Link, Spec, ACK, CWR, ECE, FIN, PSH, RST, SYN, URG};
use crate::refm::p0f::{normalise, reference, render, Expected, Role, Sw};
use crate::report::{guarded, hex, par_slices, Report};
use crate::Outcome;
use huginn_net_db::Database;
use serde_json::{json, Value};

pub fn db() -> &'static Database {
    crate::drv::db()
}
fn link_label(mtu: u16) -> Option<String> {
    db().mtu.iter().find(|(_, v)| v.contains(&mtu)).map(|(l, _)| l.clone())
}

fn matches(e: &Expected, a: &TcpRes, s: &Spec) -> bool {
    let ip = |id: u8| if s.v6 { format!("2001::{id:x}") } else { format!("10.0.0.{id}") };
    let (src, dst) = (format!("{}:{}", ip(s.src), s.sport), format!("{}:{}", ip(s.dst), s.dport));
    let ends_ok = |a: &TcpRes| a.src.as_deref() == Some(&src) && a.dst.as_deref() == Some(&dst);
    match e.role {
        Role::Error | Role::None => a.syn.is_none() && a.syn_ack.is_none() && a.mtu.is_none(),
        Role::Client => {
            let Some(sig) = &a.syn else { return false };
            if a.syn_ack.is_some() || !render(e).contains(&normalise(sig)) || !ends_ok(a) {
                return false;
            }
            match (&a.mtu, e.mtu) {
                (None, None) => true,
                (Some((v, label, _q)), Some(m)) => *v == m && *label == link_label(*v),
                _ => false,
            }
        }
        Role::Server => {
            let Some(sig) = &a.syn_ack else { return false };
            a.syn.is_none() && a.mtu.is_none() && render(e).contains(&normalise(sig)) && ends_ok(a)
        }
    }
}

const SWITCH_SETS: [(bool, bool, bool); 8] = [(false, false, false), (true, false, false), (false, true, false), (false, false, true), (true, true, false), (true, false, true), (false, true, true), (true, true, true)];

fn diff_class(e: &Expected, a: &TcpRes) -> String {
    let sig = a.syn.clone().or(a.syn_ack.clone());
    match (e.role, &sig) {
        (Role::Error | Role::None, Some(_)) => return "signature-for-non-handshake-or-invalid-segment".into(),
        (Role::Client | Role::Server, None) => return format!("no-signature{}", a.err.as_ref().map(|e| format!(" ({e})")).unwrap_or_default()),
        (Role::Client, _) if a.syn.is_none() => return "role".into(),
        (Role::Server, _) if a.syn_ack.is_none() => return "role".into(),
        _ => {}
    }
    let Some(sig) = sig else { return "mtu-for-non-syn".into() };
    let got = normalise(&sig);
    let exp = render(e);
    let g: Vec<&str> = got.split(':').collect();
    let x: Vec<&str> = exp[0].split(':').collect();
    if g.len() != 8 {
        return "signature-shape".into();
    }
    let names = ["ver", "ittl", "olen", "mss", "wsize-or-scale", "olayout", "quirks", "pclass"];
    let d: Vec<&str> = (0..8).filter(|&i| g[i] != x[i] && !(i == 4 && exp.iter().any(|e2| e2.split(':').nth(4) == Some(g[4])))).map(|i| names[i]).collect();
    if d.is_empty() {
        if e.role == Role::Client && a.mtu.as_ref().map(|m| m.0) != e.mtu {
            return "mtu".into();
        }
        if let Some((v, l, _)) = &a.mtu {
            if *l != link_label(*v) {
                return "link-label".into();
            }
        }
        return "endpoints".into();
    }
    d.join("+")
}

pub fn check_frame(r: &mut Report, s: &Spec, link: Link, unified: bool, family: &str) {
    let ip = pkt::build(s);
    let frame = pkt::frame(link, &ip);
    r.exec(1);
    let got = guarded(|| {
        if unified {
            // every protocol step switched on (the default): the TCP fields must survive whatever the HTTP and TLS steps make of the payload
            let cfg = huginn_net::AnalysisConfig { http_enabled: true, tcp_enabled: true, tls_enabled: true, matcher_enabled: true };
            let mut a = huginn_net::HuginnNet::new(Some(db()), 8, Some(cfg)).expect("analyzer");
            crate::drv::uni_res(&a.analyze_tcp(&frame)).tcp
        } else {
            TcpSeq::new(Some(db()), 8).feed(&frame)
        }
    });
    let a = match got {
        Ok(a) => a,
        Err(p) => {
            r.dev("C03/panic", "panic", || json!({"spec": s, "link": link, "unified": unified, "frame": hex(&frame), "detail": p}));
            return;
        }
    };
    r.outcome(&(a.syn.as_ref().or(a.syn_ack.as_ref()), a.mtu.as_ref().map(|m| m.0), a.syn.is_some()));
    r.sample(|| json!({"family": family, "spec": s, "observed": a}));
    let strict = reference(s, Sw::default());
    for (i, (l, m, n)) in SWITCH_SETS.iter().enumerate() {
        let sw = Sw { eol_continues: *l, mtu_actual_headers: *m, non_syn_is_server: *n };
        // a switch that cannot change this frame's expectation is not tried (keeps attribution minimal)
        let e = if i == 0 { strict.clone() } else { reference(s, sw) };
        if !matches(&e, &a, s) {
            continue;
        }
        if i == 0 {
            return;
        }
        let mut record = |key: &str| {
            r.dev(format!("C03/{key}"), key, || json!({"spec": s, "link": link, "unified": unified, "frame": hex(&frame), "expected": render(&strict), "expected_mtu": strict.mtu, "expected_role": format!("{:?}", strict.role), "actual": a, "family": family}));
        };
        if *l {
            record("options-after-eol-are-parsed");
        }
        if *m {
            record("mtu-adds-actual-header-lengths");
        }
        if *n {
            record("non-handshake-segment-rendered-as-syn-ack");
        }
        return;
    }
    let class = diff_class(&strict, &a);
    r.dev(format!("C03/{class}"), class.clone(), || json!({"spec": s, "link": link, "unified": unified, "frame": hex(&frame), "expected": render(&strict), "expected_mtu": strict.mtu, "expected_role": format!("{:?}", strict.role), "actual": a, "family": family}));
}

// ---------- alphabets ----------
pub fn mss_opt(v: u16) -> Vec<u8> {
    vec![2, 4, (v >> 8) as u8, v as u8]
}
pub fn ts_opt(a: u32, b: u32) -> Vec<u8> {
    let mut o = vec![8, 10];
    o.extend(a.to_be_bytes());
    o.extend(b.to_be_bytes());
    o
}
pub fn pad4(mut v: Vec<u8>, fill: u8) -> Vec<u8> {
    while v.len() % 4 != 0 {
        v.push(fill);
    }
    v
}
fn typical_opts() -> Vec<u8> {
    let mut o = mss_opt(1460);
    o.extend([4, 2]);
    o.extend(ts_opt(0x01020304, 0));
    o.extend([1, 3, 3, 7]);
    o
}
pub fn bases() -> Vec<Spec> {
    let d = Spec::default();
    vec![
        Spec { opts: typical_opts(), ..d.clone() },
        Spec { v6: true, opts: typical_opts(), ..d.clone() },
        Spec { flags: SYN | ACK, ack: 5, opts: typical_opts(), sport: 80, dport: 40000, src: 2, dst: 1, ttl: 57, ..d.clone() },
        Spec { v6: true, flags: SYN | ACK, ack: 5, opts: pad4(mss_opt(1440), 1), ttl: 250, ..d.clone() },
        Spec { flags: ACK | PSH, ack: 5, payload: b"GET / HTTP/1.1\r\n\r\n".to_vec(), opts: pad4(ts_opt(7, 9), 1), ..d.clone() },
        Spec { v6: true, flags: ACK, ack: 5, opts: vec![], ..d.clone() },
    ]
}

type Mod = Box<dyn Fn(&mut Spec) + Sync + Send>;
fn m(f: impl Fn(&mut Spec) + Sync + Send + 'static) -> Mod {
    Box::new(f)
}
/// (dimension name, full domain, reduced alphabet used in the all-pairs product)
fn dimensions() -> Vec<(&'static str, Vec<Mod>, Vec<Mod>)> {
    let mut dims: Vec<(&'static str, Vec<Mod>, Vec<Mod>)> = vec![];
    // flags x seq x ack x urg
    let mut full = vec![];
    for f in 0..=255u8 {
        for seq in [0u32, 1] {
            for ack in [0u32, 1] {
                for urg in [0u16, 1] {
                    full.push(m(move |s| {
                        s.flags = f;
                        s.seq = seq;
                        s.ack = ack;
                        s.urg = urg;
                    }));
                }
            }
        }
    }
    let mut red = vec![];
    for f in [SYN, SYN | ACK, ACK, SYN | ECE | CWR, SYN | PSH | URG, RST, FIN | ACK, SYN | FIN, 0] {
        for (seq, ack, urg) in [(1000u32, 0u32, 0u16), (0, 7, 3)] {
            red.push(m(move |s| {
                s.flags = f;
                s.seq = seq;
                s.ack = ack;
                s.urg = urg;
            }));
        }
    }
    dims.push(("flags-seq-ack-urg", full, red));
    // TTL
    dims.push(("ttl", (0..=255u8).map(|t| m(move |s| s.ttl = t)).collect(), [0u8, 1, 32, 33, 34, 64, 65, 98, 128, 129, 224, 225, 255].iter().map(|&t| m(move |s| s.ttl = t)).collect()));
    // IP bits (v4: DF, MF, reserved, ID, ECN, fragment offset; v6: flow label, traffic-class ECN)
    let mut full = vec![];
    for df in [false, true] {
        for mf in [false, true] {
            for res in [false, true] {
                for id in [0u16, 1, 0xffff] {
                    for ecn in 0..4u8 {
                        for frag in [0u16, 1] {
                            for flow in [0u32, 1, 0xFFFFF] {
                                full.push(m(move |s| {
                                    s.df = df;
                                    s.mf = mf;
                                    s.res = res;
                                    s.id = id;
                                    s.ecn = ecn;
                                    s.frag_off = frag;
                                    s.flow = flow;
                                }));
                            }
                        }
                    }
                }
            }
        }
    }
    let mut red = vec![];
    for (df, res, id, ecn, flow) in [(true, false, 1u16, 0u8, 0u32), (true, false, 0, 0, 0), (false, false, 0, 0, 0), (false, false, 9, 0, 0), (true, true, 9, 2, 5), (false, true, 0, 1, 0xFFFFF)] {
        red.push(m(move |s| {
            s.df = df;
            s.res = res;
            s.id = id;
            s.ecn = ecn;
            s.flow = flow;
        }));
    }
    dims.push(("ip-bits", full, red));
    // every single bit of every wide field whose zero-ness (or value) decides a quirk: a mask that is one digit short, a
    // comparison on a truncated copy, a field read at the wrong width all show on one of these
    let mut bits: Vec<Mod> = vec![];
    for k in 0..20u32 {
        bits.push(m(move |s| s.flow = 1 << k));
        bits.push(m(move |s| s.flow = 0xFFFFF ^ (1 << k)));
    }
    for k in 0..16u32 {
        bits.push(m(move |s| s.id = 1 << k));
        bits.push(m(move |s| s.urg = 1 << k));
        bits.push(m(move |s| {
            s.urg = 1 << k;
            s.flags |= URG;
        }));
    }
    for k in 0..32u32 {
        bits.push(m(move |s| s.seq = 1 << k));
        bits.push(m(move |s| s.ack = 1 << k));
        bits.push(m(move |s| s.opts = [vec![1, 1], ts_opt(1 << k, 0)].concat()));
        bits.push(m(move |s| s.opts = [vec![1, 1], ts_opt(7, 1 << k)].concat()));
    }
    for k in 0..13u32 {
        bits.push(m(move |s| s.frag_off = if s.v6 { 0 } else { 1 << k }));
    }
    let red_bits: Vec<Mod> = vec![m(|s| s.flow = 0x10000), m(|s| s.id = 0x100), m(|s| s.seq = 0x0100_0000), m(|s| s.ack = 0x0001_0000)];
    dims.push(("single-bits-of-wide-fields", bits, red_bits));
    // IHL
    dims.push(("ihl", (0..=10u8).map(|w| m(move |s| s.ip_opt_words = if s.v6 { 0 } else { w })).collect(), [0u8, 1, 10].iter().map(|&w| m(move |s| s.ip_opt_words = if s.v6 { 0 } else { w })).collect()));
    // payload
    // sizes, and contents that the other protocol analyzers of the unified pipeline react to (an unfinished TLS record, a
    // complete non-hello record, the HTTP/2 preface, unfinished HTTP/1 heads): the TCP rendering must not depend on them
    // (lengths whose low byte is zero: a class taken from a narrowed length would read them as empty)
    let mut pay_full: Vec<Mod> = [0usize, 1, 255, 256, 257, 512, 1024, 1460, 4096, 8192].iter().map(|&n| m(move |s| s.payload = vec![b'a'; n])).collect();
    for content in [
        vec![0x16u8, 3, 1, 2, 0, 1, 0, 1, 0xfc, 3, 3, 7, 7, 7, 7, 7, 7, 7, 7],
        vec![0x16, 3, 3, 0, 4, 14, 0, 0, 0],
        vec![0x16, 3, 4, 0xff, 0xff, 1],
        b"PRI * HTTP/2.0\r\n\r\nSM\r\n\r\n".to_vec(),
        b"GET / HTTP/1.1\r\nHost: x".to_vec(),
        b"HTTP/1.1 200 OK\r\nServer".to_vec(),
    ] {
        pay_full.push(m(move |s| s.payload = content.clone()));
    }
    dims.push(("payload", pay_full, [0usize, 1].iter().map(|&n| m(move |s| s.payload = vec![b'a'; n])).collect()));
    // window x MSS x TS (the full 65536-window sweep is a separate family)
    let win_red: Vec<u16> = vec![0, 1, 541, 576, 1460, 2920, 4096, 4380, 5840, 8192, 14480, 16384, 29200, 32120, 43800, 65535, 1500, 4500, 1440 * 3, 1500 - 52, 1412, 1432, 2 * 1488, 3 * (1460 + 40), 3 * (1440 + 60), 2 * (1460 + 64)];
    let mss_alpha: Vec<Option<u16>> = vec![None, Some(0), Some(99), Some(100), Some(536), Some(1400), Some(1440), Some(1452), Some(1460), Some(8960), Some(65535)];
    let mut full = vec![];
    for &w in &win_red {
        for &ms in &mss_alpha {
            for ts in [false, true] {
                full.push(m(move |s| {
                    s.window = w;
                    let mut o = vec![];
                    if let Some(v) = ms {
                        o.extend(mss_opt(v));
                    }
                    if ts {
                        o.extend(ts_opt(5, 0));
                    }
                    s.opts = pad4(o, 1);
                }));
            }
        }
    }
    let mut red = vec![];
    for (w, ms, ts) in [(5840u16, Some(1460u16), false), (43440, Some(1460), true), (8192, Some(1460), false), (4500, Some(1460), false), (4500, None, false), (12345, Some(1460), true), (0, Some(1460), false), (3 * 1500, Some(99), false)] {
        red.push(m(move |s| {
            s.window = w;
            let mut o = vec![];
            if let Some(v) = ms {
                o.extend(mss_opt(v));
            }
            if ts {
                o.extend(ts_opt(5, 0));
            }
            s.opts = pad4(o, 1);
        }));
    }
    dims.push(("window-mss-ts", full, red));
    dims
}

fn option_kinds() -> Vec<Vec<u8>> {
    vec![
        vec![0],
        vec![1],
        mss_opt(1460),
        mss_opt(0),
        vec![3, 3, 0],
        vec![3, 3, 7],
        vec![3, 3, 14],
        vec![3, 3, 15],
        vec![3, 3, 255],
        vec![4, 2],
        vec![5, 10, 0, 0, 0, 1, 0, 0, 0, 2],
        ts_opt(0, 0),
        ts_opt(0x0a0b0c0d, 0),
        ts_opt(0x0a0b0c0d, 0x01010101),
        ts_opt(0, 0x01010101),
        vec![254, 2],
        vec![30, 4, 0xaa, 0xbb],
    ]
}
/// every sequence of <= max options whose bytes fit in 40, each with the three ways to reach 4-byte alignment
fn option_sequences(max: usize) -> Vec<Vec<u8>> {
    let kinds = option_kinds();
    let mut out = vec![];
    let mut stack: Vec<(Vec<u8>, usize)> = vec![(vec![], 0)];
    while let Some((bytes, n)) = stack.pop() {
        if bytes.len() % 4 == 0 {
            out.push(bytes.clone());
        } else {
            let need = 4 - bytes.len() % 4;
            // pad with NOPs, with EOL + zeros, with EOL + non-zero bytes
            let mut a = bytes.clone();
            a.extend(vec![1; need]);
            out.push(a);
            let mut b = bytes.clone();
            b.extend(vec![0; need]);
            out.push(b);
            if need >= 2 {
                let mut c = bytes.clone();
                c.push(0);
                c.extend(vec![9; need - 1]);
                out.push(c);
            }
        }
        if n < max {
            for k in &kinds {
                if bytes.len() + k.len() <= 40 {
                    let mut nb = bytes.clone();
                    nb.extend(k);
                    stack.push((nb, n + 1));
                }
            }
        }
    }
    out
}
/// EOL at every position after a prefix, every padding length, zero / NOP-valued / other padding
fn eol_family() -> Vec<Vec<u8>> {
    let mut out = vec![];
    let mut p3 = mss_opt(1460);
    p3.extend([1, 3, 3, 7]);
    for prefix in [vec![], mss_opt(1460), p3, ts_opt(5, 0), vec![1, 1, 1]] {
        for pad in 0..=(39 - prefix.len()) {
            if (prefix.len() + 1 + pad) % 4 != 0 {
                continue;
            }
            for fill in [0u8, 1, 9, 2] {
                let mut o = prefix.clone();
                o.push(0);
                o.extend(vec![fill; pad]);
                out.push(o);
                if pad == 0 {
                    break;
                }
            }
        }
    }
    out
}
/// one option (kind k, length byte l) at offset p after p NOPs, tail filled, data offset just enough or 15 words
fn single_option_space(ks: &[u8], ls: &[u8], ps: &[usize], fills: &[u8]) -> Vec<Vec<u8>> {
    let mut out = vec![];
    for &p in ps {
        for &k in ks {
            for &l in ls {
                for &fill in fills {
                    for full_area in [false, true] {
                        let mut o = vec![1u8; p];
                        o.push(k);
                        if p + 1 < 40 {
                            o.push(l);
                        }
                        let target = if full_area { 40 } else { (o.len() + 3) / 4 * 4 };
                        while o.len() < target {
                            o.push(fill);
                        }
                        if o.len() <= 40 {
                            out.push(o);
                        }
                    }
                }
            }
        }
    }
    out
}

pub fn run(thorough: bool) -> Outcome {
    let bases = bases();
    let dims = dimensions();
    let mut total = Report::new();
    // (1) singles: every dimension over its whole domain at every base, raw IP framing; unified analyzer on the first base
    for (name, full, _) in &dims {
        let n = full.len() * bases.len();
        let rep = par_slices(n, 64, |rg| {
            let mut r = Report::new();
            for i in rg {
                let (bi, vi) = (i / full.len(), i % full.len());
                let mut s = bases[bi].clone();
                full[vi](&mut s);
                check_frame(&mut r, &s, Link::RawIp, false, name);
                if bi < 2 {
                    check_frame(&mut r, &s, Link::RawIp, true, name);
                }
            }
            r
        });
        total = total.merge(rep);
    }
    // (2) all pairs of reduced alphabet values across every pair of dimensions, at every base
    for i in 0..dims.len() {
        for j in (i + 1)..dims.len() {
            let (a, b) = (&dims[i].2, &dims[j].2);
            let n = a.len() * b.len() * bases.len();
            let rep = par_slices(n, 64, |rg| {
                let mut r = Report::new();
                for x in rg {
                    let bi = x / (a.len() * b.len());
                    let (ai, bj) = ((x / b.len()) % a.len(), x % b.len());
                    let mut s = bases[bi].clone();
                    a[ai](&mut s);
                    b[bj](&mut s);
                    check_frame(&mut r, &s, Link::RawIp, false, "pairs");
                }
                r
            });
            total = total.merge(rep);
        }
    }
    // (3) framings: every base under Ethernet / raw / loopback must give the same rendering
    for b in &bases {
        // loopback framing as the analyzers document it: the 4-byte NULL header `1e 00 00 00`
        let mut links = vec![Link::Ethernet, Link::RawIp, Link::Null(0x1e), Link::EthernetTrailer];
        // Ethernet frames whose MAC addresses another framing would also accept
        links.extend(pkt::AMBIGUOUS_MACS.iter().map(|(_, m)| Link::EthernetMacs(*m)));
        for link in links {
            check_frame(&mut total, b, link, false, "framing");
            check_frame(&mut total, b, link, true, "framing");
        }
    }
    // (4) all 65536 windows x MSS alphabet x TS x version
    let mss_sweep: Vec<Option<u16>> = if thorough { vec![None, Some(0), Some(99), Some(100), Some(536), Some(1360), Some(1400), Some(1440), Some(1452), Some(1460), Some(8960), Some(65535)] } else { vec![None, Some(99), Some(100), Some(1440), Some(1460)] };
    let combos: Vec<(bool, Option<u16>, bool)> = [false, true].iter().flat_map(|&v6| mss_sweep.iter().flat_map(move |&ms| [false, true].iter().map(move |&ts| (v6, ms, ts)).collect::<Vec<_>>()).collect::<Vec<_>>()).collect();
    let rep = par_slices(65536 * combos.len(), 256, |rg| {
        let mut r = Report::new();
        for i in rg {
            let (v6, ms, ts) = combos[i / 65536];
            let mut o = vec![];
            if let Some(v) = ms {
                o.extend(mss_opt(v));
            }
            if ts {
                o.extend(ts_opt(5, 0));
            }
            let s = Spec { v6, window: (i % 65536) as u16, opts: pad4(o, 1), ..Spec::default() };
            check_frame(&mut r, &s, Link::RawIp, false, "window-sweep");
        }
        r
    });
    total = total.merge(rep);
    // (5) option sequences (DFS) on SYN v4, SYN+ACK v6
    let seqs = option_sequences(if thorough { 4 } else { 3 });
    let eols = eol_family();
    let all_opts: Vec<&Vec<u8>> = seqs.iter().chain(eols.iter()).collect();
    let rep = par_slices(all_opts.len(), 256, |rg| {
        let mut r = Report::new();
        for i in rg {
            let s = Spec { opts: all_opts[i].clone(), ..Spec::default() };
            check_frame(&mut r, &s, Link::RawIp, false, "option-sequences");
            let s = Spec { v6: true, flags: SYN | ACK, ack: 9, opts: all_opts[i].clone(), ..Spec::default() };
            check_frame(&mut r, &s, Link::RawIp, false, "option-sequences");
        }
        r
    });
    total = total.merge(rep);
    // (6) the single-option (kind, length, offset, tail) space
    let (ks, ls, ps): (Vec<u8>, Vec<u8>, Vec<usize>) = if thorough {
        ((0..=255).collect(), (0..=255).collect(), (0..=38).collect())
    } else {
        (vec![0, 1, 2, 3, 4, 5, 6, 7, 8, 9, 30, 34, 254, 255], vec![0, 1, 2, 3, 4, 5, 6, 7, 8, 9, 10, 11, 12, 34, 35, 40, 41, 255], vec![0, 1, 2, 3, 28, 29, 30, 34, 35, 36, 37, 38])
    };
    let space = single_option_space(&ks, &ls, &ps, &[0, 1, 0xff]);
    let rep = par_slices(space.len(), 256, |rg| {
        let mut r = Report::new();
        for i in rg {
            let s = Spec { opts: space[i].clone(), ..Spec::default() };
            check_frame(&mut r, &s, Link::RawIp, false, "single-option-space");
        }
        r
    });
    total = total.merge(rep);
    total = total.merge(mtu_labels());
    Outcome {
        report: total,
        rule: "frames built from descriptions: every dimension (flags x seq/ack/urg zero-ness; TTL; DF/MF/reserved/ID/ECN/fragment/flow label; every single bit of flow label, IP id, sequence and acknowledgement numbers, urgent pointer, fragment offset and both timestamp values; IHL; payload; window x MSS x TS) over its whole domain at 6 base frames (v4/v6 x SYN/SYN+ACK/ACK), all pairs of alphabet values across dimensions, 4 framings (incl. Ethernet padding and a captured frame check sequence behind the IP packet), all 65536 windows x MSS alphabet x TS x version, DFS over option sequences with three alignment paddings, EOL at every position with every padding, the (kind,length,offset,tail) space of one option; link labels: 5 databases whose [mtu] groups are unsorted / repeated / shared between groups x every MSS 0..65535 x IPv4/IPv6 SYN (label of the first group in file order that lists the MTU); through the TCP pipeline and the unified analyzer; distinct = distinct (signature text, MTU, role) outcomes".into(),
        exhaustive: true,
        bounds: json!({"option_sequences": seqs.len(), "max_options_in_sequence": if thorough {4} else {3}, "single_option_space": space.len(), "window_sweep_mss": mss_sweep.len()}),
    }
}

/// The link label of a SYN is looked up in the database's [mtu] groups, whatever their order: databases whose groups
/// list their values unsorted, repeated, and shared between groups (the first group in file order wins), every MSS
/// 0..65535 as IPv4 and IPv6 SYN through the TCP pipeline, the unified analyzer and `matching_by_mtu` itself.
fn mtu_labels() -> Report {
    let layouts: Vec<Vec<(&str, Vec<u16>)>> = vec![
        vec![("alpha", vec![1500, 576, 1500]), ("beta", vec![9000, 576, 1, 41]), ("gamma", vec![65535, 1280, 40, 60, 100])],
        vec![("descending", vec![65535, 9000, 1500, 1492, 576, 296, 61, 60, 41, 40, 0])],
        vec![("ascending", vec![0, 40, 41, 60, 61, 296, 576, 1492, 1500, 9000, 65535])],
        vec![("one", vec![1500]), ("two", vec![1499]), ("three", vec![1501]), ("again-one", vec![1500, 1400])],
        vec![("zigzag", vec![1000, 2000, 500, 3000, 250, 4000, 125, 65000, 60])],
    ];
    let mut total = Report::new();
    for (li, layout) in layouts.iter().enumerate() {
        let mut text = String::from("classes = unix,win,other\n\n[mtu]\n\n");
        for (l, vs) in layout {
            text.push_str(&format!("label = {l}\n"));
            for v in vs {
                text.push_str(&format!("sig   = {v}\n"));
            }
            text.push('\n');
        }
        let dbx: Database = match text.parse() {
            Ok(d) => d,
            Err(e) => {
                total.machinery_error(format!("mtu-labels: database text does not load: {e:?}"));
                continue;
            }
        };
        let want = |mtu: u16| layout.iter().find(|(_, vs)| vs.contains(&mtu)).map(|(l, _)| l.to_string());
        if layout.iter().all(|(_, vs)| vs.iter().all(|v| want(*v).is_none())) {
            total.machinery_error("mtu-labels: vacuous layout");
        }
        let rep = par_slices(65536, 4096, |rg| {
            let mut r = Report::new();
            let m = huginn_net_tcp::SignatureMatcher::new(&dbx);
            let mut seq = TcpSeq::new(Some(&dbx), 4);
            let mut uni = huginn_net::HuginnNet::new(Some(&dbx), 4, Some(huginn_net::AnalysisConfig { http_enabled: false, tcp_enabled: true, tls_enabled: false, matcher_enabled: true })).ok();
            for v in rg {
                let v = v as u16;
                r.exec(1);
                let direct = guarded(|| m.matching_by_mtu(&v).map(|(l, _)| l.clone()));
                if direct != Ok(want(v)) {
                    r.dev("C03/mtu-label/lookup-differs-from-database", "mtu-label", || json!({"kind": "mtu-label", "layout": li, "mtu": v, "expected": want(v), "actual": format!("{direct:?}")}));
                }
                for v6 in [false, true] {
                    let Some(mtu) = v.checked_add(if v6 { 60 } else { 40 }) else { continue };
                    let f = pkt::build(&Spec { v6, flags: SYN, opts: pad4(mss_opt(v), 1), sport: 40000 + (v % 1000), ..Spec::default() });
                    // the MTU value itself is judged by the main check (and is a known finding: actual instead of minimal
                    // header lengths); here the label must be the database's label for the value that IS reported
                    let _ = mtu;
                    let a = guarded(|| seq.feed(&f).mtu);
                    let got = a.clone().map(|x| x.map(|(m, l, _)| (m, l)));
                    let e = got.clone().ok().flatten().map(|(m, _)| (m, want(m)));
                    let mtu = e.as_ref().map(|x| x.0).unwrap_or(0);
                    if got != Ok(e.clone()) || e.is_none() {
                        r.dev("C03/mtu-label/syn-label-differs-from-database", "mtu-label", || json!({"kind": "mtu-label", "layout": li, "mss": v, "v6": v6, "expected": format!("{e:?}"), "actual": format!("{a:?}")}));
                    }
                    r.outcome(&("mtu-label", li, want(mtu).is_some()));
                    if v % 16 == 0 || want(mtu).is_some() {
                        if let Some(u) = uni.as_mut() {
                            let a = guarded(|| crate::drv::uni_res(&u.analyze_tcp(&f)).tcp.mtu);
                            let got = a.clone().map(|x| x.map(|(m, l, _)| (m, l)));
                            if got != Ok(e.clone()) {
                                r.dev("C03/mtu-label/unified-label-differs-from-database", "mtu-label", || json!({"kind": "mtu-label", "layout": li, "mss": v, "v6": v6, "expected": format!("{e:?}"), "actual": format!("{a:?}")}));
                            }
                        }
                    }
                }
            }
            r
        });
        total = total.merge(rep);
    }
    total
}

pub fn replay(ex: &Value) -> Report {
    if ex["kind"].as_str() == Some("mtu-label") {
        return mtu_labels();
    }
    let mut r = Report::new();
    match (serde_json::from_value::<Spec>(ex["spec"].clone()), serde_json::from_value::<Link>(ex["link"].clone())) {
        (Ok(s), Ok(l)) => check_frame(&mut r, &s, l, ex["unified"].as_bool().unwrap_or(false), "replay"),
        _ => r.machinery_error("bad replay file"),
    }
    r
}
