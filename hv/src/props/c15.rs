//! C15 — filtering commutes with analysis: filters remove packets, never change results.
//! For every trace of a frame alphabet (well-formed and malformed frames in every framing, IPv4 header lengths
//! 0..15, IPv6, truncations) and every filter configuration of a configuration alphabet, the analyzer with the
//! filter installed (driven through its own `analyze_pcap` path) must report exactly what the unfiltered
//! analyzer reports for the sub-trace of frames whose endpoints — as the analyzer's own parser reads them — the
//! filter admits. All-empty results are not results.
use crate::drv::{http_pcap, tcp_pcap, tls_pcap, uni_pcap};
use crate::gen::pkt::{self, Link, Spec, ACK, PSH, SYN};
use crate::gen::tls::{self, Ext, Hello};
use crate::props::c14::{cfg_http, cfg_tcp, cfg_tls, ref_should_process, Cfg, AF, PF};
use crate::report::{guarded, hex, par_slices, Report};
use crate::Outcome;
use serde_json::{json, Value};
use std::net::IpAddr;

fn s(x: &str) -> String {
    x.to_string()
}
pub fn filters() -> Vec<Cfg> {
    let pf = |sp: Vec<u16>, dp: Vec<u16>, sr: Vec<(u16, u16)>, dr: Vec<(u16, u16)>, any: bool| Some(PF { sp, dp, sr, dr, any });
    let af = |a: Vec<&str>, src: bool, dst: bool| Some(AF { addrs: a.iter().map(|x| s(x)).collect(), src, dst });
    let mut v = vec![];
    for deny in [false, true] {
        let base = Cfg { deny, pf: None, af: None, sf: None };
        v.push(Cfg { pf: pf(vec![], vec![80], vec![], vec![], false), ..base.clone() });
        v.push(Cfg { pf: pf(vec![], vec![443], vec![], vec![], false), ..base.clone() });
        v.push(Cfg { pf: pf(vec![40000], vec![], vec![], vec![], false), ..base.clone() });
        v.push(Cfg { pf: pf(vec![], vec![], vec![(40000, 40010)], vec![], false), ..base.clone() });
        v.push(Cfg { pf: pf(vec![], vec![], vec![], vec![(0, 1024)], false), ..base.clone() });
        v.push(Cfg { pf: pf(vec![80], vec![443], vec![], vec![], true), ..base.clone() });
        v.push(Cfg { af: af(vec!["10.0.0.1"], true, true), ..base.clone() });
        v.push(Cfg { af: af(vec!["10.0.0.1"], true, false), ..base.clone() });
        v.push(Cfg { af: af(vec!["10.0.0.1", "2001::3"], false, true), ..base.clone() });
        v.push(Cfg { af: af(vec!["2001::1"], true, false), ..base.clone() });
        v.push(Cfg { sf: af(vec!["10.0.0.0/30"], true, true), ..base.clone() });
        v.push(Cfg { sf: af(vec!["10.0.0.2/31"], true, false), ..base.clone() });
        v.push(Cfg { sf: af(vec!["2001::/16"], false, true), ..base.clone() });
        v.push(Cfg { sf: af(vec!["0.0.0.0/0"], true, true), ..base.clone() });
        v.push(Cfg { pf: pf(vec![], vec![80, 443], vec![], vec![], false), af: af(vec!["10.0.0.1", "2001::1"], true, false), ..base.clone() });
        v.push(Cfg { pf: pf(vec![], vec![], vec![(1024, 65535)], vec![], false), sf: af(vec!["10.0.0.0/8", "2001::/64"], true, true), ..base.clone() });
        v.push(Cfg { pf: pf(vec![], vec![81], vec![], vec![], false), af: af(vec!["10.0.0.2"], false, true), sf: af(vec!["10.0.0.0/24"], true, false), ..base.clone() });
        // ports that only exist inside an IPv4 header when the header length field lies (total length 0x002c.., ttl/proto bytes)
        v.push(Cfg { pf: pf(vec![0x4006], vec![], vec![], vec![], false), ..base.clone() });
        v.push(Cfg { pf: pf(vec![], vec![0x0a00], vec![], vec![], true), ..base.clone() });
    }
    // exact addresses and long prefixes of the byte-varied endpoints
    let eps = crate::props::c10::endpoints();
    let text = |e: &crate::props::c10::Ep| -> String {
        if e.v6 {
            std::net::Ipv6Addr::from(e.addr).to_string()
        } else {
            std::net::Ipv4Addr::new(e.addr[0], e.addr[1], e.addr[2], e.addr[3]).to_string()
        }
    };
    for deny in [false, true] {
        for i in [8usize, 104, 112, 128, 48, 40, 120, 136, 96, 16] {
            let a = text(&eps[i]);
            for (src, dst) in [(true, false), (false, true)] {
                v.push(Cfg { deny, pf: None, af: Some(AF { addrs: vec![a.clone()], src, dst }), sf: None });
                let net = if eps[i].v6 { format!("{a}/128") } else { format!("{a}/32") };
                v.push(Cfg { deny, pf: None, af: None, sf: Some(AF { addrs: vec![net], src, dst }) });
            }
        }
    }
    // an IPv4-mapped IPv6 endpoint (::ffff:10.0.0.1) is an IPv6 endpoint: listed as such it matches, the IPv4 address it
    // embeds and IPv4 blocks do not, IPv6 blocks do
    for deny in [false, true] {
        for (src, dst) in [(true, false), (false, true), (true, true)] {
            for a in ["::ffff:10.0.0.1", "::ffff:10.0.0.2", "10.0.0.1"] {
                v.push(Cfg { deny, pf: None, af: Some(AF { addrs: vec![s(a)], src, dst }), sf: None });
            }
            for n in ["::/0", "::ffff:0:0/96", "::ffff:10.0.0.0/127", "0.0.0.0/0", "10.0.0.0/8"] {
                v.push(Cfg { deny, pf: None, af: None, sf: Some(AF { addrs: vec![s(n)], src, dst }) });
            }
        }
    }
    v.push(Cfg { deny: false, pf: None, af: None, sf: None });
    v
}

/// endpoints the way every analyzer's own parser reads them
/// endpoints the way an analyzer's OWN copy of the frame parser reads them (the four crates carry separate copies)
macro_rules! endpoints_impl {
    ($name:ident, $krate:ident) => {
        pub fn $name(frame: &[u8]) -> Option<(IpAddr, IpAddr, u16, u16)> {
            use $krate::packet_parser::{parse_packet, IpPacket};
            use pnet::packet::tcp::TcpPacket;
            use pnet::packet::Packet;
            match parse_packet(frame) {
                IpPacket::Ipv4(ip) => {
                    if ip.get_next_level_protocol() != pnet::packet::ip::IpNextHeaderProtocols::Tcp {
                        return None;
                    }
                    let t = TcpPacket::new(ip.payload())?;
                    Some((IpAddr::V4(ip.get_source()), IpAddr::V4(ip.get_destination()), t.get_source(), t.get_destination()))
                }
                IpPacket::Ipv6(ip) => {
                    if ip.get_next_header() != pnet::packet::ip::IpNextHeaderProtocols::Tcp {
                        return None;
                    }
                    let t = TcpPacket::new(ip.payload())?;
                    Some((IpAddr::V6(ip.get_source()), IpAddr::V6(ip.get_destination()), t.get_source(), t.get_destination()))
                }
                IpPacket::None => None,
            }
        }
    };
}
endpoints_impl!(analyzer_endpoints, huginn_net_tcp);
endpoints_impl!(endpoints_http, huginn_net_http);
endpoints_impl!(endpoints_tls, huginn_net_tls);
/// the unified analyzer's parser hands out the IP bytes, not a packet view
pub fn endpoints_unified(frame: &[u8]) -> Option<(IpAddr, IpAddr, u16, u16)> {
    use huginn_net::packet_parser::{parse_packet, IpPacket};
    use pnet::packet::tcp::TcpPacket;
    use pnet::packet::Packet;
    match parse_packet(frame) {
        IpPacket::Ipv4(d) => {
            let ip = pnet::packet::ipv4::Ipv4Packet::new(d)?;
            if ip.get_next_level_protocol() != pnet::packet::ip::IpNextHeaderProtocols::Tcp {
                return None;
            }
            let t = TcpPacket::new(ip.payload())?;
            Some((IpAddr::V4(ip.get_source()), IpAddr::V4(ip.get_destination()), t.get_source(), t.get_destination()))
        }
        IpPacket::Ipv6(d) => {
            let ip = pnet::packet::ipv6::Ipv6Packet::new(d)?;
            if ip.get_next_header() != pnet::packet::ip::IpNextHeaderProtocols::Tcp {
                return None;
            }
            let t = TcpPacket::new(ip.payload())?;
            Some((IpAddr::V6(ip.get_source()), IpAddr::V6(ip.get_destination()), t.get_source(), t.get_destination()))
        }
        IpPacket::None => None,
    }
}

#[derive(Clone)]
pub struct Trace {
    pub name: String,
    pub frames: Vec<Vec<u8>>,
}
fn wrap(link: u8, ip: &[u8]) -> Vec<u8> {
    match link {
        0 => pkt::frame(Link::RawIp, ip),
        1 => pkt::frame(Link::Ethernet, ip),
        2 => pkt::frame(Link::Null(0x1e), ip),
        3 => pkt::frame(Link::Null(0x02), ip),
        4 => pkt::frame(Link::Null(0x1c), ip),
        // Ethernet frames whose MAC addresses read like the start of a raw IPv4 / IPv6 header (version nibble, protocol
        // or next-header byte 6): only the order in which framings are tried tells them apart
        5 => {
            let mut f = pkt::frame(Link::Ethernet, ip);
            f[..12].copy_from_slice(&[0x45, 0, 0, 0x28, 0, 0, 0x40, 0, 0x40, 0x06, 0, 0]);
            f
        }
        6 => {
            let mut f = pkt::frame(Link::Ethernet, ip);
            f[..12].copy_from_slice(&[0x60, 0, 0, 0, 0, 0x14, 0x06, 0x40, 0x20, 0x01, 0, 0]);
            f
        }
        // ... or like a NULL/loopback header followed by an IP version nibble
        7 => {
            let mut f = pkt::frame(Link::Ethernet, ip);
            f[..12].copy_from_slice(&[0x1e, 0, 0x5e, 0x12, 0x45, 0x01, 0x02, 0, 0, 0x06, 0, 0x01]);
            f
        }
        8 => {
            let mut f = pkt::frame(Link::Ethernet, ip);
            f[..12].copy_from_slice(&[0x1e, 0, 0, 0, 0x60, 0x01, 0x02, 0, 0, 0, 0x06, 0x01]);
            f
        }
        9 => {
            let mut f = pkt::frame(Link::Ethernet, ip);
            f[..12].copy_from_slice(&[0x02, 0, 0, 0, 0x45, 0x00, 0x00, 0x28, 0, 0, 0x40, 0x00]);
            f
        }
        // 802.1Q tagged frames: no parser or filter of the repository unwraps them - if one of them starts to, all must
        10 => pkt::frame(Link::Vlan(0x8100), ip),
        11 => pkt::frame(Link::Vlan(0x88a8), ip),
        // near misses of the one NULL/loopback header the analyzers accept (1e 00 ..): nobody reads them - if one copy of the
        // parser starts to, its filter must too
        12 => [vec![0x1e, 0x01, 0, 0], ip.to_vec()].concat(),
        13 => [vec![0x1f, 0x00, 0, 0], ip.to_vec()].concat(),
        // Ethernet as a capture often shows it: padded to 60 bytes, frame check sequence behind the IP packet
        _ => pkt::ethernet_with_trailer(ip),
    }
}
const LINKS: [&str; 15] = ["raw", "ethernet", "null-1e", "null-02", "null-1c", "ethernet-macs-like-ipv4-header", "ethernet-macs-like-ipv6-header", "ethernet-macs-like-loopback-1e-ipv4", "ethernet-macs-like-loopback-1e-ipv6", "ethernet-macs-like-loopback-02", "vlan-8100", "vlan-88a8", "null-near-miss-1e-01", "null-near-miss-1f-00", "ethernet-padded-with-frame-check-sequence"];

pub fn traces() -> Vec<Trace> {
    let mut v = vec![];
    let hello = tls::bytes(&Hello { exts: vec![Ext::Sni(s("f.example")), Ext::SupVer(vec![0x0304])], ..Hello::default() });
    let req = b"GET / HTTP/1.1\r\nHost: f.example\r\nUser-Agent: curl/8.0\r\n\r\n".to_vec();
    let resp = b"HTTP/1.1 200 OK\r\nServer: nginx/1.0\r\n\r\n".to_vec();
    for v6 in [false, true] {
        for ihl in 0..=15u8 {
            if v6 && ihl != 5 {
                continue;
            }
            for link in 0..15u8 {
                for (cport, sport) in [(40000u16, 80u16), (40005, 443)] {
                    let mk = |from_client: bool, flags: u8, seq: u32, payload: &[u8]| -> Vec<u8> {
                        let (src, sp, dst, dp) = if from_client { (1u8, cport, 2u8, sport) } else { (2, sport, 1, cport) };
                        let mut ip = pkt::build(&Spec { v6, src, dst, sport: sp, dport: dp, flags, seq, ack: if flags & ACK != 0 { 7 } else { 0 }, ip_opt_words: if !v6 && ihl > 5 { ihl - 5 } else { 0 }, opts: if flags & SYN != 0 { vec![2, 4, 5, 0xb4] } else { vec![] }, payload: payload.to_vec(), ..Spec::default() });
                        if !v6 && ihl < 5 {
                            ip[0] = 0x40 | ihl;
                        }
                        wrap(link, &ip)
                    };
                    let name = format!("{}-ihl{}-{}-{}>{}", if v6 { "v6" } else { "v4" }, ihl, LINKS[link as usize], cport, sport);
                    let conn = vec![mk(true, SYN, 1000, &[]), mk(false, SYN | ACK, 5000, &[]), mk(true, ACK | PSH, 1001, if sport == 443 { &hello } else { &req }), mk(false, ACK | PSH, 5001, &resp)];
                    v.push(Trace { name: format!("{name}/connection"), frames: conn.clone() });
                    // single frames and truncations at header boundaries
                    let f = &conn[0];
                    for cut in [f.len() - 1, f.len() - 4, f.len().saturating_sub(21), f.len().saturating_sub(24), 14, 4] {
                        if cut > 0 && cut < f.len() {
                            v.push(Trace { name: format!("{name}/syn-truncated-to-{cut}"), frames: vec![f[..cut].to_vec()] });
                        }
                    }
                }
            }
        }
    }
    // two connections with different endpoints interleaved (filters select one of them)
    let mk = |v6: bool, src: u8, sp: u16, dst: u8, dp: u16, flags: u8, seq: u32, payload: &[u8]| pkt::build(&Spec { v6, src, dst, sport: sp, dport: dp, flags, seq, ack: if flags & ACK != 0 { 7 } else { 0 }, opts: if flags & SYN != 0 { vec![2, 4, 5, 0xb4] } else { vec![] }, payload: payload.to_vec(), ..Spec::default() });
    let a = vec![mk(false, 1, 40000, 2, 80, SYN, 1000, &[]), mk(false, 2, 80, 1, 40000, SYN | ACK, 5000, &[]), mk(false, 1, 40000, 2, 80, ACK | PSH, 1001, &req), mk(false, 2, 80, 1, 40000, ACK | PSH, 5001, &resp)];
    let b = vec![mk(true, 3, 40001, 4, 443, SYN, 1000, &[]), mk(true, 4, 443, 3, 40001, SYN | ACK, 5000, &[]), mk(true, 3, 40001, 4, 443, ACK | PSH, 1001, &hello[..40]), mk(true, 3, 40001, 4, 443, ACK | PSH, 1041, &hello[40..])];
    let c = vec![mk(false, 3, 1023, 1, 81, SYN, 1000, &[]), mk(false, 1, 81, 3, 1023, SYN | ACK, 5000, &[]), mk(false, 3, 1023, 1, 81, ACK | PSH, 1001, &req), mk(false, 1, 81, 3, 1023, ACK | PSH, 5001, &resp)];
    // connections between endpoints whose addresses differ in every byte position (IPv4 and IPv6), so that a filter
    // or extractor that misreads any address byte changes the decision
    let eps = crate::props::c10::endpoints();
    let fb = crate::props::c10::frame_between;
    let mut rich: Vec<Vec<Vec<u8>>> = vec![];
    for (ci, si, eth) in [(8usize, 40usize, false), (104, 120, true), (112, 136, false), (128, 96, true), (48, 16, true)] {
        let (c, sv) = (eps[ci], eps[si]);
        let c = crate::props::c10::Ep { port: 40000 + ci as u16, ..c };
        let sv = crate::props::c10::Ep { port: if ci % 2 == 0 { 80 } else { 443 }, ..sv };
        if c.v6 != sv.v6 {
            continue;
        }
        rich.push(vec![fb(&c, &sv, SYN, 1000, &[], eth), fb(&sv, &c, SYN | ACK, 5000, &[], eth), fb(&c, &sv, ACK | PSH, 1001, if sv.port == 443 { &hello } else { &req }, eth), fb(&sv, &c, ACK | PSH, 5001, &resp, eth)]);
    }
    // raw-IP connections whose bytes 12/13 are near misses of an IP EtherType (IPv4 clients 134.0.69.1 = 86 00 45 .. and 8.221.69.1 =
    // 08 dd 45 .. - the third byte reads like the start of an IPv4 header for whoever skips 14 bytes, and the server ports 1030 / 262 put the TCP protocol number where that reader looks for it; an IPv6 client with 86 00 as third group): only a framing test that is exact reads them as what they are
    {
        let ep = |v6: bool, a: &[u8], port: u16| {
            let mut addr = [0u8; 16];
            addr[..a.len()].copy_from_slice(a);
            crate::props::c10::Ep { v6, addr, port }
        };
        for (c, sv) in [
            (ep(false, &[134, 0, 0x45, 1], 40020), ep(false, &[10, 0, 0, 2], 1030)),
            (ep(false, &[134, 0, 1, 1], 40023), ep(false, &[10, 0, 0, 2], 80)),
            (ep(false, &[8, 221, 0x45, 1], 40021), ep(false, &[10, 0, 0, 2], 262)),
            (ep(true, &[0, 0, 0, 0, 0, 0, 0, 0, 0, 0, 0xff, 0xff, 10, 0, 0, 1], 40024), ep(true, &[0, 0, 0, 0, 0, 0, 0, 0, 0, 0, 0xff, 0xff, 10, 0, 0, 2], 80)),
            (ep(true, &[0, 0, 0, 0, 0, 0, 0, 0, 0, 0, 0xff, 0xff, 10, 0, 0, 1], 40025), ep(true, &[0, 0, 0, 0, 0, 0, 0, 0, 0, 0, 0xff, 0xff, 10, 0, 0, 2], 443)),
            (ep(true, &[0x20, 1, 0xd, 0xb8, 0x86, 0, 0x45, 0, 0, 0, 0, 0, 0, 0, 0, 1], 40022), ep(true, &[0x20, 1, 0xd, 0xb8, 0, 0, 0, 0, 0, 0, 0, 0, 0, 0, 0, 2], 80)),
        ] {
            rich.push(vec![fb(&c, &sv, SYN, 1000, &[], false), fb(&sv, &c, SYN | ACK, 5000, &[], false), fb(&c, &sv, ACK | PSH, 1001, if sv.port == 443 { &hello } else { &req }, false), fb(&sv, &c, ACK | PSH, 5001, &resp, false)]);
        }
    }
    for (i, x) in rich.iter().enumerate() {
        v.push(Trace { name: format!("rich-addresses/{i}/connection"), frames: x.clone() });
        for (j, y) in rich.iter().enumerate() {
            if i < j {
                let mut inter = vec![];
                for k in 0..4 {
                    inter.push(x[k].clone());
                    inter.push(y[k].clone());
                }
                v.push(Trace { name: format!("rich-addresses/{i}+{j}/alternating"), frames: inter });
            }
        }
    }
    for (n, x, y) in [("a+b", &a, &b), ("a+c", &a, &c), ("b+c", &b, &c)] {
        let mut inter = vec![];
        for i in 0..4 {
            inter.push(x[i].clone());
            inter.push(y[i].clone());
        }
        v.push(Trace { name: format!("two-connections/{n}/alternating"), frames: inter });
        let mut seq = x.clone();
        seq.extend(y.iter().cloned());
        v.push(Trace { name: format!("two-connections/{n}/sequential"), frames: seq });
    }
    // connections delivered in tiny segments (12 payload bytes each) under the framings without a 14-byte link header: the
    // frames are as short as a bare Ethernet ACK, yet every one of them carries stream bytes
    for link in [0u8, 2] {
        for (v6, sport) in [(false, 443u16), (false, 80), (true, 443)] {
            let (ci, si) = if v6 { (104usize, 120usize) } else { (8, 40) };
            let c = crate::props::c10::Ep { port: 40040 + link as u16, ..eps[ci] };
            let sv = crate::props::c10::Ep { port: sport, ..eps[si] };
            let body: &[u8] = if sport == 443 { &hello } else { &req };
            let mut conn = vec![wrap(link, &fb(&c, &sv, SYN, 1000, &[], false)), wrap(link, &fb(&sv, &c, SYN | ACK, 5000, &[], false))];
            for (k, piece) in body.chunks(12).enumerate() {
                conn.push(wrap(link, &fb(&c, &sv, ACK | PSH, 1001 + 12 * k as u32, piece, false)));
            }
            v.push(Trace { name: format!("tiny-segments/{}-{}-port{sport}/connection", if v6 { "v6" } else { "v4" }, LINKS[link as usize]), frames: conn });
        }
    }
    // Ethernet frames whose EtherType and IP version nibble disagree (EtherType IPv4 with nibble 5, 6, 0, 15; EtherType IPv6
    // with nibble 4, 7): every parser of the repository goes by the EtherType - a filter that goes by the nibble reads other
    // endpoints, or none and lets the frame pass
    for (v6, nibbles) in [(false, [5u8, 6, 0, 15]), (true, [4, 7, 0, 15])] {
        for nib in nibbles {
            for sport in [80u16, 443] {
                let (ci, si) = if v6 { (104usize, 120usize) } else { (8, 40) };
                let c = crate::props::c10::Ep { port: 40030 + nib as u16, ..eps[ci] };
                let sv = crate::props::c10::Ep { port: sport, ..eps[si] };
                let mut conn = vec![fb(&c, &sv, SYN, 1000, &[], true), fb(&sv, &c, SYN | ACK, 5000, &[], true), fb(&c, &sv, ACK | PSH, 1001, if sport == 443 { &hello } else { &req }, true), fb(&sv, &c, ACK | PSH, 5001, &resp, true)];
                for f in conn.iter_mut() {
                    f[14] = (f[14] & 0x0f) | (nib << 4);
                }
                v.push(Trace { name: format!("version-nibble-mismatch/{}-nibble{nib}-port{sport}/connection", if v6 { "v6" } else { "v4" }), frames: conn });
            }
        }
    }
    v
}

fn nonempty<T, F: Fn(&T) -> bool>(v: Vec<T>, empty: F) -> Vec<T> {
    v.into_iter().filter(|x| !empty(x)).collect()
}

pub fn check(r: &mut Report, t: &Trace, c: &Cfg) {
    // reference sub-trace: frames the filter admits, judged on the analyzer's own reading of the endpoints;
    // frames the analyzer cannot attribute to endpoints can neither yield a result nor create state
    for an in ["tcp", "http", "tls", "unified"] {
        let ends: fn(&[u8]) -> Option<(IpAddr, IpAddr, u16, u16)> = match an {
            "tcp" => analyzer_endpoints,
            "http" => endpoints_http,
            "tls" => endpoints_tls,
            _ => endpoints_unified,
        };
        let sub: Vec<Vec<u8>> = t
            .frames
            .iter()
            .filter(|f| match ends(f) {
                Some((si, di, sp, dp)) => ref_should_process(c, &si, &di, sp, dp),
                None => true,
            })
            .cloned()
            .collect();
        r.exec((t.frames.len() + sub.len()) as u64);
        let res = guarded(|| -> Result<(Vec<String>, Vec<String>), String> {
            Ok(match an {
                "tcp" => (nonempty(tcp_pcap(&t.frames, Some(cfg_tcp(c)), 16)?, |x| x.is_empty()).iter().map(|x| format!("{x:?}")).collect(), nonempty(tcp_pcap(&sub, None, 16)?, |x| x.is_empty()).iter().map(|x| format!("{x:?}")).collect()),
                "http" => (nonempty(http_pcap(&t.frames, Some(cfg_http(c)), 16)?, |x| x.is_empty()).iter().map(|x| format!("{x:?}")).collect(), nonempty(http_pcap(&sub, None, 16)?, |x| x.is_empty()).iter().map(|x| format!("{x:?}")).collect()),
                "tls" => (nonempty(tls_pcap(&t.frames, Some(cfg_tls(c)), 16)?, |x| x.is_empty()).iter().map(|x| format!("{x:?}")).collect(), nonempty(tls_pcap(&sub, None, 16)?, |x| x.is_empty()).iter().map(|x| format!("{x:?}")).collect()),
                _ => {
                    let e = |x: &crate::drv::UniRes| x.tcp.is_empty() && x.http.is_empty() && x.tls.is_empty();
                    (nonempty(uni_pcap(&t.frames, Some(cfg_tcp(c)), 16)?, e).iter().map(|x| format!("{x:?}")).collect(), nonempty(uni_pcap(&sub, None, 16)?, e).iter().map(|x| format!("{x:?}")).collect())
                }
            })
        });
        match res {
            Err(p) => r.dev(format!("C15/{an}/panic"), "panic", || json!({"trace": t.name, "filter": c, "detail": p})),
            Ok(Err(e)) => r.machinery_error(format!("pcap route failed: {e}")),
            Ok(Ok((with_filter, reference))) => {
                r.outcome(&(an, &with_filter));
                if with_filter != reference {
                    let kind = t.name.split('/').next().unwrap_or("");
                    let p: Vec<&str> = kind.split('-').collect();
                    let class = if p.len() >= 3 && p[0] == "v4" && p[1].trim_start_matches("ihl").parse::<u8>().map(|x| x < 5).unwrap_or(false) {
                        "ipv4-header-length-below-5-read-differently".to_string()
                    } else if kind.contains("null-1e") && kind.starts_with("v4") {
                        "null-loopback-1e-with-ipv4-not-filtered".to_string()
                    } else {
                        "filtered-run-differs-from-unfiltered-subtrace".to_string()
                    };
                    let dir = if with_filter.len() > reference.len() { "result-for-rejected-endpoints" } else if with_filter.len() < reference.len() { "admitted-result-dropped" } else { "result-changed" };
                    r.dev(format!("C15/{an}/{class}/{dir}"), class.clone(), || json!({"trace": t.name, "frames": t.frames.iter().map(|f| hex(&f[..f.len().min(120)])).collect::<Vec<_>>(), "filter": c, "analyzer": an, "with_filter": with_filter, "unfiltered_subtrace": reference, "subtrace_len": sub.len()}));
                }
            }
        }
    }
}

/// One analyzer object, two captures in a row, sequential and parallel mode (the pool is initialised before each capture):
/// the filter must still be in force for the second capture. Reference: the same usage without a filter on the admitted
/// sub-trace; compared as multisets (parallel mode does not order results of different connections).
pub fn check_reuse(r: &mut Report, t: &Trace, c: &Cfg) {
    use crate::drv::{http_pcap_reuse, tcp_pcap_reuse, tls_pcap_reuse};
    for an in ["tcp", "http", "tls"] {
        let ends: fn(&[u8]) -> Option<(IpAddr, IpAddr, u16, u16)> = match an {
            "tcp" => analyzer_endpoints,
            "http" => endpoints_http,
            _ => endpoints_tls,
        };
        let sub: Vec<Vec<u8>> = t.frames.iter().filter(|f| ends(f).map(|(si, di, sp, dp)| ref_should_process(c, &si, &di, sp, dp)).unwrap_or(true)).cloned().collect();
        for parallel in [false, true] {
            r.exec(2 * (t.frames.len() + sub.len()) as u64);
            let res = guarded(|| -> Result<(Vec<String>, Vec<String>), String> {
                let fmt = |v: Vec<String>| {
                    let mut v = v;
                    v.sort();
                    v
                };
                Ok(match an {
                    "tcp" => (fmt(nonempty(tcp_pcap_reuse(&t.frames, Some(cfg_tcp(c)), 16, parallel)?, |x| x.is_empty()).iter().map(|x| format!("{x:?}")).collect()), fmt(nonempty(tcp_pcap_reuse(&sub, None, 16, parallel)?, |x| x.is_empty()).iter().map(|x| format!("{x:?}")).collect())),
                    "http" => (fmt(nonempty(http_pcap_reuse(&t.frames, Some(cfg_http(c)), 16, parallel)?, |x| x.is_empty()).iter().map(|x| format!("{x:?}")).collect()), fmt(nonempty(http_pcap_reuse(&sub, None, 16, parallel)?, |x| x.is_empty()).iter().map(|x| format!("{x:?}")).collect())),
                    _ => (fmt(tls_pcap_reuse(&t.frames, Some(cfg_tls(c)), 16, parallel)?.iter().map(|x| format!("{x:?}")).collect()), fmt(tls_pcap_reuse(&sub, None, 16, parallel)?.iter().map(|x| format!("{x:?}")).collect())),
                })
            });
            let mode = if parallel { "parallel" } else { "sequential" };
            match res {
                Err(p) => r.dev(format!("C15/{an}/reuse/panic"), "panic", || json!({"kind": "reuse", "trace": t.name, "filter": c, "mode": mode, "detail": p})),
                Ok(Err(e)) => r.machinery_error(format!("reuse route failed: {e}")),
                Ok(Ok((with_filter, reference))) => {
                    r.outcome(&(an, "reuse", mode, &with_filter));
                    if with_filter != reference {
                        let dir = if with_filter.len() > reference.len() { "result-for-rejected-endpoints" } else if with_filter.len() < reference.len() { "admitted-result-dropped" } else { "result-changed" };
                        r.dev(format!("C15/{an}/reuse/{mode}/second-capture-on-one-analyzer-differs-from-unfiltered-subtrace/{dir}"), "reuse", || json!({"kind": "reuse", "trace": t.name, "filter": c, "analyzer": an, "mode": mode, "with_filter": with_filter.len(), "unfiltered_subtrace": reference.len()}));
                    }
                }
            }
        }
    }
}

/// A filter installed over an earlier one replaces it: `with_filter(narrow).with_filter(f)` behaves like
/// `with_filter(f)`, for every f including the configuration without any sub-filter (which admits everything).
pub fn check_refilter(r: &mut Report, t: &Trace, c: &Cfg) {
    let narrow = Cfg { deny: false, pf: Some(PF { sp: vec![], dp: vec![9], sr: vec![], dr: vec![], any: false }), af: None, sf: None };
    for an in ["tcp", "http", "tls", "unified"] {
        r.exec(2 * t.frames.len() as u64);
        let res = guarded(|| -> Result<(Vec<String>, Vec<String>), String> {
            let p = crate::drv::scratch_pcap(&t.frames);
            let path = p.to_str().unwrap_or("").to_string();
            macro_rules! both {
                ($mk:expr, $narrow:expr, $f:expr, $conv:expr) => {{
                    let mut out = vec![];
                    for twice in [false, true] {
                        let (tx, rx) = std::sync::mpsc::channel();
                        let mut a = $mk;
                        if twice {
                            a = a.with_filter($narrow);
                        }
                        a = a.with_filter($f);
                        a.analyze_pcap(&path, tx, None).map_err(|e| e.to_string())?;
                        drop(a);
                        out.push(rx.iter().map($conv).collect::<Vec<String>>());
                    }
                    out
                }};
            }
            let d = crate::drv::db_arc();
            let out = match an {
                "tcp" => both!(huginn_net_tcp::HuginnNetTcp::new(Some(d.clone()), 16).map_err(|e| e.to_string())?, cfg_tcp(&narrow), cfg_tcp(c), |o| format!("{:?}", crate::drv::tcp_res(&o))),
                "http" => both!(huginn_net_http::HuginnNetHttp::new(Some(d.clone()), 16).map_err(|e| e.to_string())?, cfg_http(&narrow), cfg_http(c), |o| format!("{:?}", crate::drv::http_res(&o))),
                "tls" => both!(huginn_net_tls::HuginnNetTls::new(16), cfg_tls(&narrow), cfg_tls(c), |o| format!("{:?}", crate::drv::tls_out(&o))),
                _ => both!(huginn_net::HuginnNet::new(Some(crate::drv::db()), 16, None).map_err(|e| e.to_string())?, cfg_tcp(&narrow), cfg_tcp(c), |o| format!("{:?}", crate::drv::uni_res(&o))),
            };
            let _ = std::fs::remove_file(&p);
            let mut it = out.into_iter();
            Ok((it.next().unwrap_or_default(), it.next().unwrap_or_default()))
        });
        match res {
            Err(p) => r.dev(format!("C15/{an}/refilter/panic"), "panic", || json!({"kind": "refilter", "trace": t.name, "filter": c, "detail": p})),
            Ok(Err(e)) => r.machinery_error(format!("refilter route failed: {e}")),
            Ok(Ok((once, twice))) => {
                r.outcome(&(an, "refilter", once.len()));
                if once != twice {
                    r.dev(format!("C15/{an}/refilter/filter-installed-over-an-earlier-one-does-not-replace-it"), "refilter", || json!({"kind": "refilter", "trace": t.name, "filter": c, "analyzer": an, "results_with_filter": once.len(), "results_with_narrow_then_filter": twice.len()}));
                }
            }
        }
    }
}

pub fn run(thorough: bool) -> Outcome {
    let ts = traces();
    let fs = filters();
    let fsel: Vec<&Cfg> = if thorough { fs.iter().collect() } else { fs.iter().step_by(2).collect() };
    let n = ts.len();
    let rep = par_slices(n, 512, |rg| {
        let mut r = Report::new();
        for i in rg {
            // connection traces get every filter; single truncated frames every second one in quick
            let full = ts[i].frames.len() > 1;
            let rich = ts[i].name.starts_with("rich-addresses");
            for (k, c) in fs.iter().enumerate() {
                // the address filters (index >= 39) only matter for the byte-varied endpoints
                if (k >= 39 && !rich && !thorough && k != fs.len() - 1) || (!full && !thorough && k % 3 != 0) {
                    continue;
                }
                let _ = &fsel;
                check(&mut r, &ts[i], c);
                if ts[i].name.starts_with("two-connections") && ts[i].name.ends_with("alternating") && (thorough || k % 3 == 0 || k == fs.len() - 1) {
                    check_reuse(&mut r, &ts[i], c);
                    check_refilter(&mut r, &ts[i], c);
                }
                if k == 0 && ts[i].name.starts_with("two-connections") {
                    // the configuration without any sub-filter admits everything, in either mode
                    for deny in [false, true] {
                        check_refilter(&mut r, &ts[i], &Cfg { deny, pf: None, af: None, sf: None });
                    }
                }
            }
            if i % 97 == 0 {
                r.sample(|| json!({"trace": ts[i].name, "frames": ts[i].frames.len()}));
            }
        }
        r
    });
    Outcome {
        report: rep,
        rule: "traces: a 4-frame connection (SYN, SYN+ACK, HTTP request or ClientHello, response) and truncations of its SYN for IPv4 header lengths 0..15 and IPv6 x 5 framings (raw, Ethernet, NULL 1e/02/1c) x 2 port pairs; three pairs of connections with different endpoints, alternating and sequential; x 39 filter configurations (each sub-filter alone and combined, allow and deny, ports that only exist inside a mis-sized IPv4 header); TCP, HTTP, TLS and unified analyzers through analyze_pcap with the filter vs without filter on the admitted sub-trace; reuse: one analyzer object (sequential, and parallel with init_pool before each capture) analysing the two-connection traces twice in a row, filtered vs unfiltered on the sub-trace; refilter: with_filter(narrow).with_filter(f) equals with_filter(f) on all four analyzers, f incl. the configuration without sub-filters; distinct = distinct filtered result lists".into(),
        exhaustive: true,
        bounds: json!({"traces": n, "filters": fs.len()}),
    }
}

pub fn replay(ex: &Value) -> Report {
    let mut r = Report::new();
    let ts = traces();
    let name = ex["trace"].as_str().unwrap_or("");
    match (ts.iter().find(|t| t.name == name), serde_json::from_value::<Cfg>(ex["filter"].clone())) {
        (Some(t), Ok(c)) if ex["kind"].as_str() == Some("reuse") => check_reuse(&mut r, t, &c),
        (Some(t), Ok(c)) if ex["kind"].as_str() == Some("refilter") => check_refilter(&mut r, t, &c),
        (Some(t), Ok(c)) => check(&mut r, t, &c),
        _ => r.machinery_error("bad replay file"),
    }
    r
}
