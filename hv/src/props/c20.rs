//! C20 — the unified analyzer equals the union of the protocol analyzers; configuration only masks.
//! Every trace of up to 4 packets over a 14-kind packet alphabet is fed to the unified analyzer under each of
//! the 16 switch combinations (with and without database where constructible) and, in lock step under the same
//! injected clock, to the stand-alone TCP, HTTP and stateless TLS processors. Whenever every enabled processor
//! accepts the packet, the unified result must carry exactly their fields; disabled protocols must be absent
//! and the matcher switch must only turn qualities into `Disabled`.
use crate::drv::{set_clock, tls_client, uni_res, HttpRes, HttpSeq, TcpRes, TcpSeq, TlsRes};
use crate::gen::pkt::{self, Link, Spec, ACK, FIN, PSH, RST, SYN};
use crate::gen::tls::{self, Ext, Hello};
use crate::props::c19::ts_opts;
use crate::report::{guarded, hex, par_slices, Report};
use crate::Outcome;
use serde_json::{json, Value};

const T0: u64 = 1_700_000_000_000;

fn packet_kinds_ext() -> Vec<(&'static str, Vec<u8>)> {
    let c2s = |flags: u8, seq: u32, payload: &[u8], ts: Option<u32>, syn_opts: bool| {
        let mut opts = vec![];
        if syn_opts {
            opts.extend([2, 4, 5, 0xb4, 4, 2]);
        }
        if let Some(t) = ts {
            opts.extend(ts_opts(t, 0));
        }
        while opts.len() % 4 != 0 {
            opts.push(1);
        }
        pkt::build(&Spec { src: 1, sport: 40000, dst: 2, dport: 80, flags, seq, ack: if flags & ACK != 0 { 5001 } else { 0 }, opts, payload: payload.to_vec(), window: 29200, ..Spec::default() })
    };
    let s2c = |flags: u8, seq: u32, payload: &[u8], ts: Option<u32>, syn_opts: bool| {
        let mut opts = vec![];
        if syn_opts {
            opts.extend([2, 4, 5, 0xb4]);
        }
        if let Some(t) = ts {
            opts.extend(ts_opts(t, 7));
        }
        while opts.len() % 4 != 0 {
            opts.push(1);
        }
        pkt::build(&Spec { src: 2, sport: 80, dst: 1, dport: 40000, flags, seq, ack: 1001, ttl: 57, opts, payload: payload.to_vec(), window: 28960, ..Spec::default() })
    };
    let hello = tls::bytes(&Hello { exts: vec![Ext::Sni("u.example".into()), Ext::Alpn(vec!["h2".into()]), Ext::SupVer(vec![0x0304]), Ext::SigAlgs(vec![0x0403])], ..Hello::default() });
    let req = b"GET / HTTP/1.1\r\nHost: u.example\r\nUser-Agent: Mozilla/5.0 (X11; Linux x86_64; rv:99.0) Gecko/20100101 Firefox/99.0\r\nAccept: */*\r\n\r\n";
    let resp = b"HTTP/1.1 200 OK\r\nServer: Apache/2.4.1 (Unix)\r\nContent-Type: text/html\r\n\r\n";
    let mut frag = Spec { src: 1, sport: 40000, dst: 2, dport: 80, flags: ACK, mf: true, ..Spec::default() };
    frag.payload = vec![1, 2, 3];
    let mut udp = pkt::build(&Spec::default());
    udp[9] = 17;
    let truncated = c2s(SYN, 1000, &[], Some(10), true)[..30].to_vec();
    vec![
        ("syn-ts", c2s(SYN, 1000, &[], Some(100_000), true)),
        ("synack-ts", s2c(SYN | ACK, 5000, &[], Some(7_000_000), true)),
        ("ack-ts", c2s(ACK, 1001, &[], Some(100_050), false)),
        ("http-request", c2s(ACK | PSH, 1001, req, Some(100_100), false)),
        ("http-response", s2c(ACK | PSH, 5001, resp, Some(7_001_000), false)),
        ("clienthello", c2s(ACK | PSH, 1001, &hello, None, false)),
        ("clienthello-part1", c2s(ACK | PSH, 1001, &hello[..50], None, false)),
        ("clienthello-part2", c2s(ACK | PSH, 1051, &hello[50..], None, false)),
        ("fin-rst", c2s(FIN | RST, 1001, &[], None, false)),
        ("no-flags", c2s(0, 1001, b"x", None, false)),
        // handshake segments that carry data (TCP Fast Open style): the start of a ClientHello that continues in the next segment
        ("syn-with-partial-clienthello", c2s(SYN, 1000, &hello[..60], Some(100_000), true)),
        ("synack-with-partial-clienthello", s2c(SYN | ACK, 5000, &hello[..60], Some(7_000_000), true)),
        // a second (pipelined) response of the same server stream: when it arrives before the first one it lies behind a gap
        ("http-second-response", s2c(ACK | PSH, 5001 + resp.len() as u32, b"HTTP/1.1 404 Not Found\r\nServer: nginx/1.2.3\r\nContent-Length: 0\r\n\r\n", Some(7_002_000), false)),
        ("fragment", pkt::build(&frag)),
        // datagrams with the more-fragments bit / a fragment offset that carry a complete ClientHello or request: the TCP
        // analyzer refuses them, the HTTP and TLS analyzers do not
        ("clienthello-in-fragment", pkt::build(&Spec { src: 1, sport: 40000, dst: 2, dport: 80, flags: ACK | PSH, seq: 1001, ack: 5001, mf: true, payload: hello.clone(), ..Spec::default() })),
        ("http-request-in-fragment", pkt::build(&Spec { src: 1, sport: 40000, dst: 2, dport: 80, flags: ACK | PSH, seq: 1001, ack: 5001, mf: true, payload: req.to_vec(), ..Spec::default() })),
        ("udp", udp),
        ("truncated", truncated),
        ("syn-v6", pkt::frame(Link::Ethernet, &pkt::build(&Spec { v6: true, src: 1, sport: 40000, dst: 2, dport: 80, flags: SYN, opts: vec![2, 4, 5, 0xa0], ..Spec::default() }))),
        // a request the database still matches although the header every bundled request signature lists is missing
        ("http-request-without-user-agent", c2s(ACK | PSH, 1001, b"GET / HTTP/1.1\r\nHost: u.example\r\nAccept: text/html,application/xhtml+xml,application/xml;q=0.9,*/*;q=0.8\r\nAccept-Language: en-us,en;q=0.5\r\nAccept-Encoding: gzip, deflate\r\nConnection: keep-alive\r\n\r\n", Some(100_100), false)),
        // the header is there but says nothing (empty, and blank only)
        ("http-request-with-empty-user-agent", c2s(ACK | PSH, 1001, b"GET / HTTP/1.1\r\nHost: u.example\r\nUser-Agent:\r\nAccept: */*\r\n\r\n", Some(100_100), false)),
        ("http-request-with-blank-user-agent", c2s(ACK | PSH, 1001, b"GET / HTTP/1.1\r\nHost: u.example\r\nUser-Agent:   \r\nAccept: */*\r\n\r\n", Some(100_100), false)),
        // one segment on which two protocol analyzers report: a request head cut inside a header value; the second segment
        // begins, byte for byte, with a complete ClientHello record (all its bytes are legal in a header value) and ends
        // with the blank line
        ("http-head-up-to-a-header-value", c2s(ACK | PSH, 1001, HEAD_PART1, Some(100_100), false)),
        ("clienthello-bytes-that-complete-the-http-head", c2s(ACK | PSH, 1001 + HEAD_PART1.len() as u32, &[plain_hello(), b"\r\n\r\n".to_vec()].concat(), Some(100_150), false)),
    ]
}

const HEAD_PART1: &[u8] = b"GET / HTTP/1.1\r\nHost: u.example\r\nX-Blob: ";
/// a ClientHello made only of bytes below 0x80 that are neither CR nor LF
fn plain_hello() -> Vec<u8> {
    let mut body = vec![0x03, 0x03];
    body.extend([0x41; 32]);
    body.push(0);
    body.extend([0x00, 0x04, 0x13, 0x01, 0x00, 0x2f]);
    body.extend([0x01, 0x00]);
    let mut hs = vec![0x01, 0x00];
    hs.extend((body.len() as u16).to_be_bytes());
    hs.extend(body);
    let mut rec = vec![0x16, 0x03, 0x01];
    rec.extend((hs.len() as u16).to_be_bytes());
    rec.extend(hs);
    rec
}

#[derive(Clone, Copy, Debug)]
pub struct Cfg {
    pub http: bool,
    pub tcp: bool,
    pub tls: bool,
    pub matcher: bool,
    pub db: bool,
}

fn tls_stateless(frame: &[u8]) -> TlsRes {
    use huginn_net_tls::packet_parser::{parse_packet, IpPacket};
    let (r, ends) = match parse_packet(frame) {
        IpPacket::Ipv4(ip) => {
            use pnet::packet::Packet;
            let e = pnet::packet::tcp::TcpPacket::new(ip.payload()).map(|t| (format!("{}:{}", ip.get_source(), t.get_source()), format!("{}:{}", ip.get_destination(), t.get_destination())));
            (huginn_net_tls::process_tls_ipv4(&ip), e)
        }
        IpPacket::Ipv6(ip) => {
            use pnet::packet::Packet;
            let e = pnet::packet::tcp::TcpPacket::new(ip.payload()).map(|t| (format!("{}:{}", ip.get_source(), t.get_source()), format!("{}:{}", ip.get_destination(), t.get_destination())));
            (huginn_net_tls::process_tls_ipv6(&ip), e)
        }
        IpPacket::None => return TlsRes { err: Some("unparsed".into()), ..Default::default() },
    };
    match r {
        Err(e) => TlsRes { err: Some(e.to_string()), ..Default::default() },
        Ok(p) => match p.tls_client {
            None => TlsRes::default(),
            Some(c) => {
                let mut t = TlsRes { src: ends.as_ref().map(|e| e.0.clone()), dst: ends.map(|e| e.1), ..Default::default() };
                tls_client(&c, &mut t);
                t
            }
        },
    }
}
/// what disabling the matcher must do to a stand-alone (matcher on) result: qualities become Disabled, labels vanish
fn mask_tcp(mut t: TcpRes) -> TcpRes {
    if let Some(o) = t.os.as_mut() {
        *o = (None, "Disabled".into());
    }
    if let Some(m) = t.mtu.as_mut() {
        m.1 = None;
        m.2 = "Disabled".into();
    }
    t
}
fn mask_http(mut h: HttpRes) -> HttpRes {
    if let Some(q) = h.request.as_mut() {
        q.browser = None;
        q.quality = "Disabled".into();
        // the diagnosis is derived from the matcher: without it only "no User-Agent" can be diagnosed
        q.diagnosis = if q.user_agent.is_none() { "Anonymous".into() } else { "None".into() };
    }
    if let Some(q) = h.response.as_mut() {
        q.server = None;
        q.quality = "Disabled".into();
    }
    h
}

pub fn check_trace(r: &mut Report, kinds: &[(&str, Vec<u8>)], trace: &[usize], cfg: Cfg) {
    let d = crate::drv::db();
    let res = guarded(|| {
        let config = huginn_net::AnalysisConfig { http_enabled: cfg.http, tcp_enabled: cfg.tcp, tls_enabled: cfg.tls, matcher_enabled: cfg.matcher };
        let mut uni = match huginn_net::HuginnNet::new(if cfg.db { Some(d) } else { None }, 16, Some(config)) {
            Ok(u) => u,
            Err(_) => return None,
        };
        // stand-alone analyzers always run with the matcher; the expectation is masked afterwards
        let mut tcp = TcpSeq::new(Some(d), 16);
        let mut http = HttpSeq::new(Some(d), 16);
        let mut out = vec![];
        for (i, &k) in trace.iter().enumerate() {
            let f = &kinds[k].1;
            set_clock(T0 + i as u64 * 500);
            let u = uni_res(&uni.analyze_tcp(f));
            set_clock(T0 + i as u64 * 500);
            let t = tcp.feed(f);
            let h = http.feed(f);
            let s = tls_stateless(f);
            out.push((u, t, h, s));
        }
        Some(out)
    });
    let out = match res {
        Err(p) => {
            r.dev("C20/panic", "panic", || json!({"trace": trace.iter().map(|&k| kinds[k].0).collect::<Vec<_>>(), "config": format!("{cfg:?}"), "detail": p}));
            return;
        }
        Ok(None) => {
            // not constructible: matcher enabled for tcp/http without a database
            if !(cfg.matcher && (cfg.tcp || cfg.http) && !cfg.db) {
                r.dev("C20/constructor-refuses-valid-configuration", "constructor", || json!({"config": format!("{cfg:?}")}));
            }
            return;
        }
        Ok(Some(o)) => o,
    };
    r.exec(trace.len() as u64 * 4);
    for (i, (u, t, h, s)) in out.iter().enumerate() {
        let names: Vec<&str> = trace.iter().map(|&k| kinds[k].0).collect();
        // the statement speaks about packets every enabled analyzer accepts
        let accepted = (!cfg.tcp || t.err.is_none()) && (!cfg.http || h.err.is_none()) && (!cfg.tls || s.err.is_none());
        if !accepted {
            continue;
        }
        let exp_tcp = if !cfg.tcp {
            TcpRes::default()
        } else if cfg.matcher {
            t.clone()
        } else {
            mask_tcp(t.clone())
        };
        let exp_http = if !cfg.http {
            HttpRes::default()
        } else if cfg.matcher {
            h.clone()
        } else {
            mask_http(h.clone())
        };
        let exp_tls = if !cfg.tls { TlsRes::default() } else { s.clone() };
        r.outcome(&format!("{u:?}"));
        let mut dev = |class: &str, exp: String, got: String| {
            r.dev(format!("C20/{class}/{}", names[i]), class, || json!({"trace": names, "packet": i, "config": format!("{cfg:?}"), "expected": exp, "actual": got, "frame": hex(&kinds[trace[i]].1[..kinds[trace[i]].1.len().min(200)])}));
        };
        let mut ut = u.tcp.clone();
        ut.err = None;
        let mut et = exp_tcp.clone();
        et.err = None;
        if ut != et {
            dev(if cfg.tcp { "tcp-fields-differ" } else { "tcp-fields-present-although-disabled" }, format!("{et:?}"), format!("{ut:?}"));
        }
        let mut uh = u.http.clone();
        uh.err = None;
        let mut eh = exp_http.clone();
        eh.err = None;
        // the request output of the stand-alone analyzer carries `lang` twice (sig.lang / output.lang): both compared
        if uh != eh {
            dev(if cfg.http { "http-fields-differ" } else { "http-fields-present-although-disabled" }, format!("{eh:?}"), format!("{uh:?}"));
        }
        let mut us = u.tls.clone();
        us.err = None;
        let mut es = exp_tls.clone();
        es.err = None;
        if us != es {
            dev(if cfg.tls { "tls-fields-differ" } else { "tls-fields-present-although-disabled" }, format!("{es:?}"), format!("{us:?}"));
        }
    }
    r.sample(|| json!({"trace": trace.iter().map(|&k| kinds[k].0).collect::<Vec<_>>(), "config": format!("{cfg:?}")}));
}

/// link-layer framings, incl. Ethernet frames whose MAC addresses another framing would also accept (raw IPv4 / IPv6
/// header, NULL/loopback header of either family): every analyzer has its own copy of the frame parser
pub const FRAMINGS: [&str; 11] = ["ethernet", "loopback-1e", "macs-like-ipv4-header", "macs-like-ipv6-header", "macs-like-loopback-1e-then-ipv4", "macs-like-loopback-1e-then-ipv6", "macs-like-loopback-02", "macs-like-loopback-18", "vlan-8100", "vlan-88a8", "ethernet-padded-with-frame-check-sequence"];
fn reframe(framing: usize, ip: &[u8]) -> Vec<u8> {
    let macs: Option<[u8; 12]> = match framing {
        2 => Some([0x45, 0, 0, 0x28, 0, 0, 0x40, 0, 0x40, 0x06, 0, 0]),
        3 => Some([0x60, 0, 0, 0, 0, 0x14, 0x06, 0x40, 0x20, 0x01, 0, 0]),
        4 => Some([0x1e, 0, 0x5e, 0x12, 0x45, 0x01, 0x02, 0, 0, 0x06, 0, 0x01]),
        5 => Some([0x1e, 0, 0, 0, 0x60, 0x01, 0x02, 0, 0, 0, 0x06, 0x01]),
        6 => Some([0x02, 0, 0, 0, 0x45, 0x00, 0x00, 0x28, 0, 0, 0x40, 0x00]),
        7 => Some([0x18, 0, 0, 0, 0x60, 0x00, 0x00, 0x00, 0, 0x14, 0x06, 0x40]),
        _ => None,
    };
    match (framing, macs) {
        (1, _) => pkt::frame(Link::Null(0x1e), ip),
        (8, _) => pkt::frame(Link::Vlan(0x8100), ip),
        (9, _) => pkt::frame(Link::Vlan(0x88a8), ip),
        (10, _) => pkt::ethernet_with_trailer(ip),
        (_, Some(m)) => {
            let mut f = pkt::frame(Link::Ethernet, ip);
            f[..12].copy_from_slice(&m);
            f
        }
        _ => pkt::frame(Link::Ethernet, ip),
    }
}
/// the five result-bearing packet kinds in every framing, appended to the raw-IP kinds
/// the kinds whose every trace is explored
pub fn packet_kinds() -> Vec<(&'static str, Vec<u8>)> {
    let mut v = packet_kinds_ext();
    v.truncate(v.len() - 2);
    v
}
/// the two halves of the request whose second segment is also a ClientHello (explored in their own small family)
fn two_protocol_kinds() -> Vec<(&'static str, Vec<u8>)> {
    let v = packet_kinds_ext();
    v[v.len() - 2..].to_vec()
}
pub fn all_kinds() -> Vec<(String, Vec<u8>)> {
    let base = packet_kinds();
    let mut v: Vec<(String, Vec<u8>)> = base.iter().map(|(n, f)| (n.to_string(), f.clone())).collect();
    for (fi, fname) in FRAMINGS.iter().enumerate() {
        for core in ["syn-ts", "synack-ts", "http-request", "http-response", "clienthello"] {
            if let Some((_, ip)) = base.iter().find(|(n, _)| *n == core) {
                v.push((format!("{core}@{fname}"), reframe(fi, ip)));
            }
        }
        let v6 = pkt::build(&Spec { v6: true, src: 1, sport: 40000, dst: 2, dport: 80, flags: SYN, opts: vec![2, 4, 5, 0xa0], ..Spec::default() });
        v.push((format!("syn-v6@{fname}"), reframe(fi, &v6)));
    }
    v.extend(uptime_kinds());
    v.extend(two_protocol_kinds().into_iter().map(|(n, f)| (n.to_string(), f)));
    v
}
/// timestamped segments of both directions, IPv4 and IPv6, with TSvals whose uptime has different days, hours and minutes
/// (1000 Hz under the 500 ms-per-packet clock of `check_trace` when sent two steps apart); appended after all other kinds
pub fn uptime_kinds() -> Vec<(String, Vec<u8>)> {
    let mut v = vec![];
    // (the IPv6 family runs between IPv4-MAPPED addresses ::ffff:10.0.0.x: an address is reported as it is on the wire)
    for v6 in [false, true] {
        let fam = if v6 { "up6" } else { "up4" };
        let mk = |from_client: bool, flags: u8, ts: u32| {
            let (src, sport, dst, dport) = if from_client { (1, 40100, 2, 80) } else { (2, 80, 1, 40100) };
            let mut f = pkt::build(&Spec { v6, src, sport, dst, dport, flags, seq: 1000, ack: if flags & ACK != 0 { 1 } else { 0 }, opts: [vec![1, 1], ts_opts(ts, 0)[2..].to_vec()].concat(), payload: if flags & SYN == 0 { vec![b'x'] } else { vec![] }, ..Spec::default() });
            if v6 {
                for o in [8usize, 24] {
                    let id = f[o + 15];
                    f[o..o + 16].copy_from_slice(&[0, 0, 0, 0, 0, 0, 0, 0, 0, 0, 0xff, 0xff, 10, 0, 0, id]);
                }
            }
            f
        };
        v.push((format!("{fam}-syn"), mk(true, SYN, 123_456_789)));
        v.push((format!("{fam}-synack"), mk(false, SYN | ACK, 5_000_000)));
        v.push((format!("{fam}-client-ack"), mk(true, ACK, 123_456_789 + 1000)));
        v.push((format!("{fam}-server-data"), mk(false, ACK | PSH, 5_000_000 + 1000)));
    }
    v
}

pub fn run(thorough: bool) -> Outcome {
    let owned = all_kinds();
    let kinds: Vec<(&str, Vec<u8>)> = owned.iter().map(|(n, f)| (n.as_str(), f.clone())).collect();
    let k = packet_kinds().len();
    let depth = if thorough { 5 } else { 4 };
    let mut traces: Vec<Vec<usize>> = vec![];
    for n in 1..=depth {
        for mut i in 0..k.pow(n as u32) {
            let mut t = vec![];
            for _ in 0..n {
                t.push(i % k);
                i /= k;
            }
            traces.push(t);
        }
    }
    // framed kinds: every trace of <= 3 packets within one framing
    for fi in 0..FRAMINGS.len() {
        let base = k + fi * 6;
        for n in 1..=3usize {
            for mut i in 0..6usize.pow(n as u32) {
                let mut t = vec![];
                for _ in 0..n {
                    t.push(base + i % 6);
                    i /= 6;
                }
                traces.push(t);
            }
        }
    }
    // uptime kinds: every trace of <= 4 packets within one address family
    let ub = k + FRAMINGS.len() * 6;
    for fam in 0..2usize {
        for n in 1..=4usize {
            for mut i in 0..4usize.pow(n as u32) {
                let mut t = vec![];
                for _ in 0..n {
                    t.push(ub + fam * 4 + i % 4);
                    i /= 4;
                }
                traces.push(t);
            }
        }
    }
    // the segment on which the HTTP and the TLS analyzer both report: every trace of <= 4 packets over the two halves of that
    // request, the SYN and an ordinary request
    {
        let tb = ub + 8;
        let set = [tb, tb + 1, 0, 3];
        for n in 1..=4usize {
            for mut i in 0..4usize.pow(n as u32) {
                let mut t = vec![];
                for _ in 0..n {
                    t.push(set[i % 4]);
                    i /= 4;
                }
                traces.push(t);
            }
        }
    }
    if kinds.len() != ub + 8 + 2 || kinds[0].0 != "syn-ts" || kinds[3].0 != "http-request" {
        let mut r = Report::new();
        r.machinery_error("C20: packet kind table has an unexpected layout");
        return Outcome { report: r, rule: String::new(), exhaustive: false, bounds: json!({}) };
    }
    let mut cfgs = vec![];
    for m in 0..16u8 {
        for db in [true, false] {
            cfgs.push(Cfg { http: m & 1 != 0, tcp: m & 2 != 0, tls: m & 4 != 0, matcher: m & 8 != 0, db });
        }
    }
    let rep = par_slices(traces.len(), 512, |rg| {
        let mut r = Report::new();
        for i in rg {
            for c in &cfgs {
                check_trace(&mut r, &kinds, &traces[i], *c);
            }
        }
        r
    });
    // the unified analyzer's own capture-file route: every trace of <= 3 packets over five kinds, written to a capture file
    // (every third record declares an original length above its captured length), must give what the per-packet route gives
    let mut rep = rep;
    {
        let set = [0usize, 1, 3, 4, 5];
        let mut pt: Vec<Vec<usize>> = vec![];
        for n in 1..=3usize {
            for mut i in 0..set.len().pow(n as u32) {
                let mut t = vec![];
                for _ in 0..n {
                    t.push(set[i % set.len()]);
                    i /= set.len();
                }
                pt.push(t);
            }
        }
        let d = crate::drv::db();
        let empty = format!("{:?}", crate::drv::UniRes::default());
        for t in &pt {
            let frames: Vec<Vec<u8>> = t.iter().map(|&k| kinds[k].1.clone()).collect();
            set_clock(T0);
            rep.exec(2 * frames.len() as u64);
            let per_packet = guarded(|| {
                let mut a = huginn_net::HuginnNet::new(Some(d), 16, None).expect("analyzer");
                frames.iter().map(|f| format!("{:?}", uni_res(&a.analyze_tcp(f)))).filter(|x| *x != empty).collect::<Vec<_>>()
            });
            let file = guarded(|| crate::drv::uni_pcap(&frames, None, 16).map(|v| v.iter().map(|x| format!("{x:?}")).filter(|x| *x != empty).collect::<Vec<_>>()));
            let names: Vec<&str> = t.iter().map(|&k| kinds[k].0).collect();
            match (per_packet, file) {
                (Ok(a), Ok(Ok(b))) => {
                    if a != b {
                        rep.dev("C20/capture-file-route-differs-from-the-per-packet-route", "capture-file", || json!({"kind": "capture-file", "trace": names, "per_packet_results": a.len(), "capture_file_results": b.len(), "first_difference": a.iter().zip(b.iter()).position(|(x, y)| x != y)}));
                    }
                }
                (Ok(_), Ok(Err(e))) => rep.dev("C20/capture-file-route-fails", "capture-file", || json!({"kind": "capture-file", "trace": names, "detail": e})),
                (a, b) => rep.dev("C20/panic", "panic", || json!({"kind": "capture-file", "trace": names, "detail": format!("{:?} {:?}", a.err(), b.err())})),
            }
        }
    }
    Outcome {
        report: rep,
        rule: "every trace of <= 4 packets (5 thorough) over 22 packet kinds (SYN/SYN+ACK/ACK with timestamps, HTTP request with, without and with an empty / blank User-Agent, HTTP response, ClientHello whole and in two parts, FIN+RST, no flags, IPv4 fragment, UDP, truncated frame, Ethernet-framed IPv6 SYN), every trace of <= 3 packets within each of 11 framings (incl. Ethernet padded to 60 bytes with a captured frame check sequence), every trace of <= 4 timestamped segments of both directions (IPv4 and IPv6, TSvals whose uptime has different days / hours / minutes) ; every trace of <= 4 packets over the two halves of a request whose second segment is byte for byte a complete ClientHello followed by the blank line (both protocol analyzers report on it), the SYN and an ordinary request; x 16 switch combinations x with/without database, unified analyzer vs stand-alone TCP / HTTP / stateless TLS processors in lock step under the injected clock; capture-file route: every trace of <= 3 packets over five kinds through analyze_pcap (records whose declared original length exceeds the captured length included) equals the per-packet route; distinct = distinct unified outcomes".into(),
        exhaustive: true,
        bounds: json!({"traces": traces.len(), "configurations": cfgs.len(), "max_depth": depth}),
    }
}

pub fn replay(ex: &Value) -> Report {
    let mut r = Report::new();
    let owned = all_kinds();
    let kinds: Vec<(&str, Vec<u8>)> = owned.iter().map(|(n, f)| (n.as_str(), f.clone())).collect();
    let names: Vec<String> = ex["trace"].as_array().map(|a| a.iter().filter_map(|x| x.as_str().map(|s| s.to_string())).collect()).unwrap_or_default();
    let trace: Vec<usize> = names.iter().filter_map(|n| kinds.iter().position(|k| k.0 == n)).collect();
    if trace.is_empty() {
        r.machinery_error("bad replay file");
        return r;
    }
    for m in 0..16u8 {
        for db in [true, false] {
            check_trace(&mut r, &kinds, &trace, Cfg { http: m & 1 != 0, tcp: m & 2 != 0, tls: m & 4 != 0, matcher: m & 8 != 0, db });
        }
    }
    r
}
