//! C10 (engine E1 part) — routing and configurations of the worker pools.
//! (b) routing: for every worker count 1..=64 and every ordered pair of an endpoint alphabet, both directions of an
//!     HTTP connection, every segment of a TLS flow and every packet of a TCP sender map to one worker.
//! (c) configurations: real pools (free-running threads: schedules are only sampled here, the schedule-quantified
//!     part is decided by the loom engine) for workers 1..=16 x batch sizes x timeouts on a trace of 12 interleaved
//!     connections; the delivered results must equal the sequential analyzer's results as a multiset and per
//!     connection / per sender in order.
use crate::drv::{http_res, tcp_res, tls_out, HttpSeq, TcpSeq, TlsSeq};
use crate::gen::pkt::{self, Spec, ACK, PSH, SYN};
use crate::gen::tls::{self, Ext, Hello};
use crate::props::c18::{index, Pool};
use crate::props::c19::ts_opts;
use crate::report::{guarded, par_slices, Report};
use crate::Outcome;
use serde_json::{json, Value};

const T0: u64 = 1_700_000_000_000;

#[derive(Clone, Copy, Debug, PartialEq)]
pub struct Ep {
    pub v6: bool,
    pub addr: [u8; 16],
    pub port: u16,
}
pub fn endpoints() -> Vec<Ep> {
    let v4 = [[10, 0, 0, 1], [10, 0, 0, 2], [10, 0, 1, 1], [192, 168, 1, 77], [9, 0, 0, 1], [8, 8, 8, 8], [255, 255, 255, 254], [1, 2, 3, 4], [4, 3, 2, 1], [172, 16, 0, 9], [100, 64, 0, 1], [0, 0, 0, 1]];
    let v6 = [
        [0x20, 1, 0xd, 0xb8, 0, 0, 0, 0, 0, 0, 0, 0, 0, 0, 0, 1],
        [0x20, 1, 0xd, 0xb8, 0, 0, 0, 0, 0x02, 0x11, 0x22, 0xff, 0xfe, 0x33, 0x44, 0x55],
        [0xfe, 0x80, 0, 0, 0, 0, 0, 0, 1, 2, 3, 4, 5, 6, 7, 8],
        [0x20, 1, 0xd, 0xb8, 0, 1, 0, 2, 0, 3, 0, 4, 0, 5, 0, 6],
        [0, 0, 0, 0, 0, 0, 0, 0, 0, 0, 0, 0, 0, 0, 0, 1],
        [0x26, 0x07, 0xf8, 0xb0, 0x40, 0x05, 0x08, 0x0a, 0, 0, 0, 0, 0, 0, 0x20, 0x0e],
    ];
    let ports = [80u16, 443, 1024, 1025, 8080, 40000, 40001, 65535];
    let mut out = vec![];
    for a in v4 {
        for p in ports {
            let mut addr = [0u8; 16];
            addr[..4].copy_from_slice(&a);
            out.push(Ep { v6: false, addr, port: p });
        }
    }
    for a in v6 {
        for p in ports {
            out.push(Ep { v6: true, addr: a, port: p });
        }
    }
    out
}
/// frame with explicit endpoints (addresses patched into the built packet)
pub fn frame_between(s: &Ep, d: &Ep, flags: u8, seq: u32, payload: &[u8], eth: bool) -> Vec<u8> {
    let mut ip = pkt::build(&Spec { v6: s.v6, sport: s.port, dport: d.port, flags, seq, ack: if flags & ACK != 0 { 1 } else { 0 }, payload: payload.to_vec(), opts: if flags & SYN != 0 { vec![2, 4, 5, 0xb4] } else { vec![] }, ..Spec::default() });
    if s.v6 {
        ip[8..24].copy_from_slice(&s.addr);
        ip[24..40].copy_from_slice(&d.addr);
    } else {
        ip[12..16].copy_from_slice(&s.addr[..4]);
        ip[16..20].copy_from_slice(&d.addr[..4]);
    }
    if eth {
        pkt::frame(pkt::Link::Ethernet, &ip)
    } else {
        ip
    }
}

fn routing(r: &mut Report, thorough: bool) {
    let eps = endpoints();
    let workers: Vec<usize> = if thorough { (1..=64).collect() } else { vec![1, 2, 3, 4, 5, 6, 7, 8, 9, 12, 16, 17, 31, 32, 64] };
    let n = eps.len();
    let rep = par_slices(n * n, 256, |rg| {
        let mut r = Report::new();
        for i in rg {
            let (a, b) = (&eps[i / n], &eps[i % n]);
            if a.v6 != b.v6 || (a.addr == b.addr && a.port == b.port) {
                continue;
            }
            r.exec(1);
            for eth in [false, true] {
                // sequence numbers chosen so that every byte of the field differs between the packets of one connection
                // (the stream crosses 2^24 and 2^32): nothing but the 4-tuple may select the worker
                let syn = frame_between(a, b, SYN, 0x00ff_fff0, &[], eth);
                let synack = frame_between(b, a, SYN | ACK, 0xfeff_ffff, &[], eth);
                let req = frame_between(a, b, ACK | PSH, 0x00ff_fff1, b"GET / HTTP/1.1\r\nHost: x\r\n\r\n", eth);
                let resp = frame_between(b, a, ACK | PSH, 0xff00_0000, b"HTTP/1.1 200 OK\r\n\r\n", eth);
                let seg2 = frame_between(a, b, ACK, 0x0100_0010, &[0x16, 3, 1, 0, 5, 1, 2, 3], eth);
                let fin = frame_between(a, b, ACK | 1, 0xffff_fff0, &[], eth);
                for &w in &workers {
                    r.transitions += 6;
                    let h: Vec<Option<usize>> = [&syn, &synack, &req, &resp, &seg2, &fin].iter().map(|f| index(Pool::Http, f, w)).collect();
                    r.outcome(&("http", w, h[0]));
                    if h.iter().any(|x| *x != h[0]) {
                        r.dev("C10/routing/http-connection-split-over-workers", "http-split", || json!({"kind": "routing", "a": format!("{a:?}"), "b": format!("{b:?}"), "ethernet": eth, "workers": w, "indexes_syn_synack_req_resp_seg_fin": h}));
                    }
                    let t: Vec<Option<usize>> = [&syn, &req, &seg2, &fin].iter().map(|f| index(Pool::Tls, f, w)).collect();
                    if t.iter().any(|x| *x != t[0]) || t[0].is_none() {
                        r.dev("C10/routing/tls-flow-split-over-workers", "tls-split", || json!({"kind": "routing", "a": format!("{a:?}"), "b": format!("{b:?}"), "ethernet": eth, "workers": w, "indexes": t}));
                    }
                    // TCP pool: everything a host sends (to anyone, from any port) goes to one worker
                    // ... and whatever the other header fields say (a later packet of the host arrives with another TTL / hop limit,
                    // traffic class and IP id)
                    let mut other = frame_between(&Ep { port: a.port ^ 0x1234, ..*a }, &Ep { port: 22, ..*b }, SYN, 7, &[], eth);
                    let o = if eth { 14 } else { 0 };
                    if a.v6 {
                        other[o + 7] = other[o + 7].wrapping_sub(9);
                        other[o + 1] ^= 0xf0;
                    } else {
                        other[o + 8] = other[o + 8].wrapping_sub(9);
                        other[o + 1] ^= 0xfc;
                        other[o + 4] ^= 0xff;
                    }
                    let c: Vec<Option<usize>> = [&syn, &req, &seg2, &fin, &other].iter().map(|f| index(Pool::Tcp, f, w)).collect();
                    if c.iter().any(|x| *x != c[0]) {
                        r.dev("C10/routing/tcp-sender-split-over-workers", "tcp-split", || json!({"kind": "routing", "a": format!("{a:?}"), "b": format!("{b:?}"), "ethernet": eth, "workers": w, "indexes": c}));
                    }
                    for x in h.iter().chain(t.iter()).chain(c.iter()).flatten() {
                        if *x >= w {
                            r.dev("C10/routing/index-out-of-range", "range", || json!({"kind": "routing", "workers": w, "index": x}));
                        }
                    }
                }
            }
        }
        r
    });
    *r = std::mem::take(r).merge(rep);
}

// ---------- (c) real pools ----------
fn conn_frames() -> Vec<Vec<Vec<u8>>> {
    let eps = endpoints();
    let mut conns: Vec<Vec<Vec<u8>>> = vec![];
    let hello = |sni: &str| tls::bytes(&Hello { exts: vec![Ext::Sni(sni.to_string()), Ext::SupVer(vec![0x0304, 0x0303]), Ext::SigAlgs(vec![0x0403])], ..Hello::default() });
    for k in 0..12usize {
        let c = Ep { port: 40000 + k as u16, ..eps[(k * 13 + 3) % eps.len()] };
        let mut s = eps[(k * 29 + 40) % eps.len()];
        if s.v6 != c.v6 {
            s = *eps.iter().find(|e| e.v6 == c.v6 && e.addr != c.addr).expect("same-family peer");
        }
        let s = Ep { port: if k % 3 == 1 { 443 } else { 80 }, ..s };
        let eth = k % 2 == 0;
        let mut f: Vec<Vec<u8>> = vec![];
        // SYN / SYN+ACK with TCP timestamps
        let mut syn = frame_between(&c, &s, SYN, 1000, &[], false);
        let mut synack = frame_between(&s, &c, SYN | ACK, 5000, &[], false);
        let _ = (&mut syn, &mut synack, ts_opts(1, 2));
        f.push(if eth { pkt::frame(pkt::Link::Ethernet, &syn) } else { syn });
        f.push(if eth { pkt::frame(pkt::Link::Ethernet, &synack) } else { synack });
        match k % 3 {
            0 => {
                let req = format!("GET /{k} HTTP/1.1\r\nHost: c{k}.example\r\nUser-Agent: agent-{k}\r\nAccept: */*\r\n\r\n").into_bytes();
                let resp = format!("HTTP/1.1 200 OK\r\nServer: srv-{k}\r\nContent-Type: text/html\r\n\r\nbody").into_bytes();
                f.push(frame_between(&c, &s, ACK | PSH, 1001, &req[..20], eth));
                f.push(frame_between(&c, &s, ACK | PSH, 1021, &req[20..], eth));
                f.push(frame_between(&s, &c, ACK | PSH, 5001, &resp, eth));
            }
            1 => {
                let h = hello(&format!("t{k}.example"));
                f.push(frame_between(&c, &s, ACK | PSH, 1001, &h[..9], eth));
                if k % 2 == 1 {
                    // the server repeats its SYN+ACK (it missed the client's ACK) while the hello is under way
                    let again = f[1].clone();
                    f.push(again);
                }
                f.push(frame_between(&c, &s, ACK | PSH, 1010, &h[9..60], eth));
                f.push(frame_between(&c, &s, ACK | PSH, 1061, &h[60..], eth));
            }
            _ => {
                let req = format!("POST /{k} HTTP/1.0\r\nHost: c{k}.example\r\nUser-Agent: other-{k}\r\n\r\n").into_bytes();
                f.push(frame_between(&c, &s, ACK | PSH, 1001, &req, eth));
                f.push(frame_between(&s, &c, ACK | PSH, 5001, b"HTTP/1.0 404 Not Found\r\nServer: x\r\n\r\n", eth));
                f.push(frame_between(&c, &s, ACK | 1, 1001 + req.len() as u32, &[], eth));
            }
        }
        conns.push(f);
    }
    // a connection whose every frame is as large as its headers allow: 40 bytes of IPv4 options and 40 bytes of TCP options
    // on the SYN, the SYN+ACK and a data segment that carries a request (Ethernet framed: 14 + 60 + 60 header bytes), and
    // a response in a 9000-byte jumbo segment -- a pool must analyse the bytes it was handed, all of them
    {
        let full_opts = |flags: u8| -> Vec<u8> {
            let mut o = if flags & SYN != 0 { vec![2, 4, 5, 0xb4, 4, 2, 8, 10, 0, 0, 0, 9, 0, 0, 0, 0, 1, 3, 3, 7] } else { vec![1, 1, 8, 10, 0, 0, 0, 9, 0, 0, 0, 7] };
            while o.len() < 40 {
                o.push(1);
            }
            o
        };
        let mk = |from_client: bool, flags: u8, seq: u32, payload: &[u8], ipw: u8| {
            let (src, sport, dst, dport) = if from_client { (61u8, 47000u16, 62u8, 80u16) } else { (62, 80, 61, 47000) };
            pkt::frame(pkt::Link::Ethernet, &pkt::build(&Spec { src, sport, dst, dport, flags, seq, ack: if flags & ACK != 0 { 1 } else { 0 }, ip_opt_words: ipw, opts: full_opts(flags), payload: payload.to_vec(), ..Spec::default() }))
        };
        let req = b"GET /full HTTP/1.1\r\nHost: full.example\r\nUser-Agent: full-headers\r\nAccept: */*\r\n\r\n";
        let mut resp = b"HTTP/1.1 200 OK\r\nServer: jumbo\r\nContent-Type: text/html\r\n\r\n".to_vec();
        resp.resize(8900, b'j');
        conns.push(vec![mk(true, SYN, 1000, &[], 10), mk(false, SYN | ACK, 5000, &[], 10), mk(true, ACK | PSH, 1001, req, 10), mk(true, ACK | PSH, 1001 + req.len() as u32, b"x", 10), mk(false, ACK | PSH, 5001, &resp, 0)]);
    }
    conns
}
/// round-robin interleaving of the connections' packets (each connection keeps its order)
fn interleave(conns: &[Vec<Vec<u8>>]) -> Vec<Vec<u8>> {
    let mut out = vec![];
    let max = conns.iter().map(|c| c.len()).max().unwrap_or(0);
    for i in 0..max {
        for c in conns {
            if let Some(f) = c.get(i) {
                out.push(f.clone());
            }
        }
    }
    out
}
fn conn_key(x: &str, per_host: bool) -> String {
    let field = |name: &str| x.split(&format!("{name}: Some(\"")).nth(1).or_else(|| x.split(&format!("{name}: \"")).nth(1)).map(|t| t.split('"').next().unwrap_or("").to_string()).unwrap_or_default();
    let (s, d) = (field("src"), field("dst"));
    if per_host {
        s.rsplit_once(':').map(|p| p.0.to_string()).unwrap_or(s)
    } else if s <= d {
        format!("{s}<>{d}")
    } else {
        format!("{d}<>{s}")
    }
}

/// dispatch the given traces, one thread per trace (one trace: the calling thread)
fn feed(dispatch: &(dyn Fn(Vec<u8>) -> bool + Sync), traces: &[Vec<Vec<u8>>]) -> Result<(), String> {
    let ok = if traces.len() == 1 {
        traces[0].iter().all(|f| dispatch(f.clone()))
    } else {
        std::thread::scope(|sc| {
            let hs: Vec<_> = traces.iter().map(|t| sc.spawn(move || t.iter().all(|f| dispatch(f.clone())))).collect();
            hs.into_iter().map(|h| h.join().unwrap_or(false)).fold(true, |a, b| a && b)
        })
    };
    if ok {
        Ok(())
    } else {
        Err("dropped although the queue cannot overflow".into())
    }
}
fn pools(r: &mut Report, thorough: bool) {
    huginn_net_tcp::uptime::verif_clock::set_global(T0);
    let trace = interleave(&conn_frames());
    let d = crate::drv::db_arc();
    // sequential references
    let seq_tcp: Vec<String> = {
        crate::drv::set_clock(T0);
        let mut a = TcpSeq::new(Some(crate::drv::db()), 1000);
        trace.iter().map(|f| a.feed(f)).filter(|x| !x.is_empty()).map(|x| format!("{x:?}")).collect()
    };
    let seq_http: Vec<String> = {
        let mut a = HttpSeq::new(Some(crate::drv::db()), 1000);
        trace.iter().map(|f| a.feed(f)).filter(|x| !x.is_empty()).map(|x| format!("{x:?}")).collect()
    };
    let seq_tls: Vec<String> = {
        let mut a = TlsSeq::new(1000);
        trace.iter().map(|f| a.feed(f)).filter(|x| !x.is_empty()).map(|x| format!("{x:?}")).collect()
    };
    r.sample(|| json!({"trace_packets": trace.len(), "sequential_results": {"tcp": seq_tcp.len(), "http": seq_http.len(), "tls": seq_tls.len()}}));
    // (a sequential analyzer that loses some of the four TLS connections is a finding of the comparison below, not a reason to stop)
    if seq_tcp.len() < 12 || seq_http.len() < 12 || seq_tls.len() < 2 {
        r.machinery_error(format!("sequential reference too small: tcp {} http {} tls {}", seq_tcp.len(), seq_http.len(), seq_tls.len()));
        return;
    }
    let worker_counts: Vec<usize> = if thorough { (1..=16).collect() } else { vec![1, 2, 3, 4, 7, 8, 16] };
    // two dispatcher threads (`dispatch` takes &self, the pools are handed out behind an Arc): each feeds the connections of
    // one half of the trace, in order
    let halves: Vec<Vec<Vec<u8>>> = {
        let conns = conn_frames();
        (0..2).map(|h| interleave(&conns.iter().enumerate().filter(|(i, _)| i % 2 == h).map(|(_, c)| c.clone()).collect::<Vec<_>>())).collect()
    };
    for &w in &worker_counts {
        for batch in [1usize, 2, 32] {
            for (timeout, dispatchers) in [(1u64, 1usize), (10, 1), (1, 2)] {
                for pool in ["tcp", "http", "tls"] {
                    r.exec(trace.len() as u64);
                    let res = guarded(|| -> Result<Vec<String>, String> {
                        match pool {
                            "tcp" => {
                                let (tx, rx) = std::sync::mpsc::channel();
                                let p = huginn_net_tcp::WorkerPool::new(w, trace.len() + 1, batch, timeout, tx, Some(d.clone()), 1000, None).map_err(|e| e.to_string())?;
                                feed(&|f| p.dispatch(f) == huginn_net_tcp::DispatchResult::Queued, if dispatchers == 1 { std::slice::from_ref(&trace) } else { &halves })?;
                                drop(p);
                                Ok(rx.iter().map(|x| tcp_res(&x)).filter(|x| !x.is_empty()).map(|x| format!("{x:?}")).collect())
                            }
                            "http" => {
                                let (tx, rx) = std::sync::mpsc::channel();
                                let p = huginn_net_http::WorkerPool::new(w, trace.len() + 1, batch, timeout, tx, Some(d.clone()), 1000, None).map_err(|e| e.to_string())?;
                                feed(&|f| p.dispatch(f) == huginn_net_http::DispatchResult::Queued, if dispatchers == 1 { std::slice::from_ref(&trace) } else { &halves })?;
                                drop(p);
                                Ok(rx.iter().map(|x| http_res(&x)).filter(|x| !x.is_empty()).map(|x| format!("{x:?}")).collect())
                            }
                            _ => {
                                let (tx, rx) = std::sync::mpsc::channel();
                                let p = huginn_net_tls::WorkerPool::new(w, trace.len() + 1, batch, timeout, tx, 1000, None).map_err(|e| e.to_string())?;
                                feed(&|f| p.dispatch(f) == huginn_net_tls::DispatchResult::Queued, if dispatchers == 1 { std::slice::from_ref(&trace) } else { &halves })?;
                                drop(p);
                                Ok(rx.iter().map(|x| tls_out(&x)).map(|x| format!("{x:?}")).collect())
                            }
                        }
                    });
                    let cfg = json!({"kind": "pool", "pool": pool, "workers": w, "batch": batch, "timeout_ms": timeout, "dispatcher_threads": dispatchers});
                    let got = match res {
                        Err(p) => {
                            r.dev(format!("C10/pool/{pool}/panic"), "panic", || json!({"config": cfg, "detail": p}));
                            continue;
                        }
                        Ok(Err(e)) => {
                            r.dev(format!("C10/pool/{pool}/dispatch-failed"), "dispatch", || json!({"config": cfg, "detail": e}));
                            continue;
                        }
                        Ok(Ok(g)) => g,
                    };
                    let seq = match pool {
                        "tcp" => &seq_tcp,
                        "http" => &seq_http,
                        _ => &seq_tls,
                    };
                    r.outcome(&(pool, w, got.len()));
                    let (mut a, mut b) = (got.clone(), seq.clone());
                    a.sort();
                    b.sort();
                    if a != b {
                        let missing = b.iter().filter(|x| !a.contains(x)).count();
                        let extra = a.iter().filter(|x| !b.contains(x)).count();
                        r.dev(format!("C10/pool/{pool}/results-differ-from-sequential"), "multiset", || json!({"config": cfg, "sequential": seq.len(), "pool": got.len(), "missing": missing, "unexpected": extra, "first_missing": b.iter().find(|x| !a.contains(x))}));
                        continue;
                    }
                    let per_host = pool == "tcp";
                    if dispatchers > 1 && per_host {
                        // two connections of the trace share a client address: their relative order is the dispatchers' race
                        continue;
                    }
                    let mut keys: Vec<String> = seq.iter().map(|x| conn_key(x, per_host)).collect();
                    keys.sort();
                    keys.dedup();
                    for k in keys {
                        let ga: Vec<&String> = got.iter().filter(|x| conn_key(x, per_host) == k).collect();
                        let sa: Vec<&String> = seq.iter().filter(|x| conn_key(x, per_host) == k).collect();
                        if ga != sa {
                            r.dev(format!("C10/pool/{pool}/order-not-preserved"), "order", || json!({"config": cfg, "key": k}));
                            break;
                        }
                    }
                }
            }
        }
    }
    huginn_net_tcp::uptime::verif_clock::clear_global();
}

/// The documented way to get a pool: `with_config(...)` + `init_pool(...)` + `worker_pool()`. More connections are open
/// at the same time than the QUEUE holds but fewer than `max_connections`: if the analyzer hands its settings to the
/// pool in the wrong places (capacity, queue, batch), results are lost that the sequential analyzer reports.
fn configured_route(r: &mut Report) {
    let d = crate::drv::db_arc();
    let trace = interleave(&conn_frames());
    let (max_conn, workers, queue, batch, timeout) = (64usize, 1usize, 4usize, 2usize, 5u64);
    let cfg = json!({"kind": "configured-route", "max_connections": max_conn, "workers": workers, "queue_size": queue, "batch_size": batch});
    // the link is quiet for a while (eight receive timeouts of the workers, real time): what a worker knows about its open
    // connections does not depend on how busy it is kept
    let idle_pause = || std::thread::sleep(std::time::Duration::from_millis(8 * timeout));
    let wait_drained = |queued: &dyn Fn() -> usize| {
        let t = std::time::Instant::now();
        while queued() > 0 && t.elapsed().as_secs() < 10 {
            std::thread::sleep(std::time::Duration::from_micros(200));
        }
    };
    // HTTP
    {
        let seq: Vec<String> = {
            let mut a = HttpSeq::new(Some(crate::drv::db()), max_conn);
            trace.iter().map(|f| a.feed(f)).filter(|x| !x.is_empty()).map(|x| format!("{x:?}")).collect()
        };
        let res = guarded(|| -> Result<Vec<String>, String> {
            let (tx, rx) = std::sync::mpsc::channel();
            let mut an = huginn_net_http::HuginnNetHttp::with_config(Some(d.clone()), max_conn, workers, queue, batch, timeout).map_err(|e| e.to_string())?;
            an.init_pool(tx).map_err(|e| e.to_string())?;
            let pool = an.worker_pool().ok_or("no pool")?.clone();
            for (i, f) in trace.iter().enumerate() {
                wait_drained(&|| pool.stats().workers.iter().map(|w| w.queue_size).sum());
                if i == trace.len() / 2 || i == trace.len() / 3 {
                    idle_pause();
                }
                if pool.dispatch(f.clone()) != huginn_net_http::DispatchResult::Queued {
                    return Err("dropped although at most one packet is in flight".into());
                }
            }
            drop(pool);
            drop(an);
            Ok(rx.iter().map(|x| http_res(&x)).filter(|x| !x.is_empty()).map(|x| format!("{x:?}")).collect())
        });
        compare_route(r, "http", &cfg, res, seq);
    }
    // TLS
    {
        let seq: Vec<String> = {
            let mut a = TlsSeq::new(max_conn);
            trace.iter().map(|f| a.feed(f)).filter(|x| !x.is_empty()).map(|x| format!("{x:?}")).collect()
        };
        let res = guarded(|| -> Result<Vec<String>, String> {
            let (tx, rx) = std::sync::mpsc::channel();
            let mut an = huginn_net_tls::HuginnNetTls::with_config_and_max_connections(workers, queue, batch, timeout, max_conn);
            an.init_pool(tx).map_err(|e| e.to_string())?;
            let pool = an.worker_pool().ok_or("no pool")?;
            for (i, f) in trace.iter().enumerate() {
                wait_drained(&|| pool.stats().workers.iter().map(|w| w.queue_size).sum());
                if i == trace.len() / 2 || i == trace.len() / 3 {
                    idle_pause();
                }
                if pool.dispatch(f.clone()) != huginn_net_tls::DispatchResult::Queued {
                    return Err("dropped although at most one packet is in flight".into());
                }
            }
            drop(pool);
            drop(an);
            Ok(rx.iter().map(|x| format!("{:?}", tls_out(&x))).collect())
        });
        compare_route(r, "tls", &cfg, res, seq);
    }
    // TCP: 12 hosts, a timestamped SYN each, one second later a timestamped ACK each (the uptime table must hold all 12)
    {
        let mk = |k: u8, flags: u8, ts: u32| pkt::build(&Spec { src: 100 + k, dst: 9, sport: 41000 + k as u16, dport: 80, flags, seq: 1000, ack: if flags & ACK != 0 { 7 } else { 0 }, opts: ts_opts(ts, 0), ..Spec::default() });
        let first: Vec<Vec<u8>> = (0..12u8).map(|k| mk(k, SYN, 1_000_000 + k as u32 * 17)).collect();
        let second: Vec<Vec<u8>> = (0..12u8).map(|k| mk(k, ACK, 1_001_000 + k as u32 * 17)).collect();
        let seq: Vec<String> = {
            let mut a = TcpSeq::new(Some(crate::drv::db()), max_conn);
            crate::drv::set_clock(T0);
            let mut v: Vec<String> = first.iter().map(|f| a.feed(f)).filter(|x| !x.is_empty()).map(|x| format!("{x:?}")).collect();
            crate::drv::set_clock(T0 + 1000);
            v.extend(second.iter().map(|f| a.feed(f)).filter(|x| !x.is_empty()).map(|x| format!("{x:?}")));
            crate::drv::set_clock(T0);
            v
        };
        if seq.iter().filter(|x| x.contains("client_uptime: Some")).count() < 12 {
            r.machinery_error("configured-route: the sequential TCP reference reports fewer than 12 uptime estimates");
        }
        let res = guarded(|| -> Result<Vec<String>, String> {
            let (tx, rx) = std::sync::mpsc::channel();
            let mut an = huginn_net_tcp::HuginnNetTcp::with_config(Some(d.clone()), max_conn, workers, queue, batch, timeout).map_err(|e| e.to_string())?;
            an.init_pool(tx).map_err(|e| e.to_string())?;
            let pool = an.worker_pool().ok_or("no pool")?;
            let mut got = vec![];
            for (clock, frames) in [(T0, &first), (T0 + 1000, &second)] {
                if clock != T0 {
                    idle_pause();
                }
                huginn_net_tcp::uptime::verif_clock::set_global(clock);
                for f in frames.iter() {
                    if pool.dispatch(f.clone()) != huginn_net_tcp::DispatchResult::Queued {
                        return Err("dropped although at most one packet is in flight".into());
                    }
                    // every TCP packet yields a result: lock-step keeps the clock phase exact
                    match rx.recv_timeout(std::time::Duration::from_secs(10)) {
                        Ok(x) => got.push(tcp_res(&x)),
                        Err(_) => return Err("no result within 10 s".into()),
                    }
                }
            }
            huginn_net_tcp::uptime::verif_clock::set_global(T0);
            drop(pool);
            drop(an);
            Ok(got.into_iter().filter(|x| !x.is_empty()).map(|x| format!("{x:?}")).collect())
        });
        compare_route(r, "tcp", &cfg, res, seq);
    }
}
/// The analyzers' own parallel mode end to end: `with_config` (+ `init_pool`) + `analyze_pcap` on a capture file, compared
/// with the same analyzer's sequential `analyze_pcap` on the same file. The queue holds the whole trace, so nothing may
/// be lost -- in particular not the packets that are still queued when the file has been read to its end.
fn pcap_route(r: &mut Report, thorough: bool) {
    huginn_net_tcp::uptime::verif_clock::set_global(T0);
    let trace = interleave(&conn_frames());
    let cap = 64usize;
    let seq_tcp: Vec<String> = crate::drv::tcp_pcap(&trace, None, cap).unwrap_or_default().into_iter().filter(|x| !x.is_empty()).map(|x| format!("{x:?}")).collect();
    let seq_http: Vec<String> = crate::drv::http_pcap(&trace, None, cap).unwrap_or_default().into_iter().filter(|x| !x.is_empty()).map(|x| format!("{x:?}")).collect();
    let seq_tls: Vec<String> = crate::drv::tls_pcap(&trace, None, cap).unwrap_or_default().into_iter().map(|x| format!("{x:?}")).collect();
    if seq_tcp.len() < 24 || seq_http.len() < 8 || seq_tls.len() < 2 {
        r.machinery_error(format!("pcap-route: the sequential references are too small ({} / {} / {})", seq_tcp.len(), seq_http.len(), seq_tls.len()));
    }
    // the per-packet functions are what the loom engine and the pool sweep use as "the sequential analyzer": bind them to
    // the analyzer objects' own sequential mode (same trace, same capacity, bundled database)
    {
        let d = crate::drv::db();
        let cfg = json!({"kind": "pcap-route", "route": "sequential analyze_pcap vs per-packet functions"});
        let mut a = TcpSeq::new(Some(d), cap);
        let f: Vec<String> = trace.iter().map(|x| a.feed(x)).filter(|x| !x.is_empty()).map(|x| format!("{x:?}")).collect();
        compare_named(r, "pcap-route", "tcp-sequential-object", &cfg, Ok(Ok(seq_tcp.clone())), f);
        let mut a = HttpSeq::new(Some(d), cap);
        let f: Vec<String> = trace.iter().map(|x| a.feed(x)).filter(|x| !x.is_empty()).map(|x| format!("{x:?}")).collect();
        compare_named(r, "pcap-route", "http-sequential-object", &cfg, Ok(Ok(seq_http.clone())), f);
        let mut a = TlsSeq::new(cap);
        let f: Vec<String> = trace.iter().map(|x| a.feed(x)).filter(|x| !x.is_empty()).map(|x| format!("{x:?}")).collect();
        compare_named(r, "pcap-route", "tls-sequential-object", &cfg, Ok(Ok(seq_tls.clone())), f);
    }
    let worker_counts: &[usize] = if thorough { &[1, 2, 3, 4, 8, 16] } else { &[1, 2, 4] };
    let rounds = if thorough { 5 } else { 2 };
    for &workers in worker_counts {
        for batch in [1usize, 2, 32] {
            for timeout in [1u64, 10] {
                for round in 0..rounds {
                    let cfg = json!({"kind": "pcap-route", "workers": workers, "batch_size": batch, "timeout_ms": timeout, "round": round});
                    let res = guarded(|| crate::drv::tcp_pcap_parallel(&trace, cap, workers, batch, timeout).map(|v| v.into_iter().filter(|x| !x.is_empty()).map(|x| format!("{x:?}")).collect::<Vec<_>>()));
                    compare_named(r, "pcap-route", "tcp", &cfg, res, seq_tcp.clone());
                    let res = guarded(|| crate::drv::http_pcap_parallel(&trace, cap, workers, batch, timeout).map(|v| v.into_iter().filter(|x| !x.is_empty()).map(|x| format!("{x:?}")).collect::<Vec<_>>()));
                    compare_named(r, "pcap-route", "http", &cfg, res, seq_http.clone());
                    for init in [true, false] {
                        let res = guarded(|| crate::drv::tls_pcap_parallel(&trace, cap, workers, batch, timeout, init).map(|v| v.into_iter().map(|x| format!("{x:?}")).collect::<Vec<_>>()));
                        compare_named(r, "pcap-route", if init { "tls" } else { "tls-own-pool" }, &cfg, res, seq_tls.clone());
                    }
                }
            }
        }
    }
}
/// `max_connections` is a per-worker budget (the pools give every worker a table of that size, as the sequential analyzer
/// has): K connections that the tree's own hash sends to ONE worker, all open at the same time, with max_connections = K,
/// must be analysed in parallel mode exactly as sequentially -- whatever the number of workers the budget could be
/// "shared" among. HTTP and TLS through analyze_pcap (init_pool, and the pool the TLS analyzer builds itself); TCP by
/// lock-step dispatch under the injected clock (K timestamped connections of one host, SYNs first, ACKs a second later).
fn budget_route(r: &mut Report) {
    huginn_net_tcp::uptime::verif_clock::set_global(T0);
    let k = 4usize;
    let mut a4 = [0u8; 16];
    a4[..4].copy_from_slice(&[10, 9, 8, 7]);
    let mut s4 = [0u8; 16];
    s4[..4].copy_from_slice(&[172, 16, 5, 5]);
    let hello = |sni: &str| tls::bytes(&Hello { exts: vec![Ext::Sni(sni.to_string()), Ext::SupVer(vec![0x0304, 0x0303]), Ext::SigAlgs(vec![0x0403])], ..Hello::default() });
    for workers in [2usize, 4, 16] {
        let cfg = json!({"kind": "budget-route", "workers": workers, "max_connections": k, "connections_on_one_worker": k});
        // --- TLS: k flows on one worker, two segments each, interleaved
        {
            let srv = Ep { v6: false, addr: s4, port: 443 };
            let mut ports = vec![];
            let mut want = None;
            for p in 40000u16..42000 {
                let f = frame_between(&Ep { v6: false, addr: a4, port: p }, &srv, ACK | PSH, 1001, &[0x16, 3, 1], true);
                let i = index(Pool::Tls, &f, workers);
                if want.is_none() {
                    want = i;
                }
                if i == want && i.is_some() {
                    ports.push(p);
                }
                if ports.len() == k {
                    break;
                }
            }
            if ports.len() < k {
                r.machinery_error("budget-route: no k TLS flows on one worker");
                continue;
            }
            let hs: Vec<Vec<u8>> = ports.iter().map(|p| hello(&format!("h{p}.example"))).collect();
            let mut trace = vec![];
            for (p, h) in ports.iter().zip(&hs) {
                trace.push(frame_between(&Ep { v6: false, addr: a4, port: *p }, &srv, ACK | PSH, 1001, &h[..40], true));
            }
            for (p, h) in ports.iter().zip(&hs) {
                trace.push(frame_between(&Ep { v6: false, addr: a4, port: *p }, &srv, ACK | PSH, 1041, &h[40..], true));
            }
            let seq: Vec<String> = crate::drv::tls_pcap(&trace, None, k).unwrap_or_default().into_iter().map(|x| format!("{x:?}")).collect();
            if seq.len() != k {
                r.machinery_error(format!("budget-route: the sequential TLS reference reports {} of {k} connections", seq.len()));
            }
            for init in [true, false] {
                let res = guarded(|| crate::drv::tls_pcap_parallel(&trace, k, workers, 2, 5, init).map(|v| v.into_iter().map(|x| format!("{x:?}")).collect::<Vec<_>>()));
                compare_named(r, "budget-route", if init { "tls" } else { "tls-own-pool" }, &cfg, res, seq.clone());
            }
        }
        // --- HTTP: k connections on one worker: SYN, SYN+ACK, request in two segments, response; interleaved
        {
            let srv = Ep { v6: false, addr: s4, port: 80 };
            let mut ports = vec![];
            let mut want = None;
            for p in 40000u16..42000 {
                let f = frame_between(&Ep { v6: false, addr: a4, port: p }, &srv, SYN, 1000, &[], true);
                let i = index(Pool::Http, &f, workers);
                if want.is_none() {
                    want = i;
                }
                if i == want && i.is_some() {
                    ports.push(p);
                }
                if ports.len() == k {
                    break;
                }
            }
            if ports.len() < k {
                r.machinery_error("budget-route: no k HTTP connections on one worker");
                continue;
            }
            let conns: Vec<Vec<Vec<u8>>> = ports
                .iter()
                .map(|&p| {
                    let c = Ep { v6: false, addr: a4, port: p };
                    let req = format!("GET /{p} HTTP/1.1\r\nHost: c{p}.example\r\nUser-Agent: agent-{p}\r\nAccept: */*\r\n\r\n").into_bytes();
                    let resp = format!("HTTP/1.1 200 OK\r\nServer: srv-{p}\r\nContent-Type: text/html\r\n\r\nbody").into_bytes();
                    vec![frame_between(&c, &srv, SYN, 1000, &[], true), frame_between(&srv, &c, SYN | ACK, 5000, &[], true), frame_between(&c, &srv, ACK | PSH, 1001, &req[..20], true), frame_between(&c, &srv, ACK | PSH, 1021, &req[20..], true), frame_between(&srv, &c, ACK | PSH, 5001, &resp, true)]
                })
                .collect();
            let trace = interleave(&conns);
            let seq: Vec<String> = crate::drv::http_pcap(&trace, None, k).unwrap_or_default().into_iter().filter(|x| !x.is_empty()).map(|x| format!("{x:?}")).collect();
            if seq.len() != 2 * k {
                r.machinery_error(format!("budget-route: the sequential HTTP reference reports {} results for {k} exchanges", seq.len()));
            }
            let res = guarded(|| crate::drv::http_pcap_parallel(&trace, k, workers, 2, 5).map(|v| v.into_iter().filter(|x| !x.is_empty()).map(|x| format!("{x:?}")).collect::<Vec<_>>()));
            compare_named(r, "budget-route", "http", &cfg, res, seq);
        }
        // --- TCP: k timestamped connections of ONE host (the pool shards by sender), SYNs first, ACKs one second later
        {
            let mk = |j: usize, flags: u8, ts: u32| pkt::build(&Spec { src: 77, dst: 9, sport: 41000 + j as u16, dport: 80, flags, seq: 1000, ack: if flags & ACK != 0 { 7 } else { 0 }, opts: ts_opts(ts, 0), ..Spec::default() });
            let first: Vec<Vec<u8>> = (0..k).map(|j| mk(j, SYN, 1_000_000 + j as u32 * 17)).collect();
            let second: Vec<Vec<u8>> = (0..k).map(|j| mk(j, ACK, 1_001_000 + j as u32 * 17)).collect();
            let seq: Vec<String> = {
                let mut a = TcpSeq::new(Some(crate::drv::db()), k);
                crate::drv::set_clock(T0);
                let mut v: Vec<String> = first.iter().map(|f| a.feed(f)).filter(|x| !x.is_empty()).map(|x| format!("{x:?}")).collect();
                crate::drv::set_clock(T0 + 1000);
                v.extend(second.iter().map(|f| a.feed(f)).filter(|x| !x.is_empty()).map(|x| format!("{x:?}")));
                huginn_net_tcp::uptime::verif_clock::clear_local();
                v
            };
            if seq.iter().filter(|x| x.contains("client_uptime: Some")).count() < k {
                r.machinery_error("budget-route: the sequential TCP reference reports fewer than k uptime estimates");
            }
            let d = crate::drv::db_arc();
            let res = guarded(|| -> Result<Vec<String>, String> {
                let (tx, rx) = std::sync::mpsc::channel();
                let mut an = huginn_net_tcp::HuginnNetTcp::with_config(Some(d.clone()), k, workers, 64, 2, 5).map_err(|e| e.to_string())?;
                an.init_pool(tx).map_err(|e| e.to_string())?;
                let pool = an.worker_pool().ok_or("no pool")?;
                let mut got = vec![];
                for (clock, frames) in [(T0, &first), (T0 + 1000, &second)] {
                    huginn_net_tcp::uptime::verif_clock::set_global(clock);
                    for f in frames.iter() {
                        if pool.dispatch(f.clone()) != huginn_net_tcp::DispatchResult::Queued {
                            return Err("dropped although at most one packet is in flight".into());
                        }
                        match rx.recv_timeout(std::time::Duration::from_secs(10)) {
                            Ok(x) => got.push(tcp_res(&x)),
                            Err(_) => return Err("no result within 10 s".into()),
                        }
                    }
                }
                huginn_net_tcp::uptime::verif_clock::set_global(T0);
                drop(pool);
                drop(an);
                Ok(got.into_iter().filter(|x| !x.is_empty()).map(|x| format!("{x:?}")).collect())
            });
            huginn_net_tcp::uptime::verif_clock::set_global(T0);
            compare_named(r, "budget-route", "tcp", &cfg, res, seq);
        }
    }
}
fn compare_route(r: &mut Report, pool: &str, cfg: &Value, res: Result<Result<Vec<String>, String>, String>, seq: Vec<String>) {
    compare_named(r, "configured-route", pool, cfg, res, seq)
}
fn compare_named(r: &mut Report, route: &str, pool: &str, cfg: &Value, res: Result<Result<Vec<String>, String>, String>, seq: Vec<String>) {
    r.exec(seq.len() as u64);
    match res {
        Err(p) => r.dev(format!("C10/{route}/{pool}/panic"), "panic", || json!({"config": cfg, "detail": p})),
        Ok(Err(e)) => r.dev(format!("C10/{route}/{pool}/dispatch-failed"), "dispatch", || json!({"config": cfg, "detail": e})),
        Ok(Ok(got)) => {
            r.outcome(&(route, pool, got.len()));
            let (mut a, mut b) = (got.clone(), seq.clone());
            a.sort();
            b.sort();
            if a != b {
                let missing = b.iter().filter(|x| !a.contains(x)).count();
                r.dev(format!("C10/{route}/{pool}/results-differ-from-sequential"), "multiset", || json!({"config": cfg, "sequential": seq.len(), "pool": got.len(), "missing": missing, "first_missing": b.iter().find(|x| !a.contains(x)).map(|s| &s[..s.len().min(300)])}));
            }
        }
    }
}

pub fn run(thorough: bool) -> Outcome {
    let mut r = Report::new();
    routing(&mut r, thorough);
    pools(&mut r, thorough);
    configured_route(&mut r);
    pcap_route(&mut r, thorough);
    budget_route(&mut r);
    Outcome {
        report: r,
        rule: "routing: every ordered same-family pair of 144 endpoints (12 IPv4 + 6 IPv6 addresses with all bytes varied x 8 ports), raw and Ethernet, x worker counts: SYN, SYN+ACK, request, response, further segment and FIN of a connection on one HTTP worker; all client segments on one TLS worker; everything a host sends on one TCP worker. pools: a 13-connection interleaved trace (one connection with 40 bytes of IPv4 options and 40 bytes of TCP options on every frame incl. data segments, and a 9000-byte response) through real TCP / HTTP / TLS pools for worker counts x batch {1,2,32} x timeout {1,10} ms, fed by one dispatcher thread and by two (each one half of the connections) (schedules sampled, not enumerated) compared with the sequential analyzers as multiset and per connection / sender order; configured route: with_config + init_pool + worker_pool of each analyzer with 12 simultaneously open connections, queue size 4, capacity 64 (TCP: timestamped SYN and ACK one second apart under the injected clock), lock-step dispatch with two real pauses of eight worker receive timeouts while connections are half delivered, results equal to the sequential analyzer; pcap route: with_config (+ init_pool) + analyze_pcap of each analyzer on the 12-connection trace written to a capture file, queue larger than the trace, worker counts x batch {1,2,32} x timeout {1,10} ms x repeated rounds (schedules sampled), results equal as a multiset to the same analyzer's sequential analyze_pcap; budget route: 4 connections that the tree's hash sends to one worker, open at the same time, max_connections = 4, workers {2,4,16}: parallel mode (HTTP / TLS through analyze_pcap incl. the pool the TLS analyzer builds itself, TCP lock-step under the injected clock) equals sequential; distinct = distinct routing / delivery outcomes".into(),
        exhaustive: true,
        bounds: json!({"endpoints": endpoints().len(), "note": "the pool part samples schedules; schedule coverage comes from the loom engine"}),
    }
}

pub fn replay(ex: &Value) -> Report {
    let mut r = Report::new();
    if ex["kind"].as_str() == Some("routing") {
        routing(&mut r, true);
    } else if ex["kind"].as_str() == Some("pcap-route") || ex["config"]["kind"].as_str() == Some("pcap-route") {
        pcap_route(&mut r, false);
    } else if ex["config"]["kind"].as_str() == Some("budget-route") {
        budget_route(&mut r);
    } else if ex["config"]["kind"].as_str() == Some("configured-route") {
        configured_route(&mut r);
    } else {
        pools(&mut r, false);
    }
    r
}
