//! C06 — signature text round-trips and the database loads losslessly.
//! (a) value -> print -> parse -> same value over the p0f vocabulary (whole field domains + a full
//! product of a field alphabet); (b) every bundled signature line prints back identically; (c) every
//! database text of up to 5 lines over an 18-kind line alphabet is loaded by the real loader and by an
//! independent line-oriented reference; both must agree (content, order, label attachment) or both reject.
use crate::report::{guarded, par_slices, Report};
use crate::Outcome;
use huginn_net_db::http::{Header, Signature as HSig, Version};
use huginn_net_db::tcp::{IpVersion, PayloadSize, Quirk, Signature as TSig, TcpOption, Ttl, WindowSize};
use huginn_net_db::Database;
use serde_json::{json, Value};
use std::str::FromStr;

pub fn all_quirks() -> Vec<Quirk> {
    use Quirk::*;
    vec![Df, NonZeroID, ZeroID, Ecn, MustBeZero, FlowID, SeqNumZero, AckNumNonZero, AckNumZero, NonZeroURG, Urg, Push, OwnTimestampZero, PeerTimestampNonZero, TrailinigNonZero, ExcessiveWindowScaling, OptBad]
}
fn base_sigs() -> Vec<TSig> {
    vec![
        TSig { version: IpVersion::Any, ittl: Ttl::Value(64), olen: 0, mss: None, wsize: WindowSize::Mss(4), wscale: Some(7), olayout: vec![TcpOption::Mss, TcpOption::Sok, TcpOption::TS, TcpOption::Nop, TcpOption::Ws], quirks: vec![Quirk::Df, Quirk::NonZeroID], pclass: PayloadSize::Zero },
        TSig { version: IpVersion::V4, ittl: Ttl::Distance(57, 7), olen: 4, mss: Some(1460), wsize: WindowSize::Value(8192), wscale: None, olayout: vec![TcpOption::Mss, TcpOption::Eol(1)], quirks: vec![], pclass: PayloadSize::NonZero },
        TSig { version: IpVersion::V6, ittl: Ttl::Bad(255), olen: 0, mss: Some(0), wsize: WindowSize::Any, wscale: Some(0), olayout: vec![TcpOption::Unknown(33)], quirks: all_quirks(), pclass: PayloadSize::Any },
        TSig { version: IpVersion::V4, ittl: Ttl::Guess(128), olen: 255, mss: Some(65535), wsize: WindowSize::Mod(1024), wscale: Some(255), olayout: vec![TcpOption::Nop, TcpOption::Nop, TcpOption::Sack], quirks: vec![Quirk::OptBad], pclass: PayloadSize::Zero },
    ]
}

fn rt_tcp(r: &mut Report, v: &TSig, field: &str) {
    r.exec(1);
    let text = v.to_string();
    r.outcome(&text);
    match guarded(|| TSig::from_str(&text)) {
        Ok(Ok(back)) => {
            if &back != v {
                let class = if text.contains(":?") || text.contains(",?") { "tcp-print-parse-differs".to_string() } else { "tcp-print-parse-differs".to_string() };
                r.dev(format!("C06/{class}/{field}"), class, || json!({"kind": "tcp-value", "text": text, "reparsed": back.to_string(), "field": field}));
            }
        }
        Ok(Err(e)) => {
            let class = if v.olayout.is_empty() { "tcp-empty-option-layout-does-not-parse" } else { "tcp-printed-value-does-not-parse" };
            let key = if v.olayout.is_empty() { format!("C06/{class}") } else { format!("C06/{class}/{field}") };
            r.dev(key, class, || json!({"kind": "tcp-value", "text": text, "error": e.to_string(), "field": field}))
        }
        Err(p) => r.dev("C06/panic", "panic", || json!({"kind": "tcp-value", "text": text, "detail": p})),
    }
}
fn rt_http(r: &mut Report, v: &HSig) {
    r.exec(1);
    let text = v.to_string();
    r.outcome(&text);
    match guarded(|| HSig::from_str(&text)) {
        Ok(Ok(back)) => {
            if &back != v {
                r.dev("C06/http-print-parse-differs", "http-print-parse-differs", || json!({"kind": "http-value", "text": text, "reparsed": back.to_string()}));
            }
        }
        Ok(Err(e)) => r.dev("C06/http-printed-value-does-not-parse", "http-printed-value-does-not-parse", || json!({"kind": "http-value", "text": text, "error": e.to_string()})),
        Err(p) => r.dev("C06/panic", "panic", || json!({"kind": "http-value", "text": text, "detail": p})),
    }
}

fn values_tcp(r: &mut Report) {
    // (1) every field over its whole domain, the others at each base signature
    for b in base_sigs() {
        for x in 0..=255u8 {
            for t in [Ttl::Value(x), Ttl::Guess(x), Ttl::Bad(x)] {
                rt_tcp(r, &TSig { ittl: t, ..b.clone() }, "ittl");
            }
            for d in 0..=30u8 {
                rt_tcp(r, &TSig { ittl: Ttl::Distance(x, d), ..b.clone() }, "ittl");
            }
            rt_tcp(r, &TSig { ittl: Ttl::Distance(x, 255), ..b.clone() }, "ittl");
            rt_tcp(r, &TSig { olen: x, ..b.clone() }, "olen");
            rt_tcp(r, &TSig { wscale: Some(x), ..b.clone() }, "wscale");
            rt_tcp(r, &TSig { wsize: WindowSize::Mss(x), ..b.clone() }, "wsize");
            rt_tcp(r, &TSig { wsize: WindowSize::Mtu(x), ..b.clone() }, "wsize");
            for pos in 0..=b.olayout.len() {
                for o in [TcpOption::Eol(x), TcpOption::Unknown(x)] {
                    let mut l = b.olayout.clone();
                    l.insert(pos, o);
                    rt_tcp(r, &TSig { olayout: l, ..b.clone() }, "olayout");
                }
            }
        }
        for x in 0..=65535u16 {
            rt_tcp(r, &TSig { mss: Some(x), ..b.clone() }, "mss");
            rt_tcp(r, &TSig { wsize: WindowSize::Value(x), ..b.clone() }, "wsize");
            rt_tcp(r, &TSig { wsize: WindowSize::Mod(x), ..b.clone() }, "wsize");
        }
        // quirks: singles, all ordered pairs, all together, none
        let q = all_quirks();
        rt_tcp(r, &TSig { quirks: vec![], ..b.clone() }, "quirks");
        rt_tcp(r, &TSig { quirks: q.clone(), ..b.clone() }, "quirks");
        for a in &q {
            rt_tcp(r, &TSig { quirks: vec![a.clone()], ..b.clone() }, "quirks");
            for c in &q {
                rt_tcp(r, &TSig { quirks: vec![a.clone(), c.clone()], ..b.clone() }, "quirks");
            }
        }
        // option layouts: every list of length <= 3 over the 8 option kinds, and the empty layout
        let opts = [TcpOption::Eol(0), TcpOption::Nop, TcpOption::Mss, TcpOption::Ws, TcpOption::Sok, TcpOption::Sack, TcpOption::TS, TcpOption::Unknown(9)];
        rt_tcp(r, &TSig { olayout: vec![], ..b.clone() }, "olayout");
        for a in &opts {
            rt_tcp(r, &TSig { olayout: vec![a.clone()], ..b.clone() }, "olayout");
            for c in &opts {
                rt_tcp(r, &TSig { olayout: vec![a.clone(), c.clone()], ..b.clone() }, "olayout");
                for d in &opts {
                    rt_tcp(r, &TSig { olayout: vec![a.clone(), c.clone(), d.clone()], ..b.clone() }, "olayout");
                }
            }
        }
    }
}
fn product_tcp() -> Vec<TSig> {
    let vers = [IpVersion::V4, IpVersion::V6, IpVersion::Any];
    let ttls = [Ttl::Value(0), Ttl::Value(64), Ttl::Value(255), Ttl::Distance(57, 7), Ttl::Distance(255, 0), Ttl::Guess(64), Ttl::Bad(64), Ttl::Bad(0)];
    let olens = [0u8, 4, 255];
    let msss = [None, Some(0u16), Some(1460), Some(65535)];
    let wins = [WindowSize::Any, WindowSize::Mss(0), WindowSize::Mss(44), WindowSize::Mtu(1), WindowSize::Mtu(255), WindowSize::Value(0), WindowSize::Value(65535), WindowSize::Mod(256), WindowSize::Mod(8192)];
    let wss = [None, Some(0u8), Some(14)];
    let lays = [vec![TcpOption::Mss], vec![TcpOption::Mss, TcpOption::Nop, TcpOption::Ws], vec![TcpOption::Nop, TcpOption::Nop, TcpOption::TS], vec![TcpOption::Mss, TcpOption::Eol(0)], vec![TcpOption::Eol(3)], vec![TcpOption::Unknown(0), TcpOption::Unknown(255)], vec![TcpOption::Sok, TcpOption::Sack], vec![TcpOption::Mss, TcpOption::Sok, TcpOption::TS, TcpOption::Nop, TcpOption::Ws]];
    let qs = [vec![], vec![Quirk::Df], vec![Quirk::Df, Quirk::NonZeroID], vec![Quirk::ZeroID, Quirk::Ecn, Quirk::MustBeZero], vec![Quirk::OwnTimestampZero, Quirk::PeerTimestampNonZero, Quirk::TrailinigNonZero], all_quirks()];
    let pcs = [PayloadSize::Zero, PayloadSize::NonZero, PayloadSize::Any];
    let mut v = vec![];
    for a in &vers {
        for b in &ttls {
            for c in &olens {
                for d in &msss {
                    for e in &wins {
                        for f in &wss {
                            for g in &lays {
                                for h in &qs {
                                    for i in &pcs {
                                        v.push(TSig { version: *a, ittl: b.clone(), olen: *c, mss: *d, wsize: e.clone(), wscale: *f, olayout: g.clone(), quirks: h.clone(), pclass: *i });
                                    }
                                }
                            }
                        }
                    }
                }
            }
        }
    }
    v
}
fn http_values() -> Vec<HSig> {
    let hs = vec![
        Header::new("A"),
        Header::new("A").optional(),
        Header::new("A").with_value("v"),
        Header::new("A").with_value("v, w;q=").optional(),
        Header::new("X-Y"),
        Header::new("Accept-Encoding").with_value("gzip,deflate"),
        Header::new("B").with_value(""),
    ];
    // every character that means something to the grammar, inside a bracketed value and in header names
    let special_values = ["a:b", "k=v", "?q", "x y", "[", "a,b", "=[", "1.1 squid:3128", "*/*;q=0.8", "\\", "\"", "é", ";", "-"];
    let mut lists: Vec<Vec<Header>> = vec![vec![]];
    for a in &hs {
        lists.push(vec![a.clone()]);
        for b in &hs {
            lists.push(vec![a.clone(), b.clone()]);
            for c in &hs {
                lists.push(vec![a.clone(), b.clone(), c.clone()]);
            }
        }
    }
    let mut v = vec![];
    for val in special_values {
        for opt in [false, true] {
            let h = Header { optional: opt, name: "X-Custom-9".to_string(), value: Some(val.to_string()) };
            for (ho, ha) in [(vec![h.clone()], vec![]), (vec![Header::new("Host"), h.clone(), Header::new("Accept")], vec![h.clone()]), (vec![Header::new("Host")], vec![Header::new("Via"), h.clone()])] {
                for sw in ["", "a:b c/1.0", val] {
                    v.push(HSig { version: Version::Any, horder: ho.clone(), habsent: ha.clone(), expsw: sw.to_string() });
                }
            }
        }
    }
    for ver in [Version::V10, Version::V11, Version::Any] {
        for ho in lists.iter().filter(|l| !l.is_empty()) {
            for ha in lists.iter().filter(|l| l.len() <= 2) {
                for sw in ["", "a", "a b/1.0 (c; d)", "x:y", "Apache"] {
                    v.push(HSig { version: ver, horder: ho.clone(), habsent: ha.clone(), expsw: sw.to_string() });
                }
            }
        }
    }
    v
}

// ---- bundled lines ----
fn bundled_lines(r: &mut Report) {
    let txt = include_str!("/repo/huginn-net-db/config/p0f.fp");
    let mut module = String::new();
    for (ln, line) in txt.lines().enumerate() {
        let l = line.trim();
        if l.starts_with('[') {
            module = l.to_string();
            continue;
        }
        let Some(rest) = l.strip_prefix("sig") else { continue };
        let v = rest.trim_start().trim_start_matches('=').trim();
        r.exec(1);
        let printed = if module.starts_with("[tcp") {
            TSig::from_str(v).map(|s| (s.to_string(), TSig::from_str(&s.to_string()).ok() == Some(s))).map_err(|e| e.to_string())
        } else if module.starts_with("[http") {
            HSig::from_str(v).map(|s| (s.to_string(), HSig::from_str(&s.to_string()).ok() == Some(s))).map_err(|e| e.to_string())
        } else {
            continue;
        };
        match printed {
            Ok((p, value_rt)) => {
                r.outcome(&p);
                if p != v || !value_rt {
                    r.dev(format!("C06/bundled-line-not-stable/line{}", ln + 1), "bundled-line-not-stable", || json!({"kind": "bundled-line", "line": ln + 1, "text": v, "printed": p, "value_round_trip": value_rt}));
                }
            }
            Err(e) => r.dev(format!("C06/bundled-line-does-not-parse/line{}", ln + 1), "bundled-line-does-not-parse", || json!({"kind": "bundled-line", "line": ln + 1, "text": v, "error": e})),
        }
    }
}

// ---- database texts ----
pub const LINE_KINDS: [&str; 23] = [
    "[tcp:request]",
    "[tcp:response]",
    "[http:request]",
    "[http:response]",
    "[mtu]",
    "label = s:unix:Linux:3.x",
    "label = g:!:Other:",
    "sig   = *:64:0:*:mss*10,6:mss,sok,ts,nop,ws:df,id+:0",
    "sig = 4:128:0:1460:8192,0:mss,nop,nop,sok:df,id+:0",
    "sig   = 1:Host,User-Agent,?Cookie,Accept=[*/*;q=0.8],?Via=[1.1 squid:3128]:Via,Accept-Charset:Firefox/",
    "sig = 1500",
    "sig = 4:64:0",
    "classes = win,unix",
    "ua_os = Linux,Windows=[NT],Mac OS X",
    "sys = @unix",
    "; comment",
    "",
    "garbage",
    // free text that ends with a bracket is not a section header; a section header followed by text is not one either
    "label = s:unix:Linux:2.6.x: build 3:1 [legacy]",
    "sig   = 1:Host,User-Agent:Via:SomeBot/1.0 [en]",
    "label = Ethernet [std]",
    "[tcp:request] these are the SYN signatures",
    // class names are alphanumeric: digits inside and in front
    "classes = win,unix,bsd4,9x,other",
];
#[derive(Debug, Default, PartialEq, Clone)]
pub struct DbDesc {
    pub classes: Vec<String>,
    pub mtu: Vec<(String, Vec<u16>)>,
    pub ua_os: Vec<(String, Option<String>)>,
    /// per table: (label text, [signature text])
    pub tables: [Vec<(String, Vec<String>)>; 4],
}
/// Independent reference loader: a line-oriented section state machine over the *text*.
pub fn ref_load(text: &str) -> Result<DbDesc, String> {
    let mut d = DbDesc::default();
    let mut section: Option<String> = None;
    for raw in text.lines() {
        let line = raw.trim();
        if line.is_empty() || line.starts_with(';') {
            continue;
        }
        if line.starts_with('[') && line.ends_with(']') {
            section = Some(line[1..line.len() - 1].to_string());
            continue;
        }
        let (name, value) = match line.split_once('=') {
            Some((n, v)) => (n.trim(), v.trim()),
            None => return Err(format!("not a name=value line: {line}")),
        };
        if name == "classes" {
            d.classes.extend(value.split(',').map(|s| s.trim().to_string()).filter(|s| !s.is_empty()));
            continue;
        }
        if name == "ua_os" {
            for e in value.split(',') {
                let e = e.trim();
                match e.split_once("=[") {
                    Some((n, v)) => d.ua_os.push((n.trim().to_string(), Some(v.trim_end_matches(']').to_string()))),
                    None => d.ua_os.push((e.to_string(), None)),
                }
            }
            continue;
        }
        let Some(sec) = section.as_deref() else { return Err(format!("line outside a section: {line}")) };
        let table = match sec {
            "tcp:request" => Some(0),
            "tcp:response" => Some(1),
            "http:request" => Some(2),
            "http:response" => Some(3),
            _ => None,
        };
        match (name, sec, table) {
            ("label", "mtu", _) => d.mtu.push((value.to_string(), vec![])),
            ("sig", "mtu", _) => {
                let n: u16 = value.parse().map_err(|_| format!("bad mtu {value}"))?;
                d.mtu.last_mut().ok_or("mtu value without label")?.1.push(n);
            }
            ("label", _, Some(t)) => {
                // ty:class:name:flavor — canonical text is what Label prints
                let parts: Vec<&str> = value.splitn(4, ':').collect();
                if parts.len() < 3 || !(parts[0] == "s" || parts[0] == "g") {
                    return Err(format!("bad label {value}"));
                }
                d.tables[t].push((value.to_string(), vec![]));
            }
            ("sig", _, Some(t)) => {
                // independent of the implementation's grammar: a signature line is taken as written (the
                // alphabet and the bundled file hold canonical lines) and judged by its field count outside
                // brackets: 8 colon-separated fields for TCP, 4 for HTTP
                let mut depth = 0;
                let mut fields = 1;
                for c in value.chars() {
                    match c {
                        '[' => depth += 1,
                        ']' => depth -= 1,
                        ':' if depth == 0 && (t < 2 || fields < 4) => fields += 1,
                        _ => {}
                    }
                }
                let first = value.split(':').next().unwrap_or("");
                let first_ok = if t < 2 { ["4", "6", "*"].contains(&first) } else { ["0", "1", "*"].contains(&first) };
                if !first_ok || fields != if t < 2 { 8 } else { 4 } {
                    return Err(format!("signature with {fields} fields in table {t}: {value}"));
                }
                d.tables[t].last_mut().ok_or("signature without label")?.1.push(value.to_string());
            }
            ("sys", _, _) => {}
            _ => {}
        }
    }
    Ok(d)
}
fn label_text(l: &huginn_net_db::Label) -> String {
    // the four parts are joined with a character no label holds: a flavour may contain colons ("2.6.x: build 3:1"), and
    // joining with ':' would hide where the name ends
    format!("{}\u{1f}{}\u{1f}{}\u{1f}{}", if l.ty == huginn_net_db::Type::Specified { "s" } else { "g" }, l.class.clone().unwrap_or("!".into()), l.name, l.flavor.clone().unwrap_or_default())
}
pub fn describe(db: &Database) -> DbDesc {
    DbDesc {
        classes: db.classes.clone(),
        mtu: db.mtu.clone(),
        ua_os: db.ua_os.clone(),
        tables: [
            db.tcp_request.entries.iter().map(|(l, s)| (label_text(l), s.iter().map(|x| x.to_string()).collect())).collect(),
            db.tcp_response.entries.iter().map(|(l, s)| (label_text(l), s.iter().map(|x| x.to_string()).collect())).collect(),
            db.http_request.entries.iter().map(|(l, s)| (label_text(l), s.iter().map(|x| x.to_string()).collect())).collect(),
            db.http_response.entries.iter().map(|(l, s)| (label_text(l), s.iter().map(|x| x.to_string()).collect())).collect(),
        ],
    }
}
fn norm_label(s: &str) -> String {
    // the reference keeps the label text as written; bring both to ty:class:name:flavor
    let p: Vec<&str> = s.splitn(4, ':').collect();
    format!("{}\u{1f}{}\u{1f}{}\u{1f}{}", p.first().unwrap_or(&""), p.get(1).unwrap_or(&""), p.get(2).unwrap_or(&""), p.get(3).unwrap_or(&""))
}
pub fn check_text(r: &mut Report, text: &str, tag: &str) {
    r.exec(1);
    let exp = ref_load(text).map(|mut d| {
        for t in d.tables.iter_mut() {
            for e in t.iter_mut() {
                e.0 = norm_label(&e.0);
            }
        }
        d
    });
    let got = match guarded(|| Database::from_str(text)) {
        Ok(g) => g.map(|db| describe(&db)).map_err(|e| e.to_string()),
        Err(p) => {
            r.dev("C06/panic", "panic", || json!({"kind": "db-text", "text": text, "detail": p}));
            return;
        }
    };
    r.outcome(&format!("{:?}", got.as_ref().map(|d| (d.classes.len(), d.mtu.len(), d.ua_os.len(), d.tables.iter().map(|t| t.iter().map(|e| e.1.len()).collect::<Vec<_>>()).collect::<Vec<_>>())).map_err(|_| ())));
    let class = match (&exp, &got) {
        (Ok(e), Ok(g)) if e == g => return,
        (Err(_), Err(_)) => return,
        (Ok(e), Ok(g)) => {
            if e.ua_os != g.ua_os && e.classes == g.classes && e.mtu == g.mtu && e.tables == g.tables {
                "ua_os-rules-dropped"
            } else if e.tables != g.tables {
                "signatures-or-labels-differ"
            } else {
                "header-fields-differ"
            }
        }
        (Err(_), Ok(_)) => "invalid-text-accepted",
        (Ok(_), Err(_)) => "valid-text-rejected",
    };
    r.dev(format!("C06/db/{class}/{tag}"), class, || json!({"kind": "db-text", "text": text, "expected": format!("{exp:?}"), "actual": format!("{got:?}")}));
}

/// signature texts that are outside the language (numeric overflow, missing fields, trailing input):
/// the parser must reject them, alone and inside a database text
fn invalid_lines(r: &mut Report) {
    let base = "4:64:0:1460:mss*4,7:mss,nop,ws:df,id+:0";
    let f: Vec<&str> = base.split(':').collect();
    let mut bad: Vec<String> = vec![];
    let with = |i: usize, v: &str| {
        let mut g: Vec<String> = f.iter().map(|x| x.to_string()).collect();
        g[i] = v.to_string();
        g.join(":")
    };
    for v in ["5", "", "46", "v4"] {
        bad.push(with(0, v));
    }
    for v in ["256", "64+256", "300-", "64+", "-", "", "64-+", "999999999999999999999"] {
        bad.push(with(1, v));
    }
    for v in ["256", "", "-1", "x"] {
        bad.push(with(2, v));
    }
    for v in ["65536", "", "-1", "**", "99999999999999999999"] {
        bad.push(with(3, v));
    }
    for v in ["mss*256,7", "mtu*256,7", "%65536,7", "65536,7", "mss*4,256", "mss*4", "mss*,7", ",7", "mss*4,", "mss*4,7,8"] {
        bad.push(with(4, v));
    }
    for v in ["?256", "?300", "eol+256", "eol+", "mss,,ws", "mss,", "foo", "?", "mss ws"] {
        bad.push(with(5, v));
    }
    for v in ["df,", ",df", "df,,id+", "foo", "df id+"] {
        bad.push(with(6, v));
    }
    for v in ["", "1", "00", "0x"] {
        bad.push(with(7, v));
    }
    bad.push(format!("{base}:extra"));
    bad.push(f[..7].join(":"));
    for t in &bad {
        r.exec(2);
        let alone = TSig::from_str(t).map(|s| s.to_string());
        let text = format!("[tcp:request]\nlabel = s:unix:Linux:3.x\nsig = {t}");
        let in_db = Database::from_str(&text).map(|d| describe(&d).tables[0].clone());
        r.outcome(&(alone.is_ok(), in_db.is_ok()));
        if alone.is_ok() || in_db.is_ok() {
            r.dev(format!("C06/invalid-signature-accepted/{t}"), "invalid-signature-accepted", || json!({"kind": "db-text", "text": text, "signature": t, "parsed_alone_as": format!("{alone:?}"), "loaded_as": format!("{:?}", in_db.as_ref().ok())}));
        }
    }
}

pub fn run(thorough: bool) -> Outcome {
    let mut r = Report::new();
    values_tcp(&mut r);
    invalid_lines(&mut r);
    let prod = product_tcp();
    let rep = par_slices(prod.len(), 64, |rg| {
        let mut r = Report::new();
        for i in rg {
            rt_tcp(&mut r, &prod[i], "product");
        }
        r
    });
    r = r.merge(rep);
    let hv = http_values();
    let rep = par_slices(hv.len(), 64, |rg| {
        let mut r = Report::new();
        for i in rg {
            rt_http(&mut r, &hv[i]);
        }
        r
    });
    r = r.merge(rep);
    bundled_lines(&mut r);
    // database texts: every sequence of <= depth lines over the 23 line kinds, plus the bundled file
    let depth = if thorough { 6 } else { 5 };
    let k = LINE_KINDS.len();
    let mut total = 0usize;
    let mut offs = vec![];
    for n in 0..=depth {
        offs.push(total);
        total += k.pow(n as u32);
    }
    let rep = par_slices(total, 256, |rg| {
        let mut r = Report::new();
        for i in rg {
            let n = (0..=depth).rev().find(|&n| i >= offs[n]).unwrap_or(0);
            let mut x = i - offs[n];
            let mut lines = vec![];
            for _ in 0..n {
                lines.push(LINE_KINDS[x % k]);
                x /= k;
            }
            lines.reverse();
            let text = lines.join("\n");
            // key by the shortest offending suffix kind so that one defect is one key
            check_text(&mut r, &text, "generated");
            if i % 400_003 == 7 {
                r.sample(|| json!({"db_text": text}));
            }
        }
        r
    });
    r = r.merge(rep);
    check_text(&mut r, include_str!("/repo/huginn-net-db/config/p0f.fp"), "bundled-file");
    // the same database written in other hands: blanks around '=' (none, one side, tabs, several), indented lines, CRLF
    // line ends, comments and blank lines between entries
    {
        let lines: [(&str, &str); 16] = [
            ("classes", "win,unix,other"),
            ("ua_os", "Linux,Windows=[NT],Mac OS X"),
            ("[mtu]", ""),
            ("label", "Ethernet or modem"),
            ("sig", "1500"),
            ("sig", "576"),
            ("[tcp:request]", ""),
            ("label", "s:unix:Linux:3.x"),
            ("sys", "@unix"),
            ("sig", "*:64:0:*:mss*10,6:mss,sok,ts,nop,ws:df,id+:0"),
            ("sig", "4:128:0:1460:8192,0:mss,nop,nop,sok:df,id+:0"),
            ("[tcp:response]", ""),
            ("label", "g:!:Other:"),
            ("sig", "4:64:0:1460:mss*4,0:mss:df:0"),
            ("[http:request]", ""),
            ("label", "s:!:Firefox:10.x or newer: ESR, 1:1 build"),
        ];
        let http_sig = ("sig", "1:Host,User-Agent,?Cookie,Accept=[*/*;q=0.8],?Via=[1.1 squid:3128]:Via,Accept-Charset:Firefox/");
        for sep in [" = ", "=", " =", "= ", "\t=\t", "   =   ", "\t= ", " =\t"] {
            for indent in ["", "  ", "\t"] {
                for trail in ["", " ", "\t"] {
                    for eol in ["\n", "\r\n"] {
                        for filler in ["", "; comment", " ", ";"] {
                            let mut text = String::new();
                            for (n, v) in lines.iter().chain([http_sig].iter()) {
                                if n.starts_with('[') {
                                    text.push_str(&format!("{indent}{n}{trail}{eol}"));
                                } else {
                                    text.push_str(&format!("{indent}{n}{sep}{v}{trail}{eol}"));
                                }
                                if !filler.is_empty() {
                                    text.push_str(&format!("{filler}{eol}"));
                                }
                            }
                            check_text(&mut r, &text, "formatting");
                        }
                    }
                }
            }
        }
    }
    Outcome {
        report: r,
        rule: "TCP signature values: every field over its whole domain at 4 base signatures, all option lists <= 3, all quirk pairs, full product of a 9-field alphabet (1.1M); HTTP signature values over header lists <= 3 x absent lists <= 2 x software strings; all bundled signature lines; every database text of <= depth lines over 22 line kinds + the bundled file; one 17-line database in 8 x 3 x 3 x 2 x 4 formattings (blanks and tabs around '=', indentation, trailing blanks, LF / CRLF, comment and blank lines in between); distinct = distinct printed texts / load outcomes".into(),
        exhaustive: true,
        bounds: json!({"db_text_max_lines": depth, "line_kinds": k, "db_texts": total, "tcp_product": prod.len(), "http_values": hv.len()}),
    }
}

pub fn replay(ex: &Value) -> Report {
    let mut r = Report::new();
    match ex["kind"].as_str() {
        Some("db-text") => check_text(&mut r, ex["text"].as_str().unwrap_or(""), "replay"),
        Some("tcp-value") | Some("bundled-line") => {
            let t = ex["text"].as_str().unwrap_or("");
            r.exec(1);
            match TSig::from_str(t) {
                Ok(s) if s.to_string() == t => {}
                other => r.dev("C06/replay", "replay", || json!({"text": t, "result": format!("{:?}", other.map(|s| s.to_string()).map_err(|e| e.to_string()))})),
            }
        }
        Some("http-value") => {
            let t = ex["text"].as_str().unwrap_or("");
            r.exec(1);
            match HSig::from_str(t) {
                Ok(s) if s.to_string() == t => {}
                other => r.dev("C06/replay", "replay", || json!({"text": t, "result": format!("{:?}", other.map(|s| s.to_string()).map_err(|e| e.to_string()))})),
            }
        }
        _ => r.machinery_error("bad replay file"),
    }
    r
}
