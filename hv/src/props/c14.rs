//! C14 — packet filters decide exactly the documented boolean function.
//! Alphabet: mode x port filter x address filter x subnet filter (each optional, each with side
//! selection) x endpoint pairs x port pairs; every combination is evaluated on the real
//! `FilterConfig::should_process` of the tcp, http and tls crates (the unified crate re-exports the tcp
//! one) and compared with the boolean function written from the statement.
use crate::report::{par_slices, Report};
use crate::Outcome;
use serde::{Deserialize, Serialize};
use serde_json::json;
use std::net::IpAddr;

#[derive(Clone, Debug, Serialize, Deserialize, PartialEq)]
pub struct PF {
    pub sp: Vec<u16>,
    pub dp: Vec<u16>,
    /// half-open (start, end) as passed to `source_range(start..end)`
    pub sr: Vec<(u16, u16)>,
    pub dr: Vec<(u16, u16)>,
    pub any: bool,
}
#[derive(Clone, Debug, Serialize, Deserialize, PartialEq)]
pub struct AF {
    pub addrs: Vec<String>,
    pub src: bool,
    pub dst: bool,
}
#[derive(Clone, Debug, Serialize, Deserialize, PartialEq)]
pub struct Cfg {
    pub deny: bool,
    pub pf: Option<PF>,
    pub af: Option<AF>,
    pub sf: Option<AF>,
}

fn in_net(net: &str, ip: &IpAddr) -> bool {
    let Some((a, p)) = net.split_once('/') else { return false };
    let p: u32 = p.parse().unwrap_or(0);
    let Ok(a) = a.parse::<IpAddr>() else { return false };
    match (a, ip) {
        (IpAddr::V4(n), IpAddr::V4(i)) => {
            let (n, i) = (u32::from(n), u32::from(*i));
            p == 0 || (n >> (32 - p)) == (i >> (32 - p))
        }
        (IpAddr::V6(n), IpAddr::V6(i)) => {
            let (n, i) = (u128::from(n), u128::from(*i));
            p == 0 || (n >> (128 - p)) == (i >> (128 - p))
        }
        _ => false,
    }
}

pub fn ref_pf(f: &PF, s: u16, d: u16) -> bool {
    let in_s = |p: u16| f.sp.contains(&p) || f.sr.iter().any(|&(a, b)| p >= a && p < b);
    let in_d = |p: u16| f.dp.contains(&p) || f.dr.iter().any(|&(a, b)| p >= a && p < b);
    if f.any {
        let in_u = |p: u16| in_s(p) || in_d(p);
        in_u(s) || in_u(d)
    } else {
        let s_con = !f.sp.is_empty() || !f.sr.is_empty();
        let d_con = !f.dp.is_empty() || !f.dr.is_empty();
        (!s_con || in_s(s)) && (!d_con || in_d(d))
    }
}
pub fn ref_af(a: &AF, si: &IpAddr, di: &IpAddr) -> bool {
    let has = |ip: &IpAddr| a.addrs.iter().any(|x| x.parse::<IpAddr>().map(|y| y == *ip).unwrap_or(false));
    (a.src && has(si)) || (a.dst && has(di))
}
pub fn ref_sf(a: &AF, si: &IpAddr, di: &IpAddr) -> bool {
    let has = |ip: &IpAddr| a.addrs.iter().any(|x| in_net(x, ip));
    (a.src && has(si)) || (a.dst && has(di))
}
/// The documented rule, written from the statement.
pub fn ref_should_process(c: &Cfg, si: &IpAddr, di: &IpAddr, sp: u16, dp: u16) -> bool {
    let mut ms = vec![];
    if let Some(p) = &c.pf {
        ms.push(ref_pf(p, sp, dp));
    }
    if let Some(a) = &c.af {
        ms.push(ref_af(a, si, di));
    }
    if let Some(a) = &c.sf {
        ms.push(ref_sf(a, si, di));
    }
    if ms.is_empty() {
        true
    } else if !c.deny {
        ms.iter().all(|&x| x)
    } else {
        !ms.iter().all(|&x| x)
    }
}

/// What one of the three filter.rs copies answers: (should_process, port matches, ip matches, subnet matches).
type Eval = Box<dyn Fn(&IpAddr, &IpAddr, u16, u16) -> (bool, Option<bool>, Option<bool>, Option<bool>) + Sync + Send>;

macro_rules! filter_impl {
    ($name:ident, $cfgname:ident, $krate:ident) => {
        pub fn $name(c: &Cfg) -> Eval {
            let fc = $cfgname(c);
            Box::new(move |si, di, sp, dp| {
                (
                    fc.should_process(si, di, sp, dp),
                    fc.port_filter.as_ref().map(|f| f.matches(sp, dp)),
                    fc.ip_filter.as_ref().map(|f| f.matches(si, di)),
                    fc.subnet_filter.as_ref().map(|f| f.matches(si, di)),
                )
            })
        }
        /// the crate's own FilterConfig built through its public builder API
        pub fn $cfgname(c: &Cfg) -> $krate::FilterConfig {
            use $krate::{FilterConfig, FilterMode, IpFilter, PortFilter, SubnetFilter};
            let mut fc = FilterConfig::new().mode(if c.deny { FilterMode::Deny } else { FilterMode::Allow });
            if let Some(p) = &c.pf {
                let mut f = PortFilter::new();
                // lists of three or more ports go through the list API followed by a single-port call for the last
                // element (both builder forms, in the order given: ascending, descending and unsorted lists exist)
                if p.sp.len() >= 3 {
                    f = f.source_list(p.sp[..p.sp.len() - 1].to_vec()).source(p.sp[p.sp.len() - 1]);
                } else {
                    for &x in &p.sp {
                        f = f.source(x);
                    }
                }
                if p.dp.len() >= 3 {
                    f = f.destination_list(p.dp[..p.dp.len() - 1].to_vec()).destination(p.dp[p.dp.len() - 1]);
                } else {
                    for &x in &p.dp {
                        f = f.destination(x);
                    }
                }
                for &(a, b) in &p.sr {
                    f = f.source_range(a..b);
                }
                for &(a, b) in &p.dr {
                    f = f.destination_range(a..b);
                }
                if p.any {
                    f = f.any_port();
                }
                fc = fc.with_port_filter(f);
            }
            if let Some(a) = &c.af {
                let mut f = IpFilter::new();
                for x in &a.addrs {
                    f = f.allow(x).expect("alphabet address parses");
                }
                if a.src && !a.dst {
                    f = f.source_only();
                }
                if !a.src && a.dst {
                    f = f.destination_only();
                }
                fc = fc.with_ip_filter(f);
            }
            if let Some(a) = &c.sf {
                let mut f = SubnetFilter::new();
                for x in &a.addrs {
                    f = f.allow(x).expect("alphabet cidr parses");
                }
                if a.src && !a.dst {
                    f = f.source_only();
                }
                if !a.src && a.dst {
                    f = f.destination_only();
                }
                fc = fc.with_subnet_filter(f);
            }
            fc
        }
    };
}
filter_impl!(build_tcp, cfg_tcp, huginn_net_tcp);
filter_impl!(build_http, cfg_http, huginn_net_http);
filter_impl!(build_tls, cfg_tls, huginn_net_tls);

/// The same configuration reached through other builder paths: `Default::default()` instead of `new()` (both sides off),
/// any sequence of up to three side selectors (the last one decides), the list form, addresses added before and after the
/// selectors, a sub-filter or the mode installed twice (the later replaces the earlier). One entry per form:
/// (description, expected (source side, destination side), the filter's verdict for an address pair).
type Form = (String, (bool, bool), Box<dyn Fn(&IpAddr, &IpAddr) -> (bool, bool) + Sync + Send>);
macro_rules! forms_impl {
    ($name:ident, $krate:ident) => {
        pub fn $name() -> Vec<Form> {
            use $krate::{FilterConfig, FilterMode, IpFilter, SubnetFilter};
            let mut v: Vec<Form> = vec![];
            let seqs: Vec<Vec<u8>> = {
                let mut out = vec![vec![]];
                let mut cur: Vec<Vec<u8>> = vec![vec![]];
                for _ in 0..3 {
                    let mut next = vec![];
                    for s in &cur {
                        for c in [0u8, 1] {
                            let mut n = s.clone();
                            n.push(c);
                            next.push(n);
                        }
                    }
                    out.extend(next.clone());
                    cur = next;
                }
                out
            };
            for from_default in [false, true] {
                for seq in &seqs {
                    for allow_late in [false, true] {
                        let sides = match seq.last() {
                            Some(0) => (true, false),
                            Some(_) => (false, true),
                            None => {
                                if from_default {
                                    (false, false)
                                } else {
                                    (true, true)
                                }
                            }
                        };
                        let desc = format!("{}{}{}{}", if from_default { "default()" } else { "new()" }, if allow_late { "" } else { ".allow(..)" }, seq.iter().map(|c| if *c == 0 { ".source_only()" } else { ".destination_only()" }).collect::<String>(), if allow_late { ".allow_list(..)" } else { "" });
                        let mut ipf = if from_default { IpFilter::default() } else { IpFilter::new() };
                        let mut snf = if from_default { SubnetFilter::default() } else { SubnetFilter::new() };
                        if !allow_late {
                            ipf = ipf.allow("10.0.0.1").expect("address").allow("2001:db8::1").expect("address");
                            snf = snf.allow("10.0.0.0/31").expect("cidr").allow("2001:db8::/127").expect("cidr");
                        }
                        for c in seq {
                            if *c == 0 {
                                ipf = ipf.source_only();
                                snf = snf.source_only();
                            } else {
                                ipf = ipf.destination_only();
                                snf = snf.destination_only();
                            }
                        }
                        if allow_late {
                            ipf = ipf.allow_list(vec!["10.0.0.1", "2001:db8::1"]).expect("addresses");
                            snf = snf.allow_list(vec!["10.0.0.0/31", "2001:db8::/127"]).expect("cidrs");
                        }
                        // installed after a decoy that must be replaced, mode set twice
                        let fc_ip = FilterConfig::new().mode(FilterMode::Deny).with_ip_filter(IpFilter::new().allow("11.0.0.1").expect("address")).with_ip_filter(ipf.clone()).mode(FilterMode::Allow);
                        let fc_sn = FilterConfig::default().with_subnet_filter(SubnetFilter::new().allow("11.0.0.0/8").expect("cidr")).with_subnet_filter(snf.clone()).mode(FilterMode::Allow);
                        v.push((format!("IpFilter::{desc}"), sides, Box::new(move |s, d| (ipf.matches(s, d), fc_ip.should_process(s, d, 1, 2)))));
                        v.push((format!("SubnetFilter::{desc}"), sides, Box::new(move |s, d| (snf.matches(s, d), fc_sn.should_process(s, d, 1, 2)))));
                    }
                }
            }
            v
        }
    };
}
/// port filters: the same sets reached by every order of five builder calls, with any_port() first, last or absent,
/// a single port given as a port, a one-element list or a one-port range, and an empty range thrown in
macro_rules! port_forms_impl {
    ($name:ident, $krate:ident) => {
        pub fn $name() -> Vec<(String, PF, $krate::PortFilter)> {
            use $krate::PortFilter;
            let mut v = vec![];
            let mut perms: Vec<Vec<usize>> = vec![];
            fn rec(cur: &mut Vec<usize>, out: &mut Vec<Vec<usize>>) {
                if cur.len() == 5 {
                    out.push(cur.clone());
                    return;
                }
                for i in 0..5 {
                    if !cur.contains(&i) {
                        cur.push(i);
                        rec(cur, out);
                        cur.pop();
                    }
                }
            }
            rec(&mut vec![], &mut perms);
            for (pi, perm) in perms.iter().enumerate() {
                for any in [0u8, 1, 2] {
                    let enc = pi % 3;
                    let mut f = PortFilter::new();
                    if any == 1 {
                        f = f.any_port();
                    }
                    for &op in perm {
                        f = match (op, enc) {
                            (0, 0) => f.source(40000),
                            (0, 1) => f.source_list(vec![40000]),
                            (0, _) => f.source_range(40000..40001),
                            (1, 0) => f.destination(80),
                            (1, 1) => f.destination_list(vec![80]),
                            (1, _) => f.destination_range(80..81),
                            (2, _) => f.source_range(8000..9000),
                            (3, _) => f.destination_range(443..445).destination_range(500..500),
                            _ => f.destination_list(vec![65535, 0]).source_range(7..7),
                        };
                    }
                    if any == 2 {
                        f = f.any_port();
                    }
                    let pf = PF { sp: vec![40000], dp: vec![80, 65535, 0], sr: vec![(8000, 9000)], dr: vec![(443, 445)], any: any != 0 };
                    v.push((format!("calls in order {perm:?}, single ports as {}, any_port {}", ["ports", "lists", "ranges"][enc], ["absent", "first", "last"][any as usize]), pf, f));
                }
            }
            v
        }
    };
}
port_forms_impl!(port_forms_tcp, huginn_net_tcp);
port_forms_impl!(port_forms_http, huginn_net_http);
port_forms_impl!(port_forms_tls, huginn_net_tls);
fn check_port_forms(r: &mut Report) {
    let ports = [0u16, 1, 6, 7, 8, 79, 80, 81, 442, 443, 444, 445, 499, 500, 501, 7999, 8000, 8999, 9000, 39999, 40000, 40001, 65534, 65535];
    macro_rules! run {
        ($krate:literal, $forms:expr) => {
            for (desc, pf, f) in $forms {
                for &sp in &ports {
                    for &dp in &ports {
                        r.exec(1);
                        let (exp, got) = (ref_pf(&pf, sp, dp), f.matches(sp, dp));
                        r.outcome(&("port-form", pf.any, got));
                        if exp != got {
                            r.dev(format!("C14/builder-form/{}/port", $krate), "builder-form", || json!({"kind": "builder-form", "crate": $krate, "form": desc, "src_port": sp, "dst_port": dp, "expected": exp, "matches": got}));
                        }
                    }
                }
            }
        };
    }
    run!("tcp", port_forms_tcp());
    run!("http", port_forms_http());
    run!("tls", port_forms_tls());
}
forms_impl!(forms_tcp, huginn_net_tcp);
forms_impl!(forms_http, huginn_net_http);
forms_impl!(forms_tls, huginn_net_tls);
fn check_forms(r: &mut Report) {
    let ips = endpoints();
    for (krate, forms) in [("tcp", forms_tcp()), ("http", forms_http()), ("tls", forms_tls())] {
        for (desc, (ss, ds), f) in forms {
            let subnet = desc.starts_with("Subnet");
            let af = AF { addrs: if subnet { vec!["10.0.0.0/31".into(), "2001:db8::/127".into()] } else { vec!["10.0.0.1".into(), "2001:db8::1".into()] }, src: ss, dst: ds };
            for si in &ips {
                for di in &ips {
                    if si.is_ipv4() != di.is_ipv4() {
                        continue;
                    }
                    r.exec(1);
                    let exp = if subnet { ref_sf(&af, si, di) } else { ref_af(&af, si, di) };
                    let (m, sp) = f(si, di);
                    r.outcome(&("form", ss, ds, m));
                    if m != exp || sp != exp {
                        r.dev(format!("C14/builder-form/{krate}/{}", if subnet { "subnet" } else { "address" }), "builder-form", || json!({"kind": "builder-form", "crate": krate, "form": desc, "src": si.to_string(), "dst": di.to_string(), "expected": exp, "matches": m, "should_process_in_allow_mode": sp}));
                    }
                }
            }
        }
    }
}

pub fn build_for(krate: &str, c: &Cfg) -> Eval {
    match krate {
        "tcp" => build_tcp(c),
        "http" => build_http(c),
        _ => build_tls(c),
    }
}

pub fn port_filters() -> Vec<Option<PF>> {
    let mut v = vec![None];
    for any in [false, true] {
        for (sp, dp) in [(vec![], vec![]), (vec![80], vec![]), (vec![], vec![443]), (vec![80], vec![443]), (vec![0], vec![65535]), (vec![80, 8000], vec![80]), (vec![8000, 80], vec![443, 80]), (vec![443, 8443, 80], vec![8080, 22, 443, 80]), (vec![80, 80], vec![65535, 0, 443])] {
            for (ri, (sr, dr)) in [
                (vec![], vec![]),
                (vec![(8000u16, 9000u16)], vec![]),
                (vec![], vec![(8000u16, 9000u16)]),
                (vec![], vec![(0, 0)]),
                (vec![(0, 0)], vec![]),
                (vec![], vec![(5, 5)]),
                (vec![], vec![(0, 1)]),
                (vec![(65534, 65535)], vec![(79, 81)]),
                (vec![(9000, 8000)], vec![]),
                (vec![(1, 5), (443, 444)], vec![(65535, 65535)]),
            ]
            .into_iter()
            .enumerate()
            {
                // the unsorted / longer lists are combined with "no range" and one range pair only
                if sp.len() + dp.len() > 3 && !(ri == 0 || ri == 7) {
                    continue;
                }
                v.push(Some(PF { sp: sp.clone(), dp: dp.clone(), sr, dr, any }));
            }
        }
    }
    v
}
fn sides() -> [(bool, bool); 3] {
    [(true, true), (true, false), (false, true)]
}
pub fn addr_filters() -> Vec<Option<AF>> {
    let mut v = vec![None];
    for addrs in [vec!["10.0.0.1"], vec!["2001:db8::1"], vec!["10.0.0.1", "2001:db8::2", "255.255.255.255"], vec![]] {
        for (s, d) in sides() {
            v.push(Some(AF { addrs: addrs.iter().map(|x| x.to_string()).collect(), src: s, dst: d }));
        }
    }
    v
}
pub fn subnet_filters() -> Vec<Option<AF>> {
    let mut v = vec![None];
    for nets in [
        vec!["0.0.0.0/0"],
        vec!["10.0.0.0/8"],
        vec!["10.0.0.0/24"],
        vec!["10.0.0.0/31"],
        vec!["10.0.0.1/32"],
        vec!["::/0"],
        vec!["2001:db8::/64"],
        vec!["2001:db8::/127"],
        vec!["2001:db8::1/128"],
        vec!["10.0.0.0/24", "2001:db8::/64"],
        vec![],
    ] {
        for (s, d) in sides() {
            v.push(Some(AF { addrs: nets.iter().map(|x| x.to_string()).collect(), src: s, dst: d }));
        }
    }
    v
}
pub fn endpoints() -> Vec<IpAddr> {
    ["10.0.0.0", "10.0.0.1", "10.0.0.2", "10.0.0.255", "10.0.1.0", "11.0.0.1", "255.255.255.255", "2001:db8::", "2001:db8::1", "2001:db8::2", "2001:db8:0:0:ffff::", "2001:db8:0:1::", "::1", "::ffff:10.0.0.1", "::ffff:10.0.0.2"]
        .iter()
        .filter_map(|s| s.parse().ok())
        .collect()
}

fn check_one(r: &mut Report, krate: &str, c: &Cfg, ev: &Eval, si: &IpAddr, di: &IpAddr, sp: u16, dp: u16) -> bool {
    let exp = ref_should_process(c, si, di, sp, dp);
    let (got, gp, ga, gs) = ev(si, di, sp, dp);
    r.transitions += 1;
    if got == exp {
        return got;
    }
    // attribute the deviation to the component whose own answer differs from the reference
    let comp = if c.pf.as_ref().map(|p| Some(ref_pf(p, sp, dp)) != gp).unwrap_or(false) {
        let p = c.pf.as_ref().expect("checked");
        let empty_zero = p.sr.iter().chain(p.dr.iter()).any(|&(a, b)| a == 0 && b == 0);
        if empty_zero && (sp == 0 || dp == 0) { "port-filter:empty-range-0..0-matches-port-0" } else { "port-filter" }
    } else if c.af.as_ref().map(|a| Some(ref_af(a, si, di)) != ga).unwrap_or(false) {
        "address-filter"
    } else if c.sf.as_ref().map(|a| Some(ref_sf(a, si, di)) != gs).unwrap_or(false) {
        "subnet-filter"
    } else {
        "mode-composition"
    };
    r.dev(format!("C14/{krate}/{comp}"), comp, || {
        json!({"crate": krate, "cfg": c, "src": si.to_string(), "dst": di.to_string(), "sport": sp, "dport": dp, "expected": exp, "actual": got})
    });
    got
}

pub fn run(thorough: bool) -> Outcome {
    let pfs = port_filters();
    let afs = addr_filters();
    let sfs = subnet_filters();
    let ips = endpoints();
    let ports: Vec<u16> = if thorough { vec![0, 1, 4, 5, 79, 80, 81, 443, 444, 7999, 8000, 8999, 9000, 65534, 65535] } else { vec![0, 1, 5, 80, 443, 8000, 8999, 65535] };
    let mut cfgs = vec![];
    for deny in [false, true] {
        for pf in &pfs {
            for af in &afs {
                for sf in &sfs {
                    cfgs.push(Cfg { deny, pf: pf.clone(), af: af.clone(), sf: sf.clone() });
                }
            }
        }
    }
    // subnet filters that list several blocks, nested in either order, repeated, disjoint (on their own: no port or address part)
    for deny in [false, true] {
        for nets in [vec!["10.0.0.0/24", "10.0.0.0/8"], vec!["10.0.0.0/8", "10.0.0.0/24"], vec!["10.0.0.1/32", "0.0.0.0/0"], vec!["0.0.0.0/0", "10.0.0.1/32"], vec!["2001:db8::/127", "2001:db8::/64"], vec!["2001:db8::1/128", "::/0"], vec!["10.0.0.0/24", "10.0.0.0/24"], vec!["10.0.0.0/31", "11.0.0.0/8", "10.0.0.0/24"], vec!["10.0.0.0/31", "2001:db8::/127", "10.0.0.0/8", "2001:db8::/32"]] {
            for (s, d) in sides() {
                cfgs.push(Cfg { deny, pf: None, af: None, sf: Some(AF { addrs: nets.iter().map(|x| x.to_string()).collect(), src: s, dst: d }) });
            }
        }
    }
    let krates = ["tcp", "http", "tls"];
    let report = par_slices(cfgs.len(), 256, |range| {
        let mut r = Report::new();
        for ci in range {
            let c = &cfgs[ci];
            for k in krates {
                let ev = build_for(k, c);
                r.states += 1;
                let mut truth = 0u64;
                let mut n = 0u64;
                for si in &ips {
                    for di in &ips {
                        if si.is_ipv4() != di.is_ipv4() {
                            continue;
                        }
                        for &sp in &ports {
                            for &dp in &ports {
                                let got = check_one(&mut r, k, c, &ev, si, di, sp, dp);
                                truth = truth.wrapping_mul(1099511628211).wrapping_add(got as u64 + 1);
                                n += 1;
                            }
                        }
                    }
                }
                r.evaluations += n;
                r.traces += n;
                // distinct non-trivial = distinct truth tables (over the endpoint alphabet) observed
                r.outcome(&truth);
                if ci % 9973 == 1 && k == "tcp" {
                    r.sample(|| json!({"cfg": c, "truth_table_hash": truth, "evaluations": n}));
                }
            }
        }
        r
    });
    let mut report = report;
    check_forms(&mut report);
    check_port_forms(&mut report);
    Outcome {
        report,
        rule: "every filter configuration of the alphabet x every same-family endpoint pair x every port pair, on the three filter.rs copies; subnet filters with several blocks (nested in either order, repeated, disjoint, both families); builder forms: address and subnet filters built from new() / default(), with every sequence of up to three side selectors, addresses added before or after them, installed after a decoy filter and with the mode set twice (the last call decides) x every endpoint pair; port filters built by the 120 orders of five builder calls, any_port() absent / first / last, single ports as port / list / one-port range, with empty ranges, x 24 x 24 port pairs; distinct = distinct truth tables over the endpoint alphabet".into(),
        exhaustive: true,
        bounds: json!({"configurations": cfgs.len(), "crates": krates, "addresses": ips.len(), "ports": ports}),
    }
}

pub fn replay(ex: &serde_json::Value) -> Report {
    let mut r = Report::new();
    if ex["kind"].as_str() == Some("builder-form") {
        check_port_forms(&mut r);
        check_forms(&mut r);
        return r;
    }
    let Ok(c) = serde_json::from_value::<Cfg>(ex["cfg"].clone()) else {
        r.machinery_error("bad replay file");
        return r;
    };
    let krate = ex["crate"].as_str().unwrap_or("tcp").to_string();
    let (Ok(si), Ok(di)) = (ex["src"].as_str().unwrap_or("").parse::<IpAddr>(), ex["dst"].as_str().unwrap_or("").parse::<IpAddr>()) else {
        r.machinery_error("bad replay file");
        return r;
    };
    let ev = build_for(&krate, &c);
    check_one(&mut r, &krate, &c, &ev, &si, &di, ex["sport"].as_u64().unwrap_or(0) as u16, ex["dport"].as_u64().unwrap_or(0) as u16);
    r.exec(1);
    r
}
