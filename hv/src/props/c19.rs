//! C19 — uptime estimates are sound for steady clocks and withheld otherwise.
//! Histories of 2-4 timestamped segments are sent through the real TCP packet pipeline under the
//! injected millisecond clock (hook H1); a reference model of the documented rule (per (directed
//! 4-tuple, role) reference timestamp, interval/rate bounds, frequency grid, uptime decomposition,
//! bad marker) predicts every per-packet report.
use crate::drv::{set_clock, TcpRes, TcpSeq, Upt};
use crate::gen::pkt::{self, Spec, ACK, PSH, SYN};
use crate::report::{guarded, par_slices, Report};
use crate::Outcome;
use serde::{Deserialize, Serialize};
use serde_json::{json, Value};
use std::collections::HashMap;

pub const T0: u64 = 1_700_000_000_000;

#[derive(Clone, Debug, Serialize, Deserialize, PartialEq)]
pub struct Seg {
    /// true: sent by endpoint A (src id 1, port `pa`), false: by endpoint B (src id 2, port `pb`)
    pub from_a: bool,
    pub flags: u8,
    pub at_ms: u64,
    pub tsval: u32,
}
#[derive(Clone, Debug, Serialize, Deserialize, PartialEq)]
pub struct Scn {
    pub v6: bool,
    pub pa: u16,
    pub pb: u16,
    pub segs: Vec<Seg>,
    pub unified: bool,
}

pub fn ts_opts(tsval: u32, tsecr: u32) -> Vec<u8> {
    let mut o = vec![1, 1, 8, 10];
    o.extend(tsval.to_be_bytes());
    o.extend(tsecr.to_be_bytes());
    o
}
fn frame(s: &Scn, g: &Seg) -> Vec<u8> {
    let (src, dst, sp, dp) = if g.from_a { (1, 2, s.pa, s.pb) } else { (2, 1, s.pb, s.pa) };
    // what the segment carries is none of the clock's business: one byte, the beginning of a ClientHello record that continues
    // elsewhere, the beginning of a request head (the unified analyzer runs its HTTP and TLS steps on them)
    let payload: Vec<u8> = if g.flags & SYN != 0 {
        vec![]
    } else if s.unified && g.tsval % 3 == 1 {
        vec![0x16, 0x03, 0x01, 0x02, 0x00, 0x01, 0x00, 0x01, 0xfc, 0x03, 0x03, 7, 7, 7, 7, 7, 7, 7, 7, 7, 7, 7, 7, 7, 7, 7, 7, 7, 7, 7, 7, 7, 7, 7, 7, 7, 7, 7, 7, 7, 7, 7, 7, 0]
    } else if s.unified && g.tsval % 3 == 2 {
        b"GET /index.html HTTP/1.1\r\nHost: exa".to_vec()
    } else {
        vec![b'x']
    };
    pkt::build(&Spec { v6: s.v6, src, dst, sport: sp, dport: dp, flags: g.flags, seq: 1000, ack: if g.flags & ACK != 0 { 77 } else { 0 }, opts: ts_opts(g.tsval, 0), payload, ..Spec::default() })
}

// ---- reference model ----
fn p0f_round(raw: f64) -> f64 {
    let f = raw as u32;
    (match f {
        0 => 1,
        1..=10 => f,
        11..=50 => (f + 3) / 5 * 5,
        51..=100 => (f + 7) / 10 * 10,
        101..=500 => (f + 33) / 50 * 50,
        _ => (f + 67) / 100 * 100,
    }) as f64
}
/// reading A of the documented grid: snap to 1000 / 100 Hz within 10 %, else range rounding
pub fn grid_a(raw: f64) -> f64 {
    if (raw - 1000.0).abs() <= 100.0 {
        return 1000.0;
    }
    if (raw - 100.0).abs() <= 10.0 {
        return 100.0;
    }
    p0f_round(raw)
}
/// reading B: snap to the multiple k*100 Hz when raw/k is within 10 % of 100 Hz
pub fn grid_b(raw: f64) -> f64 {
    if (raw - 1000.0).abs() <= 100.0 {
        return 1000.0;
    }
    let k = (raw / 100.0).round();
    if k >= 1.0 && (raw / k - 100.0).abs() <= 10.0 {
        return k * 100.0;
    }
    p0f_round(raw)
}
#[derive(Clone, Debug, PartialEq)]
pub enum Expect {
    /// nothing may be reported
    Nothing,
    /// a report is required; frequency must be one of the listed readings computed from one of the listed raw rates
    Report { raws: Vec<f64>, tsval: u32, client: bool },
    /// the statement leaves this packet open (fewer than 5 ticks, backward movement, state after such a pair)
    Open,
}
#[derive(Clone, Copy)]
enum RefState {
    Ref(u32, u64),
    Bad,
    Unknown,
}
pub fn role_is_client(flags: u8, sport: u16, dport: u16) -> bool {
    if flags & SYN != 0 && flags & ACK == 0 {
        true
    } else if flags & SYN != 0 {
        false
    } else {
        sport > 1024 && dport <= 1024
    }
}
pub fn reference(s: &Scn) -> Vec<Expect> {
    let mut st: HashMap<(bool, bool), RefState> = HashMap::new();
    let mut out = vec![];
    for g in &s.segs {
        let (sp, dp) = if g.from_a { (s.pa, s.pb) } else { (s.pb, s.pa) };
        let client = role_is_client(g.flags, sp, dp);
        let key = (g.from_a, client);
        match st.get(&key).copied() {
            None => {
                st.insert(key, RefState::Ref(g.tsval, g.at_ms));
                out.push(Expect::Nothing);
            }
            Some(RefState::Bad) => out.push(Expect::Nothing),
            Some(RefState::Unknown) => out.push(Expect::Open),
            Some(RefState::Ref(ts0, t0)) => {
                let dt = g.at_ms.saturating_sub(t0);
                let diff = g.tsval.wrapping_sub(ts0);
                let backward = diff > !diff;
                if g.at_ms < t0 || backward {
                    st.insert(key, RefState::Unknown);
                    out.push(Expect::Open);
                    continue;
                }
                if !(25..=600_000).contains(&dt) {
                    st.insert(key, RefState::Bad);
                    out.push(Expect::Nothing);
                    continue;
                }
                let raw = diff as f64 * 1000.0 / dt as f64;
                if diff < 5 {
                    // the 5-tick guard is part of the rule but the statement does not require it
                    st.insert(key, RefState::Unknown);
                    out.push(Expect::Open);
                    continue;
                }
                if !(1.0..=1500.0).contains(&raw) {
                    st.insert(key, RefState::Bad);
                    out.push(Expect::Nothing);
                    continue;
                }
                out.push(Expect::Report { raws: vec![raw], tsval: g.tsval, client });
            }
        }
    }
    out
}

fn check_upt(u: &Upt, raws: &[f64], tsval: u32, client: bool, src: &str, dst: &str) -> Option<(String, String)> {
    let ok_freq = raws.iter().any(|&raw| u.freq == grid_a(raw) || u.freq == grid_b(raw));
    if !ok_freq {
        let raw = raws[0];
        let k = (raw / 100.0).round();
        let class = if u.freq == 100.0 && k >= 2.0 && (raw / k - 100.0).abs() <= 10.0 { "harmonic-of-100Hz-reported-as-100Hz".to_string() } else { "frequency-off-grid".to_string() };
        return Some((class, format!("raw {raw} Hz reported as {} Hz; grid readings {} / {}", u.freq, grid_a(raw), grid_b(raw))));
    }
    let secs = tsval as f64 / u.freq;
    let (d, h, m) = ((secs / 86400.0) as u32, ((secs % 86400.0) / 3600.0) as u32, ((secs % 3600.0) / 60.0) as u32);
    if (u.days, u.hours, u.min) != (d, h, m) || u.hours >= 24 || u.min >= 60 {
        return Some(("uptime-decomposition".into(), format!("tsval {tsval} at {} Hz: expected {d}d {h}h {m}m got {}d {}h {}m", u.freq, u.days, u.hours, u.min)));
    }
    let w1 = (4294967296.0 / (u.freq * 86400.0)) as u32;
    let w2 = (4294967295.0 / (u.freq * 86400.0)) as u32;
    if u.up_mod_days != w1 && u.up_mod_days != w2 {
        return Some(("wrap-period".into(), format!("expected {w1} got {}", u.up_mod_days)));
    }
    let role = if client { "Client" } else { "Server" };
    if u.role != role {
        return Some(("role-label".into(), format!("expected {role} got {}", u.role)));
    }
    if u.src != src || u.dst != dst {
        return Some(("endpoints".into(), format!("expected {src}->{dst} got {}->{}", u.src, u.dst)));
    }
    None
}

pub fn run_impl(s: &Scn) -> Result<Vec<TcpRes>, String> {
    guarded(|| {
        if s.unified {
            let cfg = huginn_net::AnalysisConfig { http_enabled: true, tcp_enabled: true, tls_enabled: true, matcher_enabled: false };
            let mut a = huginn_net::HuginnNet::new(None, 16, Some(cfg)).expect("analyzer");
            s.segs
                .iter()
                .map(|g| {
                    set_clock(g.at_ms);
                    crate::drv::uni_res(&a.analyze_tcp(&frame(s, g))).tcp
                })
                .collect()
        } else {
            let mut a = TcpSeq::new(None, 16);
            s.segs
                .iter()
                .map(|g| {
                    set_clock(g.at_ms);
                    a.feed(&frame(s, g))
                })
                .collect()
        }
    })
}

pub fn check(r: &mut Report, s: &Scn) {
    let exp = reference(s);
    r.exec(s.segs.len() as u64);
    let got = match run_impl(s) {
        Ok(g) => g,
        Err(p) => {
            r.dev("C19/panic", "panic", || json!({"scenario": s, "detail": p}));
            return;
        }
    };
    let mut sig = vec![];
    for (i, (e, g)) in exp.iter().zip(got.iter()).enumerate() {
        let seg = &s.segs[i];
        let (sp, dp, sid, did) = if seg.from_a { (s.pa, s.pb, 1, 2) } else { (s.pb, s.pa, 2, 1) };
        let ip = |id: u8| if s.v6 { format!("2001::{id:x}") } else { format!("10.0.0.{id}") };
        let (src, dst) = (format!("{}:{}", ip(sid), sp), format!("{}:{}", ip(did), dp));
        sig.push((g.client_uptime.as_ref().map(|u| u.freq as u64), g.server_uptime.as_ref().map(|u| u.freq as u64)));
        let mut dev = |class: String, detail: String| {
            r.dev(format!("C19/{class}"), class.clone(), || json!({"scenario": s, "packet": i, "detail": detail, "expected": format!("{e:?}"), "actual": g}));
        };
        match e {
            Expect::Open => {}
            Expect::Nothing => {
                if g.client_uptime.is_some() || g.server_uptime.is_some() {
                    dev("reported-outside-bounds-or-on-first-segment".into(), "an estimate was reported where the rule withholds it".into());
                }
            }
            Expect::Report { raws, tsval, client } => {
                let (mine, other) = if *client { (&g.client_uptime, &g.server_uptime) } else { (&g.server_uptime, &g.client_uptime) };
                if other.is_some() {
                    dev("role-label".into(), "estimate reported under the other role".into());
                }
                match mine {
                    None => dev("withheld-inside-bounds".into(), format!("raw {:?} Hz", raws)),
                    Some(u) => {
                        if let Some((c, d)) = check_upt(u, raws, *tsval, *client, &src, &dst) {
                            dev(c, d);
                        }
                    }
                }
            }
        }
    }
    if !s.unified && s.segs.iter().all(|g| g.from_a == s.segs[0].from_a) {
        tracker_route(r, s, &exp);
    }
    rejected_segment_leaves_no_trace(r, s, &got);
    r.outcome(&sig);
    r.sample(|| json!({"scenario": s, "reports": got.iter().map(|g| (g.client_uptime.as_ref().map(|u| u.freq), g.server_uptime.as_ref().map(|u| u.freq))).collect::<Vec<_>>()}));
}

/// A segment the analyzer refuses (an illegal flag combination: SYN+FIN, SYN+RST, SYN+ACK+FIN, FIN+RST+ACK, none of
/// SYN/ACK/FIN/RST; or an IP fragment) carries a timestamp option like any other. It is not part of the connection: the same
/// scenario with one such segment of the same sender in front of one of its segments (kind and position chosen by the
/// scenario's content, so that all combinations occur across the enumeration) must report exactly what it reports without.
fn rejected_segment_leaves_no_trace(r: &mut Report, s: &Scn, got: &[TcpRes]) {
    if s.segs.is_empty() {
        return;
    }
    let sel = s.segs.iter().fold(s.pa as u64, |a, g| a.wrapping_mul(31).wrapping_add(g.tsval as u64).wrapping_add(g.at_ms).wrapping_add(g.flags as u64)) as usize;
    const KINDS: [(u8, bool); 6] = [(0x03, false), (0x06, false), (0x13, false), (0x15, false), (0x08, false), (0x10, true)];
    let (flags, fragment) = KINDS[sel % KINDS.len()];
    let pos = (sel / KINDS.len()) % s.segs.len();
    let next = &s.segs[pos];
    let noise = {
        let (src, dst, sp, dp) = if next.from_a { (1, 2, s.pa, s.pb) } else { (2, 1, s.pb, s.pa) };
        pkt::build(&Spec { v6: s.v6, src, dst, sport: sp, dport: dp, flags, mf: fragment && !s.v6, seq: 999, ack: if flags & ACK != 0 { 77 } else { 0 }, opts: ts_opts(next.tsval.wrapping_sub(3), 0), payload: vec![b'x'], ..Spec::default() })
    };
    if fragment && s.v6 {
        return;
    }
    r.exec(s.segs.len() as u64 + 1);
    let with = guarded(|| {
        let mut out = vec![];
        if s.unified {
            let cfg = huginn_net::AnalysisConfig { http_enabled: true, tcp_enabled: true, tls_enabled: true, matcher_enabled: false };
            let mut a = huginn_net::HuginnNet::new(None, 16, Some(cfg)).expect("analyzer");
            for (i, g) in s.segs.iter().enumerate() {
                set_clock(g.at_ms);
                if i == pos {
                    let n = crate::drv::uni_res(&a.analyze_tcp(&noise)).tcp;
                    out.push((true, n));
                }
                out.push((false, crate::drv::uni_res(&a.analyze_tcp(&frame(s, g))).tcp));
            }
        } else {
            let mut a = TcpSeq::new(None, 16);
            for (i, g) in s.segs.iter().enumerate() {
                set_clock(g.at_ms);
                if i == pos {
                    out.push((true, a.feed(&noise)));
                }
                out.push((false, a.feed(&frame(s, g))));
            }
        }
        out
    });
    let with = match with {
        Ok(w) => w,
        Err(p) => {
            r.dev("C19/panic", "panic", || json!({"scenario": s, "detail": p, "refused_segment_flags": flags, "before_packet": pos}));
            return;
        }
    };
    let upt = |t: &TcpRes| (t.client_uptime.clone(), t.server_uptime.clone());
    if let Some((_, n)) = with.iter().find(|x| x.0) {
        if n.syn.is_some() || n.syn_ack.is_some() {
            // the segment was not refused after all: nothing to compare
            return;
        }
        if n.client_uptime.is_some() || n.server_uptime.is_some() {
            r.dev("C19/estimate-reported-for-a-refused-segment", "refused-segment", || json!({"scenario": s, "refused_segment_flags": flags, "fragment": fragment, "before_packet": pos, "actual": n}));
        }
    }
    let rest: Vec<_> = with.iter().filter(|x| !x.0).map(|x| upt(&x.1)).collect();
    let base: Vec<_> = got.iter().map(upt).collect();
    if rest != base {
        let i = rest.iter().zip(base.iter()).position(|(a, b)| a != b).unwrap_or(0);
        r.dev("C19/a-refused-segment-changes-later-estimates", "refused-segment", || json!({"scenario": s, "refused_segment_flags": flags, "fragment": fragment, "before_packet": pos, "first_difference_at_packet": i, "without": format!("{:?}", base.get(i)), "with": format!("{:?}", rest.get(i))}));
    }
}

/// The same pair of timestamps through the crate's other public entry point, `calculate_uptime_improved` with an
/// `UptimeTracker`: the first call stores the reference, the second is judged by the same rule (same bounds, same grid,
/// same decomposition); after a rejected pair the tracker stays silent, after an accepted one it keeps its frequency.
fn tracker_route(r: &mut Report, s: &Scn, exp_unused: &[Expect]) {
    use huginn_net_tcp::{calculate_uptime_improved, UptimeTracker};
    if s.segs.len() < 2 {
        return;
    }
    // a tracker has no roles: the expectation is the rule applied to one endpoint in one role
    let one_role = Scn { pa: 40000, pb: 80, segs: s.segs.iter().map(|g| Seg { from_a: true, flags: ACK | PSH, ..g.clone() }).collect(), ..s.clone() };
    let exp = &reference(&one_role)[..];
    let _ = exp_unused;
    let got = guarded(|| {
        let mut t = UptimeTracker::new();
        s.segs
            .iter()
            .enumerate()
            .map(|(i, g)| {
                set_clock(g.at_ms);
                calculate_uptime_improved(&mut t, g.tsval, i == 0).map(|u| Upt { role: String::new(), src: String::new(), dst: String::new(), days: u.days, hours: u.hours, min: u.min, up_mod_days: u.up_mod_days, freq: u.freq })
            })
            .collect::<Vec<_>>()
    });
    r.exec(s.segs.len() as u64);
    let got = match got {
        Ok(g) => g,
        Err(p) => {
            r.dev("C19/tracker/panic", "panic", || json!({"scenario": s, "route": "tracker", "detail": p}));
            return;
        }
    };
    let mut dev = |class: &str, i: usize, detail: String| {
        r.dev(format!("C19/tracker/{class}"), class, || json!({"scenario": s, "route": "tracker", "packet": i, "detail": detail, "actual": format!("{:?}", got.iter().map(|u| u.as_ref().map(|u| (u.freq, u.days, u.hours, u.min, u.up_mod_days))).collect::<Vec<_>>())}));
    };
    if got[0].is_some() {
        dev("reported-on-first-segment", 0, "the first timestamp of a tracker yields an estimate".into());
    }
    match &exp[1] {
        Expect::Open => {}
        Expect::Nothing => {
            // nothing now, and nothing later either: the tracker is not re-evaluated
            for (i, u) in got.iter().enumerate().skip(1) {
                if u.is_some() {
                    dev("reported-outside-bounds", i, "an estimate was reported where the rule withholds it".into());
                    break;
                }
            }
        }
        Expect::Report { raws, tsval, .. } => match &got[1] {
            None => dev("withheld-inside-bounds", 1, format!("raw {raws:?} Hz")),
            Some(u) => {
                let f = u.freq;
                if !raws.iter().any(|&raw| f == grid_a(raw) || f == grid_b(raw)) {
                    dev("frequency-off-grid", 1, format!("raw {} Hz reported as {f} Hz", raws[0]));
                }
                for (i, (u, ts)) in got.iter().zip(s.segs.iter().map(|g| g.tsval)).enumerate().skip(1) {
                    let Some(u) = u else {
                        dev("withheld-after-valid-frequency", i, "a tracker with a valid frequency reports nothing".into());
                        continue;
                    };
                    let _ = tsval;
                    let secs = ts as f64 / f;
                    let (d, h, m) = ((secs / 86400.0) as u32, ((secs % 86400.0) / 3600.0) as u32, ((secs % 3600.0) / 60.0) as u32);
                    let (w1, w2) = ((4294967296.0 / (f * 86400.0)) as u32, (4294967295.0 / (f * 86400.0)) as u32);
                    if u.freq != f || (u.days, u.hours, u.min) != (d, h, m) || (u.up_mod_days != w1 && u.up_mod_days != w2) {
                        dev("uptime-decomposition", i, format!("tsval {ts} at {f} Hz: expected {d}d {h}h {m}m wrap {w1}, got {} Hz {}d {}h {}m wrap {}", u.freq, u.days, u.hours, u.min, u.up_mod_days));
                    }
                }
            }
        },
    }
}

pub fn scenarios(thorough: bool) -> Vec<Scn> {
    let mut v = vec![];
    let dts: Vec<u64> = if thorough { vec![25, 26, 50, 100, 250, 500, 1000, 1500, 2000, 3000, 5000, 7500, 10_000, 30_000, 60_000, 120_000, 300_000, 599_999, 600_000] } else { vec![1000, 2000, 10_000, 60_000, 600_000] };
    // (0: a clock whose first reading is exactly zero is a clock like any other)
    let origins: Vec<u32> = if thorough { vec![0, 1, 1_000_000, 0x7fff_fffd, u32::MAX - 3] } else { vec![0, 1_000_000, u32::MAX - 3] };
    // (1) every integer rate x interval x role route x ts origin (incl. wrap through 2^32) ; third segment at the same steady rate
    for rate in 1..=1500u64 {
        for &dt in &dts {
            let ticks = rate * dt / 1000;
            if ticks < 5 || ticks > u32::MAX as u64 / 2 {
                continue;
            }
            for route in 0..4 {
                for &ts0 in &origins {
                    for v6 in [false, true] {
                        // route 0: client SYN then client data; 1: server SYN+ACK then server data; 2: client data twice; 3: server data twice
                        let (from_a, f0) = match route {
                            0 => (true, SYN),
                            1 => (false, SYN | ACK),
                            2 => (true, ACK | PSH),
                            _ => (false, ACK | PSH),
                        };
                        let mut segs = vec![Seg { from_a, flags: f0, at_ms: T0, tsval: ts0 }, Seg { from_a, flags: ACK | PSH, at_ms: T0 + dt, tsval: ts0.wrapping_add(ticks as u32) }];
                        if dt * 2 <= 600_000 {
                            segs.push(Seg { from_a, flags: ACK, at_ms: T0 + 2 * dt, tsval: ts0.wrapping_add(2 * ticks as u32) });
                        }
                        v.push(Scn { v6, pa: 40000, pb: 80, segs, unified: route == 0 && !v6 && ts0 == 1_000_000 });
                    }
                }
            }
        }
    }
    // (2) boundaries of interval and rate; third segment after a rejected pair must stay silent
    for dt in [0u64, 1, 24, 25, 26, 99, 100, 101, 599_999, 600_000, 600_001, 700_000] {
        for rate in [0.5f64, 0.99, 1.0, 1.01, 99.0, 100.0, 1000.0, 1499.0, 1500.0, 1500.5, 1501.0, 3000.0, 100_000.0] {
            let ticks = (rate * dt as f64 / 1000.0).round() as u32;
            for from_a in [true, false] {
                let f0 = if from_a { SYN } else { SYN | ACK };
                let segs = vec![
                    Seg { from_a, flags: f0, at_ms: T0, tsval: 5000 },
                    Seg { from_a, flags: ACK, at_ms: T0 + dt, tsval: 5000u32.wrapping_add(ticks) },
                    Seg { from_a, flags: ACK, at_ms: T0 + dt + 1000, tsval: 5000u32.wrapping_add(ticks).wrapping_add(100) },
                    Seg { from_a, flags: ACK, at_ms: T0 + dt + 2000, tsval: 5000u32.wrapping_add(ticks).wrapping_add(200) },
                ];
                v.push(Scn { v6: false, pa: 40000, pb: 80, segs, unified: from_a });
            }
        }
    }
    // (3) role by flags and by the port heuristic
    for pa in [80u16, 1024, 1025, 50000] {
        for pb in [80u16, 1024, 1025, 50000] {
            for flags0 in [SYN, SYN | ACK, ACK] {
                for from_a in [true, false] {
                    let segs = vec![
                        Seg { from_a, flags: flags0, at_ms: T0, tsval: 10_000 },
                        Seg { from_a, flags: ACK | PSH, at_ms: T0 + 1000, tsval: 10_250 },
                        Seg { from_a, flags: ACK, at_ms: T0 + 2000, tsval: 10_500 },
                    ];
                    v.push(Scn { v6: false, pa, pb, segs, unified: false });
                }
            }
        }
    }
    // (4) both directions of one connection with different clocks, every order-preserving interleaving of 2+2 segments
    for (ra, rb) in [(100u32, 1000u32), (250, 100), (1000, 250), (10, 1200), (300, 300)] {
        let a = [Seg { from_a: true, flags: SYN, at_ms: 0, tsval: 7_000_000 }, Seg { from_a: true, flags: ACK, at_ms: 0, tsval: 7_000_000 }];
        let b = [Seg { from_a: false, flags: SYN | ACK, at_ms: 0, tsval: 99_000 }, Seg { from_a: false, flags: ACK, at_ms: 0, tsval: 99_000 }];
        for mask in 0u32..16 {
            if mask.count_ones() != 2 {
                continue;
            }
            let (mut ia, mut ib, mut segs) = (0, 0, vec![]);
            for slot in 0..4u64 {
                let t = T0 + slot * 500;
                if mask & (1 << slot) != 0 {
                    let mut g = a[ia].clone();
                    g.at_ms = t;
                    g.tsval = 7_000_000 + (ra as u64 * slot * 500 / 1000) as u32;
                    segs.push(g);
                    ia += 1;
                } else {
                    let mut g = b[ib].clone();
                    g.at_ms = t;
                    g.tsval = 99_000 + (rb as u64 * slot * 500 / 1000) as u32;
                    segs.push(g);
                    ib += 1;
                }
            }
            // timestamps must be relative to each direction's own first segment: rebase
            let first_a = segs.iter().find(|g| g.from_a).map(|g| g.tsval).unwrap_or(0);
            let first_b = segs.iter().find(|g| !g.from_a).map(|g| g.tsval).unwrap_or(0);
            let _ = (first_a, first_b);
            v.push(Scn { v6: false, pa: 40000, pb: 443, segs: segs.clone(), unified: false });
            v.push(Scn { v6: true, pa: 40000, pb: 443, segs, unified: true });
        }
    }
    // (5) backward movement and clock going back: totality only (oracle leaves the reports open)
    for back in [1u32, 4, 5, 100, 20_000, 1 << 31] {
        for dt in [10u64, 50, 99, 100, 1000] {
            let segs = vec![Seg { from_a: true, flags: SYN, at_ms: T0, tsval: 1 << 20 }, Seg { from_a: true, flags: ACK, at_ms: T0 + dt, tsval: (1u32 << 20).wrapping_sub(back) }, Seg { from_a: true, flags: ACK, at_ms: T0 + dt + 500, tsval: (1 << 20) + 500 }];
            v.push(Scn { v6: false, pa: 40000, pb: 80, segs, unified: false });
        }
    }
    // a clock that wraps exactly onto 0 in the later segment, and one that starts at 0 (every role route)
    for (ts0, ticks, dt) in [(0u32.wrapping_sub(1000), 1000u32, 1000u64), (0u32.wrapping_sub(250), 250, 1000), (0, 100, 1000), (0, 1000, 1000)] {
        for route in 0..4 {
            let (from_a, f0) = match route {
                0 => (true, SYN),
                1 => (false, SYN | ACK),
                2 => (true, ACK | PSH),
                _ => (false, ACK | PSH),
            };
            for v6 in [false, true] {
                v.push(Scn { v6, pa: 40000, pb: 80, unified: route == 0, segs: vec![Seg { from_a, flags: f0, at_ms: T0, tsval: ts0 }, Seg { from_a, flags: ACK | PSH, at_ms: T0 + dt, tsval: ts0.wrapping_add(ticks) }, Seg { from_a, flags: ACK, at_ms: T0 + 2 * dt, tsval: ts0.wrapping_add(2 * ticks) }] });
            }
        }
    }
    v.extend(clock_step_scenarios());
    v
}

/// (6) the wall clock is not monotonic: the second (and third) timestamped segment of an endpoint arrives "before" the
/// first one, or after a jump. The statement leaves the reports open when time runs backwards; what is checked is that
/// every history is analysed (no panic - arithmetic overflow checks are on) and that the bounds hold after jumps forward.
pub fn clock_step_scenarios() -> Vec<Scn> {
    let mut v = vec![];
    let base = T0 + 10_000_000;
    for d1 in [-9_000_000i64, -600_001, -600_000, -5000, -25, -1, 0, 1, 24, 25, 1000, 600_000, 600_001, 9_000_000] {
        for d2 in [-5000i64, -1, 0, 1000] {
            for (from_a, f0) in [(true, SYN), (false, SYN | ACK), (true, ACK | PSH), (false, ACK | PSH)] {
                for v6 in [false, true] {
                    let t1 = (base as i64 + d1) as u64;
                    let t2 = (t1 as i64 + d2) as u64;
                    let segs = vec![Seg { from_a, flags: f0, at_ms: base, tsval: 1 << 20 }, Seg { from_a, flags: if f0 & SYN != 0 { f0 } else { ACK }, at_ms: t1, tsval: (1 << 20) + 1000 }, Seg { from_a, flags: ACK, at_ms: t2, tsval: (1 << 20) + 2000 }];
                    v.push(Scn { v6, pa: 40000, pb: 80, segs, unified: !v6 && d2 == 0 });
                }
            }
        }
    }
    v
}

/// "Not re-evaluated while its entry lives": the entry of a rejected endpoint lives 30 s of REAL time (the table expires
/// entries by `Instant`, which the injected clock does not move). After a rejected pair the harness really waits 120 ms and
/// then sends two further segments at a plausible rate (under the injected clock): both must stay silent. Both roles,
/// IPv4 and IPv6, one analyzer each, all waiting at the same time.
fn marker_outlives_short_waits(r: &mut Report) {
    let mut runs = vec![];
    for v6 in [false, true] {
        for (from_a, f0) in [(true, SYN), (false, SYN | ACK)] {
            let s = Scn { v6, pa: 40000, pb: 80, unified: false, segs: vec![Seg { from_a, flags: f0, at_ms: T0, tsval: 9000 }, Seg { from_a, flags: ACK, at_ms: T0 + 1, tsval: 9001 }, Seg { from_a, flags: ACK, at_ms: T0 + 200, tsval: 9200 }, Seg { from_a, flags: ACK, at_ms: T0 + 1200, tsval: 10_200 }] };
            let mut a = TcpSeq::new(None, 16);
            let first: Vec<TcpRes> = s.segs[..2].iter().map(|g| {
                set_clock(g.at_ms);
                a.feed(&frame(&s, g))
            }).collect();
            runs.push((s, a, first));
        }
    }
    // ... and a steady endpoint whose reference was stored before the wait must be evaluated after it (its entry lives 30 s)
    let mut steady = vec![];
    for v6 in [false, true] {
        for (from_a, f0) in [(true, SYN), (false, SYN | ACK)] {
            let s = Scn { v6, pa: 40001, pb: 80, unified: false, segs: vec![Seg { from_a, flags: f0, at_ms: T0, tsval: 50_000 }, Seg { from_a, flags: ACK, at_ms: T0 + 1000, tsval: 51_000 }] };
            let mut a = TcpSeq::new(None, 16);
            set_clock(s.segs[0].at_ms);
            let _ = a.feed(&frame(&s, &s.segs[0]));
            steady.push((s, a));
        }
    }
    std::thread::sleep(std::time::Duration::from_millis(120));
    for (s, mut a) in steady {
        r.exec(2);
        set_clock(s.segs[1].at_ms);
        let g = a.feed(&frame(&s, &s.segs[1]));
        let f = g.client_uptime.as_ref().or(g.server_uptime.as_ref()).map(|u| u.freq);
        r.outcome(&("steady-after-wait", f.map(|x| x as u64)));
        if f != Some(1000.0) {
            r.dev("C19/withheld-inside-bounds/after-a-real-wait", "withheld-inside-bounds", || json!({"kind": "marker-lifetime", "scenario": s, "packet": 1, "detail": "reference stored, 120 ms of real time later the second segment (1000 ticks in 1000 ms of capture time) yields no 1000 Hz estimate", "actual": g}));
        }
    }
    for (s, mut a, first) in runs {
        r.exec(4);
        let rest: Vec<TcpRes> = s.segs[2..].iter().map(|g| {
            set_clock(g.at_ms);
            a.feed(&frame(&s, g))
        }).collect();
        let all: Vec<&TcpRes> = first.iter().chain(rest.iter()).collect();
        r.outcome(&("marker", all.iter().map(|g| g.client_uptime.is_some() || g.server_uptime.is_some()).collect::<Vec<_>>()));
        if let Some(i) = all.iter().position(|g| g.client_uptime.is_some() || g.server_uptime.is_some()) {
            r.dev("C19/re-evaluated-while-the-rejected-entry-should-live", "reported-outside-bounds-or-on-first-segment", || json!({"kind": "marker-lifetime", "scenario": s, "packet": i, "detail": "the pair 1 ms apart was rejected; 120 ms of real time later the endpoint is evaluated again although its entry lives 30 s"}));
        }
    }
    huginn_net_tcp::uptime::verif_clock::clear_local();
}

pub fn run(thorough: bool) -> Outcome {
    let sc = scenarios(thorough);
    let report = par_slices(sc.len(), 256, |range| {
        let mut r = Report::new();
        for i in range {
            check(&mut r, &sc[i]);
        }
        r
    });
    let mut report = report;
    marker_outlives_short_waits(&mut report);
    Outcome {
        report,
        rule: "histories of 2-4 timestamped segments under the injected clock: every integer rate 1..1500 Hz x intervals x 4 role routes x timestamp origin (incl. 0, wrap through 2^32 and wrap exactly onto 0) x IPv4/IPv6; interval/rate boundaries with follow-up segments; port heuristic over {80,1024,1025,50000}^2; both directions interleaved; backward movement; a rejected endpoint stays silent after 120 ms of real waiting (its entry lives 30 s of real time; both roles, IPv4 / IPv6); wall clock stepping backwards or jumping between the segments (14 x 4 offsets, retransmitted SYN / SYN+ACK and data); every single-endpoint history also through calculate_uptime_improved + UptimeTracker (same bounds, grid and decomposition; silent after a rejected pair, frequency kept after an accepted one); distinct = distinct per-packet (client,server) frequency report vectors".into(),
        exhaustive: true,
        bounds: json!({"scenarios": sc.len(), "max_segments": 4}),
    }
}

pub fn replay(ex: &Value) -> Report {
    let mut r = Report::new();
    if ex["kind"].as_str() == Some("marker-lifetime") {
        marker_outlives_short_waits(&mut r);
        return r;
    }
    match serde_json::from_value::<Scn>(ex["scenario"].clone()) {
        Ok(s) => check(&mut r, &s),
        Err(_) => r.machinery_error("bad replay file"),
    }
    r
}
