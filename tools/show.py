#!/usr/bin/env python3
import json,sys
j=json.load(open(sys.argv[1]));c=j['coverage']
print({k:c[k] for k in c if k not in('samples','rule')}, 'wall',j['wall_s'])
for d in j['deviations'][: int(sys.argv[2]) if len(sys.argv)>2 else 60]:
    print(d['count'], d['key'], '\n      ', json.dumps(d['example'])[:int(sys.argv[3]) if len(sys.argv)>3 else 500])
print(len(j['deviations']),'deviation keys', j.get('machinery_errors'))
