#!/bin/bash
# Offline build of the two engines from files on disk only.
set -e
cd "$(dirname "$0")/.."
export CARGO_NET_OFFLINE=true
mkdir -p .target evidence replays
(cd hv && CARGO_TARGET_DIR=../.target/hv cargo build --release --offline)
if [ -d hv-loom ]; then (cd hv-loom && CARGO_TARGET_DIR=../.target/hv-loom cargo build --release --offline); fi
echo "setup ok"
