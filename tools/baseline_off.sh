#!/bin/bash
# Runs the repository's pinned baseline suite with the verification guard OFF (no --features verif-hooks).
# Prints a summary line "BASELINE passed=<n> failed=<n>" ; exit 0 iff only the known always-fail test fails.
set -u
cd /repo || exit 2
export CARGO_NET_OFFLINE=true
OUT=$(mktemp)
if command -v cargo-nextest >/dev/null 2>&1 && [ -f /w/lib/nextest.toml ]; then
  cargo nextest run --workspace --no-fail-fast --tool-config-file pb:/w/lib/nextest.toml --profile pb --test-threads 8 --offline >"$OUT" 2>&1
else
  cargo test --workspace --no-fail-fast --offline >"$OUT" 2>&1
fi
tail -n 15 "$OUT"
FAILED=$(grep -E "^\s+(FAIL|SIGABRT|SIGSEGV|TIMEOUT)\b" "$OUT" | sed -E 's/.*\] +//' | sort -u)
echo "failed tests:"; echo "$FAILED"
UNEXPECTED=$(echo "$FAILED" | grep -v "golden_tests test_golden_pcap_snapshots" | grep -v '^$' || true)
rm -f "$OUT"
if [ -n "$UNEXPECTED" ]; then echo "BASELINE unexpected failures"; exit 1; fi
echo "BASELINE ok (only the always-fail TLS golden path test fails)"; exit 0
