#!/bin/bash
# usage: confirm_seed.sh <name> <worktree> <demo-crate> <check-id>...
# 1. in the scratch worktree: demo passes without the patch, fails with it; suite (minus the always-fail test) passes with it
# 2. applies the patch to /repo, runs the given checks (quick), reverts /repo
# 3. stores patch/demo/meta under /verif/seeded/<name>/
set -u
NAME=$1; WT=$2; CRATE=$3; shift 3
export CARGO_NET_OFFLINE=true
S=$WT/SEEDED
DEST=$(head -1 $S/demo.rs | grep -o '[a-z-]*/tests/[a-z_0-9]*\.rs' | head -1)
[ -z "$DEST" ] && DEST=$CRATE/tests/seeded_demo.rs
TEST=$(basename $DEST .rs)
FEAT=""; grep -q "verif-hooks" $S/demo.rs && FEAT="--features verif-hooks"
cd $WT && git checkout -q -- . && cp $S/demo.rs $DEST
echo "== demo without patch"; cargo test -p $CRATE $FEAT --test $TEST --offline 2>&1 | grep -E "^test result|error" | head -3
git apply $S/patch.diff || { echo "PATCH DOES NOT APPLY"; exit 2; }
echo "== demo with patch"; cargo test -p $CRATE $FEAT --test $TEST --offline 2>&1 | grep -E "^test result|error" | head -3
rm -f $DEST
echo "== suite with patch"; cargo test --workspace --no-fail-fast --offline 2>&1 | grep -E "^test result: FAILED|^test .* FAILED|^error" | sort | uniq -c | head
git checkout -q -- .
echo "== checks against patched /repo"
git -C /repo apply $S/patch.diff || { echo "PATCH DOES NOT APPLY TO /repo"; exit 2; }
mkdir -p /verif/seeded/$NAME
RES=""
for c in "$@"; do
  OUT=$(cd /verif && ./check $c 2>&1); RC=$?
  echo "$OUT" | grep -E "^VIOLATION|^\[C|MACHINERY" | head -4
  RES="$RES $c:exit$RC"
done
git -C /repo checkout -- .
git -C /repo status --short | head -3
cp $S/patch.diff $S/demo.rs /verif/seeded/$NAME/
cp $S/meta.json /verif/seeded/$NAME/agent_meta.json
echo "RESULT $NAME:$RES"
