#!/usr/bin/env python3
"""usage: seed_meta.py <seeded-name> <round> <checks run, comma separated> <result text>
converts seeded/<name>/agent_meta.json (as delivered by the sub-agent) into meta.json"""
import json, os, sys
name, rnd, checks, result = sys.argv[1], sys.argv[2], sys.argv[3], sys.argv[4]
d = os.path.join(os.path.dirname(os.path.dirname(os.path.abspath(__file__))), 'seeded', name)
a = json.load(open(d + '/agent_meta.json'))
m = {"property": a["property"], "summary": a["summary"], "needs_to_manifest": a["needs_to_manifest"], "files_changed": a["files_changed"],
     "produced_by": f"independent sub-agent (round {rnd}) given only the property text, a scratch worktree, the mechanisms of the earlier seeded changes and the hint to look for inputs a systematic small-alphabet tester would not contain",
     "confirmed": {"suite_with_patch": "cargo test --workspace --no-fail-fast --offline in the scratch worktree: only huginn-net-tls golden_tests::test_golden_pcap_snapshots fails (fails on the unchanged tree too)", "demo": "demo.rs passes without the patch and fails with it (run in the scratch worktree)"},
     "checks_run": [f"./check {checks} (quick) with the patch applied to /repo, then git checkout"], "result": result}
json.dump(m, open(d + '/meta.json', 'w'), indent=1)
os.remove(d + '/agent_meta.json')
print("meta written for", name)
