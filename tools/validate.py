#!/opt/veriftools/pyvenv/bin/python
import json, jsonschema, glob, sys
jsonschema.validate(json.load(open('/verif/MANIFEST.json')), json.load(open('/root/.vp/MANIFEST.schema.json')))
s = json.load(open('/root/.vp/EVIDENCE.schema.json'))
for f in sorted(glob.glob('/verif/evidence/*.json')):
    jsonschema.validate(json.load(open(f)), s)
    print('ok', f)
print('manifest valid')
