#!/usr/bin/env python3
"""Assembles /verif/DESIGN.md from tools/design_body.md + claims.json + known_findings.json + seeded/*/meta.json + evidence."""
import json, glob, os, subprocess, collections
V = os.path.dirname(os.path.dirname(os.path.abspath(__file__)))
def j(p): return json.load(open(os.path.join(V, p)))
claims = j('tools/claims.json')
props = {}
for l in open(os.path.join(V, 'properties.jsonl')):
    d = json.loads(l); props[d['id']] = d
known = j('known_findings.json')['findings']
c13r = j('tools/c13_reasons.json')

def esc(s): return s.replace('|', '\\|').replace('\n', ' ')

out = []
for pid in sorted(props):
    c = claims.get(pid)
    if not c: continue
    out.append(f"### {pid} — {props[pid]['title']}\n")
    out.append(f"**Technique.** {c['technique']}.\n")
    out.append(f"**Scope, bounds, oracle.** {c['text']}\n")
    if c.get('note'): out.append(f"**Limits.** {c['note']}\n")
    ep = os.path.join(V, 'evidence', pid + '.json')
    if os.path.exists(ep):
        e = json.load(open(ep)); cov = e['coverage']
        kf = cov.get('known_findings_seen', [])
        out.append(f"**Last run** ({e['tier']}): {cov['evaluations']:,} executions, {cov['transitions']:,} analyzer calls / branch points, {cov['distinct_nontrivial']:,} distinct outcomes, {len(kf)} known-finding keys seen, {e['violations']} violations, {e['wall_s']} s.\n")
PROPS = "\n".join(out)

rows = ["| property | commit | what failed (found by the check, with a replay) |", "|---|---|---|"]
for f in known:
    if f['status'] == 'fixed':
        rows.append(f"| {f['property']} | `{f.get('commit','')}` | {esc(f['what'])} |")
FIXED = "\n".join(rows)

log = subprocess.run(['git', '-C', '/repo', 'log', '--format=%h %s', 'bb3278d..HEAD'], capture_output=True, text=True).stdout.strip().splitlines()
COMMITS = "\n".join(f"* `{l.split(' ',1)[0]}` {l.split(' ',1)[1]}" for l in log)

rows = ["| property | key / cause | what fails | why not repaired | keys |", "|---|---|---|---|---|"]
pinned = {
 'C03/options-after-eol-are-parsed': 'the TCP golden snapshot pins layouts such as `eol+1,eol+0`',
 'C03/mtu-adds-actual-header-lengths': 'the TCP golden snapshot pins MTU 1504 for MSS 1460 + 12 option bytes',
 'C03/non-handshake-segment-rendered-as-syn-ack': 'the TCP golden snapshot pins 43 results, most of them for non-SYN segments',
 'C12/expsw-containment-reversed': 'two HTTP tests and the HTTP golden snapshot pin quality 0.8 for such matches',
}
for f in known:
    if f['status'] == 'known' and f['property'] != 'C13':
        rows.append(f"| {f['property']} | `{f['key']}` | {esc(f['what'][:420])} | {pinned.get(f['key'],'')} | 1 |")
cnt = collections.Counter()
for f in known:
    if f['status'] == 'known' and f['property'] == 'C13':
        for cause in f['key'].split('/')[-1].split('+'):
            cnt[cause] += 1
for cause, n in cnt.most_common():
    rows.append(f"| C13 | `…/{cause}` | {esc(c13r.get(cause,'')[:420])} | consequence of the causes above / pinned by unit tests or needs an API change (see text) | {n} signatures |")
KNOWN = "\n".join(rows)

rows = ["| seeded change (`seeded/<name>/`) | what it changes | outcome |", "|---|---|---|"]
for m in sorted(glob.glob(os.path.join(V, 'seeded/*/meta.json'))):
    d = json.load(open(m))
    rows.append(f"| `{m.split('/')[-2]}` | {esc(d['summary'][:330])} | {esc(d.get('result',''))} |")
SEEDED = "\n".join(rows)

body = open(os.path.join(V, 'tools/design_body.md')).read()
metas=[json.load(open(m)) for m in glob.glob(os.path.join(V,'seeded/*/meta.json'))]
body = body.replace('{{SEED_TOTAL}}', str(len(metas))).replace('{{SEED_MISSED}}', str(sum(1 for d in metas if 'MISSED' in d.get('result',''))))
body = body.replace('{{PROPERTIES}}', PROPS).replace('{{FIXED_TABLE}}', FIXED).replace('{{COMMITS}}', COMMITS).replace('{{KNOWN_TABLE}}', KNOWN).replace('{{SEEDED_TABLE}}', SEEDED)
open(os.path.join(V, 'DESIGN.md'), 'w').write(body)
print('DESIGN.md written:', len(body.splitlines()), 'lines')
