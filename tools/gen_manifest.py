#!/usr/bin/env python3
"""Generates /verif/MANIFEST.json from the table below (single source of truth for what is claimed)."""
import json, os, subprocess
V = os.path.dirname(os.path.dirname(os.path.abspath(__file__)))

# id -> (technique, level text, level note, design ref)
CLAIMED = {k: (v["technique"], v["text"], v["note"], v["design_ref"]) for k, v in json.load(open(os.path.join(V, "tools", "claims.json"))).items()}
NOT_YET = {}
props = [json.loads(l) for l in open(os.path.join(V, "properties.jsonl"))]
hook_commits = subprocess.run(["git", "-C", "/repo", "log", "--format=%H", "--grep=^verif hook"], capture_output=True, text=True).stdout.split()
checks, na = [], []
for p in props:
    i = p["id"]
    if i in CLAIMED:
        tech, text, note, ref = CLAIMED[i]
        checks.append({
            "property_id": i,
            "quick_cmd": f"./check {i} --tier quick",
            "thorough_cmd": f"./check {i} --tier thorough",
            "evidence_file": f"evidence/{i}.json",
            "replay_cmd_template": f"./check {i} --replay {{path}}",
            "engine": "hv+hv-loom" if i in ("C10", "C15", "C18") else "hv",
            "level_claimed": {"category": "model_checking", "text": text, "design_ref": ref},
            "level_note": note,
            "technique": tech,
        })
    else:
        na.append({"property_id": i, "reason": NOT_YET.get(i, "check not built yet in this round (planned: bounded-exhaustive exploration, see DESIGN.md §4); nothing is claimed for it")})
m = {
 "version": 1,
 "setup_cmd": "./tools/setup.sh",
 "hooks": {
  "guard": "cargo feature verif-hooks (crate huginn-net-tcp)",
  "enable": "the harness crates depend on huginn-net-tcp with features=[\"verif-hooks\"]; cargo feature unification turns it on for every crate in the harness build",
  "baseline_off_cmd": "./tools/baseline_off.sh",
  "source_commits": hook_commits,
  "add_only": True,
 },
 "engines": [
  {"name": "hv", "path": "hv", "serves_properties": [c["property_id"] for c in checks], "kind_free_text": "bounded-exhaustive explicit-state explorer driving the real crates: shape spaces, operation histories by replay from a fresh instance, reference-model and differential oracles"},
  {"name": "hv-loom", "path": "hv-loom", "serves_properties": ["C10", "C15", "C18"], "kind_free_text": "loom (DPOR, preemption-bounded) over the repository's real parallel.rs files, path-rewritten at build time"},
 ],
 "checks": checks,
 "not_applicable": na,
 "notes": "All verdicts come from exhaustive enumeration inside stated bounds on the real code; see DESIGN.md. Exit 2 of ./check is a machinery error (build failure, cap hit, engine crash), never a verdict.",
}
json.dump(m, open(os.path.join(V, "MANIFEST.json"), "w"), indent=1)
print("claimed:", [c["property_id"] for c in checks])
