#!/usr/bin/env python3
"""Generates /verif/MANIFEST.json from the table below (single source of truth for what is claimed)."""
import json, os, subprocess
V = os.path.dirname(os.path.dirname(os.path.abspath(__file__)))

# id -> (technique, level text, level note, design ref)
CLAIMED = {
 "C14": ("bounded-exhaustive enumeration of filter configurations x endpoints on the real FilterConfig (explicit-state, reference-model oracle)",
         "Every filter configuration of a 107k-element alphabet (mode x port/address/subnet sub-filters x sides x boundary ranges) is evaluated on every same-family endpoint pair and port pair of a boundary alphabet, on each of the three filter.rs copies, against the boolean function written from the statement; the whole finite product is enumerated, nothing is sampled.",
         "Trusts the 40-line reference function; scope is the stated alphabets (ports incl. 0/65535 and both neighbours of every range bound, prefix lengths 0/8/24/31/32 and 0/64/127/128).", "DESIGN.md §4 C14"),
 "C04": ("bounded-exhaustive enumeration of generated ClientHellos (all permutations of all subsets, GREASE at every position) on the real parser and packet pipelines, reference-model oracle",
         "ClientHellos are generated from structured descriptions: 7 legacy versions x 8 supported_versions lists x every permutation of every subset (<=5 quick, 6 thorough) of 6 suites incl. 2 GREASE, 98..150-element lists; every permutation of every subset (<=4 quick, 5 thorough) of 17 extensions incl. 2 GREASE extensions, SNI, ALPN, sigalgs, groups; sigalg orders x ALPN lists x SNI. Each is parsed by the real code and JA4/JA4_r/JA4_o/JA4_ro, ja4_a/b/c and the separately reported fields are compared with a reference JA4 computed from the description; a sub-family goes through the stateless packet processor, the stateful TLS pipeline (1 and 2 segments, IPv4/IPv6) and the unified analyzer.",
         "Trusts the 60-line reference JA4 and sha2 (self-tested against the FIPS vector). ALPN values are restricted to alphanumeric first/last bytes, supported_versions lists always hold a known non-GREASE version, DTLS/QUIC are out of scope; raw (unhashed) rendering of an empty list is not compared.", "DESIGN.md §4 C04"),
 "C19": ("bounded-exhaustive enumeration of timestamp histories under an injected clock on the real TCP pipeline, reference-model oracle per packet",
         "Histories of 2-4 timestamped segments are replayed on a fresh analyzer under the injected millisecond clock: every integer rate 1..1500 Hz x 5 (7 thorough) intervals x 4 role routes (SYN->data, SYN+ACK->data, data->data each side) x timestamp origin incl. wrap through 2^32 x IPv4/IPv6 with a third steady segment; every interval boundary (24/25/26, 99/100/101 ms, 599999/600000/600001 ms) x rate boundary (0.99/1/1.01 ... 1499/1500/1500.5/1501) with two follow-up segments (no re-evaluation after rejection); the port heuristic over {80,1024,1025,50000}^2 x first-segment flags; both directions of one connection with different clock rates in every interleaving; backward movement (totality). A reference model of the documented rule predicts each per-packet report (frequency grid, days/hours/minutes, wrap days, role, endpoints).",
         "Needs hook H1 (injectable clock). Both readings of the documented 100 Hz grid are accepted; pairs advancing fewer than 5 ticks and backward movement are checked for totality only; TTL expiry of tracker entries is outside the scope (runs take microseconds).", "DESIGN.md §4 C19"),
}
NOT_YET = {}
props = [json.loads(l) for l in open(os.path.join(V, "properties.jsonl"))]
hook_commits = subprocess.run(["git", "-C", "/repo", "log", "--format=%H", "--grep=^verif hook"], capture_output=True, text=True).stdout.split()
checks, na = [], []
for p in props:
    i = p["id"]
    if i in CLAIMED:
        tech, text, note, ref = CLAIMED[i]
        checks.append({
            "property_id": i,
            "quick_cmd": f"./check {i} --tier quick",
            "thorough_cmd": f"./check {i} --tier thorough",
            "evidence_file": f"evidence/{i}.json",
            "replay_cmd_template": f"./check {i} --replay {{path}}",
            "engine": "hv+hv-loom" if i in ("C10", "C18") else "hv",
            "level_claimed": {"category": "model_checking", "text": text, "design_ref": ref},
            "level_note": note,
            "technique": tech,
        })
    else:
        na.append({"property_id": i, "reason": NOT_YET.get(i, "check not built yet in this round (planned: bounded-exhaustive exploration, see DESIGN.md §4); nothing is claimed for it")})
m = {
 "version": 1,
 "setup_cmd": "./tools/setup.sh",
 "hooks": {
  "guard": "cargo feature verif-hooks (crate huginn-net-tcp)",
  "enable": "the harness crates depend on huginn-net-tcp with features=[\"verif-hooks\"]; cargo feature unification turns it on for every crate in the harness build",
  "baseline_off_cmd": "./tools/baseline_off.sh",
  "source_commits": hook_commits,
  "add_only": True,
 },
 "engines": [
  {"name": "hv", "path": "hv", "serves_properties": [c["property_id"] for c in checks], "kind_free_text": "bounded-exhaustive explicit-state explorer driving the real crates: shape spaces, operation histories by replay from a fresh instance, reference-model and differential oracles"},
  {"name": "hv-loom", "path": "hv-loom", "serves_properties": ["C10", "C18"], "kind_free_text": "loom (DPOR, preemption-bounded) over the repository's real parallel.rs files, path-rewritten at build time"},
 ],
 "checks": checks,
 "not_applicable": na,
 "notes": "All verdicts come from exhaustive enumeration inside stated bounds on the real code; see DESIGN.md. Exit 2 of ./check is a machinery error (build failure, cap hit, engine crash), never a verdict.",
}
json.dump(m, open(os.path.join(V, "MANIFEST.json"), "w"), indent=1)
print("claimed:", [c["property_id"] for c in checks])
