#!/usr/bin/env python3
"""Maintenance tool (run by hand, never by a check): add 'known' entries for the deviation keys of engine result
files, after the classes have been reviewed. usage: add_known.py <property> <reason-by-class.json> <result.json>..."""
import json, sys
prop, reasons_file, files = sys.argv[1], sys.argv[2], sys.argv[3:]
reasons = json.load(open(reasons_file))
kf = json.load(open('/verif/known_findings.json'))
have = {(f['property'], f['key']) for f in kf['findings']}
added = 0
for fn in files:
    for d in json.load(open(fn))['deviations']:
        if (prop, d['key']) in have:
            continue
        parts = d['class'].split('+')
        missing = [p for p in parts if p not in reasons]
        if missing:
            print('UNREVIEWED class', d['class'], d['key']); continue
        e = d['example']
        what = '; '.join(reasons[p] for p in parts)
        ctx = {k: e.get(k) for k in ('table', 'label', 'signature', 'instance', 'observed', 'outcome', 'quality') if e.get(k) is not None}
        kf['findings'].append({'property': prop, 'key': d['key'], 'status': 'known', 'what': what, 'example': ctx})
        have.add((prop, d['key'])); added += 1
json.dump(kf, open('/verif/known_findings.json', 'w'), indent=1)
print('added', added)
